//! C09 — routes are propagated only where BGP allows, with correctly rewritten
//! attributes.
//!
//! E2 module (compiled inside the daemon crate as `crate::event::verif::c09`).
//! Workload: the full matrix source kind x receiver role x cluster config x
//! confederation (x echo), crossed with attribute presence vectors and export
//! policy next-hop / MED actions, through both branches of the real
//! `process_nlri_change` with a recording sink; an LLGR stale-transition history
//! through the real `TableManager`; inbound `is_as_loop` and `rx_update` loop
//! checks with RIB read-back; and a few sessions whose role / cluster-id are
//! derived by the daemon's own `accept_connection` from neighbour configuration.
//! Oracle: `expected_export`, written from the property statement.
use super::super::export::{GroupedSink, NlriSink};
use super::super::*;
use crate::verif_common::{Json, Params, Report, Rng, fnv64, guard, panic_class};
use std::collections::{BTreeMap, BTreeSet};

const LOCAL_AS: u32 = 65001;
const CONFED_ID: u32 = 65100;
const LOCAL_RID: Ipv4Addr = Ipv4Addr::new(1, 0, 0, 1);
const EXPLICIT_CID: Ipv4Addr = Ipv4Addr::new(9, 9, 9, 9);
const SRC_RID: Ipv4Addr = Ipv4Addr::new(10, 0, 0, 2);
const LLGR_STALE: u32 = 0xffff_0006;
const OPQ_T_CODE: u8 = 200;
const OPQ_NT_CODE: u8 = 201;
const SUBJECT_PID: u32 = 7;
const DECOY_PID: u32 = 3;

// ------------------------------------------------------------------ the matrix

#[derive(Clone, Copy, PartialEq, Eq, Debug, Hash)]
enum Src {
    Ebgp,
    Ibgp,
    IbgpRrClient,
    RsClient,
    ConfedEbgp,
    Local,
    Kernel,
}

const SRCS: [Src; 7] = [
    Src::Ebgp,
    Src::Ibgp,
    Src::IbgpRrClient,
    Src::RsClient,
    Src::ConfedEbgp,
    Src::Local,
    Src::Kernel,
];

const DSTS: [PeerRole; 5] = [
    PeerRole::Ebgp,
    PeerRole::Ibgp,
    PeerRole::IbgpRrClient,
    PeerRole::RsClient,
    PeerRole::ConfedEbgp,
];

fn role_name(r: PeerRole) -> &'static str {
    match r {
        PeerRole::Ebgp => "Ebgp",
        PeerRole::Ibgp => "Ibgp",
        PeerRole::IbgpRrClient => "IbgpRrClient",
        PeerRole::RsClient => "RsClient",
        PeerRole::ConfedEbgp => "ConfedEbgp",
    }
}

impl Src {
    fn name(self) -> &'static str {
        match self {
            Src::Ebgp => "Ebgp",
            Src::Ibgp => "Ibgp",
            Src::IbgpRrClient => "IbgpRrClient",
            Src::RsClient => "RsClient",
            Src::ConfedEbgp => "ConfedEbgp",
            Src::Local => "local",
            Src::Kernel => "kernel",
        }
    }
    fn role(self) -> Option<PeerRole> {
        match self {
            Src::Ebgp => Some(PeerRole::Ebgp),
            Src::Ibgp => Some(PeerRole::Ibgp),
            Src::IbgpRrClient => Some(PeerRole::IbgpRrClient),
            Src::RsClient => Some(PeerRole::RsClient),
            Src::ConfedEbgp => Some(PeerRole::ConfedEbgp),
            Src::Local | Src::Kernel => None,
        }
    }
    fn is_peer(self) -> bool {
        self.role().is_some()
    }
    fn is_ibgp(self) -> bool {
        matches!(self, Src::Ibgp | Src::IbgpRrClient)
    }
    fn remote_asn(self) -> u32 {
        match self {
            Src::Ebgp => 65002,
            Src::Ibgp | Src::IbgpRrClient => LOCAL_AS,
            Src::RsClient => 65003,
            Src::ConfedEbgp => 65010,
            Src::Local | Src::Kernel => 0,
        }
    }
}

fn is_ibgp_role(r: PeerRole) -> bool {
    matches!(r, PeerRole::Ibgp | PeerRole::IbgpRrClient)
}

#[derive(Clone, Copy, PartialEq, Eq, Debug, Hash)]
enum Cl {
    None,
    Default,
    Explicit,
}

impl Cl {
    fn id(self) -> Option<Ipv4Addr> {
        match self {
            Cl::None => None,
            Cl::Default => Some(LOCAL_RID),
            Cl::Explicit => Some(EXPLICIT_CID),
        }
    }
}

#[derive(Clone, Copy, Debug, PartialEq, Eq)]
struct Cell {
    src: Src,
    dst: PeerRole,
    cl: Cl,
    confed: bool,
    echo: bool,
}

impl Cell {
    fn pair(&self) -> String {
        format!("{}-to-{}", self.src.name(), role_name(self.dst))
    }
}

fn all_cells() -> Vec<Cell> {
    let mut v = Vec::new();
    for src in SRCS {
        for dst in DSTS {
            for cl in [Cl::None, Cl::Default, Cl::Explicit] {
                for confed in [false, true] {
                    v.push(Cell {
                        src,
                        dst,
                        cl,
                        confed,
                        echo: false,
                    });
                    if src.is_peer() {
                        v.push(Cell {
                            src,
                            dst,
                            cl,
                            confed,
                            echo: true,
                        });
                    }
                }
            }
        }
    }
    v
}

// ------------------------------------------------------------------ attribute vectors

const N_SHAPES: u8 = 12;
const N_POLICIES: u8 = 16;

#[derive(Clone, Debug, PartialEq, Eq, Hash)]
struct Spec {
    origin: Option<u8>,
    /// AS_PATH shape index, see `path_segments`
    path: u8,
    /// stored next hop / session kind:
    /// 0 = V4 on an IPv4 session, 2 = none on an IPv4 session,
    /// 1 = V6, 3 = V6LinkLocal(global, link-local), 6 = none -- IPv6 family on an IPv6 session,
    /// 4 = V6, 5 = V6LinkLocal -- IPv4 family with an IPv6 next hop (RFC 8950) on an IPv6 session
    nh: u8,
    /// which global address (pool index) the stored next hop has
    nh_g: u8,
    /// which link-local half (pool index) a V6LinkLocal stored next hop has -- varies
    /// independently of `nh_g`
    nh_ll: u8,
    med: Option<u32>,
    lp: Option<u32>,
    originator: Option<u32>,
    cluster: Vec<u32>,
    aigp: bool,
    /// 0 none, 1 two plain communities, 2 one plain + LLGR_STALE already there
    comm: u8,
    /// 0 none, 1 flags 0xC0, 2 flags 0xE0 (already partial), 3 flags 0xD0 (ext-len)
    opq_t: u8,
    /// 0 none, 1 flags 0x80, 2 flags 0x90
    opq_nt: u8,
    llgr: bool,
    /// 0 none, 1 nh address, 2 nh self, 3 nh peer-address, 4 nh unchanged, 5 med replace, 6 med mod,
    /// 7 community add, 8 community replace, 9 community remove (an existing one and LLGR_STALE),
    /// 10 community replace with nothing, 11 ext-community add, 12 large-community add,
    /// 13 as-prepend x2, 14 local-pref set, 15 community remove (the plain ones)
    policy: u8,
    addpath: bool,
    decoy: bool,
    /// eBGP / RS receivers inside a confederation: session local AS = confederation id
    /// (what `Global::add_peer` configures) instead of the member AS
    ctx_asn_confed: bool,
    link_local: bool,
    reversed: bool,
    /// local route whose stored next hop is the unspecified address
    nh_unspec: bool,
}

const SEG_SET: u8 = 1;
const SEG_SEQ: u8 = 2;
const SEG_CSEQ: u8 = 3;
const SEG_CSET: u8 = 4;

fn full255(base: u32) -> Vec<u32> {
    (0..255).map(|i| base + i).collect()
}

fn path_segments(shape: u8) -> Option<Vec<(u8, Vec<u32>)>> {
    Some(match shape {
        0 => return None,
        1 => vec![],
        2 => vec![(SEG_SEQ, vec![64600, 64601])],
        3 => vec![(SEG_SET, vec![64610, 64611])],
        4 => vec![(SEG_CSEQ, vec![65011, 65012]), (SEG_SEQ, vec![64600])],
        5 => vec![
            (SEG_CSET, vec![65013]),
            (SEG_CSEQ, vec![65012]),
            (SEG_SEQ, vec![64600, 64601]),
        ],
        6 => vec![(SEG_SEQ, full255(70000))],
        7 => vec![(SEG_CSEQ, full255(80000)), (SEG_SEQ, vec![64600])],
        8 => vec![
            (SEG_SEQ, vec![64600]),
            (SEG_SET, vec![64610, 64611]),
            (SEG_SEQ, vec![64602]),
        ],
        9 => vec![(SEG_CSEQ, vec![65011])],
        10 => vec![(SEG_SEQ, full255(70000)), (SEG_SEQ, vec![64600])],
        _ => vec![(SEG_SEQ, vec![64600]), (SEG_CSEQ, vec![65011])],
    })
}

fn shape_has_full(shape: u8) -> bool {
    matches!(shape, 6 | 7 | 10)
}

fn shape_has_confed(shape: u8) -> bool {
    matches!(shape, 4 | 5 | 7 | 9 | 11)
}

fn as_path_attr(segs: &[(u8, Vec<u32>)]) -> packet::Attribute {
    let mut b = Vec::new();
    for (t, asns) in segs {
        b.push(*t);
        b.push(asns.len() as u8);
        for a in asns {
            b.extend_from_slice(&a.to_be_bytes());
        }
    }
    packet::Attribute::new_with_bin(packet::Attribute::AS_PATH, b).unwrap()
}

fn u32s_to_bytes(v: &[u32]) -> Vec<u8> {
    let mut b = Vec::new();
    for x in v {
        b.extend_from_slice(&x.to_be_bytes());
    }
    b
}

fn bytes_to_u32s(b: &[u8]) -> Vec<u32> {
    b.chunks(4)
        .filter(|c| c.len() == 4)
        .map(|c| u32::from_be_bytes([c[0], c[1], c[2], c[3]]))
        .collect()
}

const COMM_A: u32 = (64600 << 16) | 1;
const COMM_B: u32 = (64600 << 16) | 2;
const AIGP_BIN: [u8; 11] = [1, 0, 11, 0, 0, 0, 0, 0, 0, 0, 42];
const OPQ_T_DATA: [u8; 5] = [0xde, 0xad, 0xbe, 0xef, 0x01];
const OPQ_NT_DATA: [u8; 3] = [0xca, 0xfe, 0x02];

fn spec_communities(s: &Spec) -> Vec<u32> {
    match s.comm {
        0 => vec![],
        1 => vec![COMM_A, COMM_B],
        _ => vec![COMM_A, LLGR_STALE],
    }
}

fn opq_t_flags(v: u8) -> u8 {
    match v {
        1 => 0xC0,
        2 => 0xE0,
        _ => 0xD0,
    }
}

fn opq_nt_flags(v: u8) -> u8 {
    if v == 1 { 0x80 } else { 0x90 }
}

fn build_attrs(s: &Spec) -> Vec<packet::Attribute> {
    use packet::Attribute as A;
    let mut v = Vec::new();
    if let Some(o) = s.origin {
        v.push(A::new_with_value(A::ORIGIN, o as u32).unwrap());
    }
    if let Some(segs) = path_segments(s.path) {
        v.push(as_path_attr(&segs));
    }
    if let Some(m) = s.med {
        v.push(A::new_with_value(A::MULTI_EXIT_DESC, m).unwrap());
    }
    if let Some(l) = s.lp {
        v.push(A::new_with_value(A::LOCAL_PREF, l).unwrap());
    }
    let comm = spec_communities(s);
    if !comm.is_empty() {
        v.push(A::new_with_bin(A::COMMUNITY, u32s_to_bytes(&comm)).unwrap());
    }
    if let Some(o) = s.originator {
        v.push(A::new_with_value(A::ORIGINATOR_ID, o).unwrap());
    }
    if !s.cluster.is_empty() {
        v.push(A::new_with_bin(A::CLUSTER_LIST, u32s_to_bytes(&s.cluster)).unwrap());
    }
    if s.aigp {
        v.push(A::new_with_bin(A::AIGP, AIGP_BIN.to_vec()).unwrap());
    }
    if s.opq_t != 0 {
        v.push(A::new_opaque(
            OPQ_T_CODE,
            opq_t_flags(s.opq_t),
            OPQ_T_DATA.to_vec(),
        ));
    }
    if s.opq_nt != 0 {
        v.push(A::new_opaque(
            OPQ_NT_CODE,
            opq_nt_flags(s.opq_nt),
            OPQ_NT_DATA.to_vec(),
        ));
    }
    if s.reversed {
        v.reverse();
    }
    v
}

/// Addresses of one case (IPv4- or IPv6-flavoured).
#[derive(Clone, Debug)]
struct Env {
    family: Family,
    net: packet::Nlri,
    local_addr: IpAddr,
    link_addr: Option<Ipv6Addr>,
    src_addr: IpAddr,
    recv_addr: IpAddr,
    decoy_addr: IpAddr,
    stored_nh: Option<bgp::Nexthop>,
    ctx_local_asn: u32,
    policy_addr: IpAddr,
}

const N_NH_KINDS: u8 = 7;
const NH_V4_POOL: [Ipv4Addr; 3] = [
    Ipv4Addr::new(192, 0, 2, 55),
    Ipv4Addr::new(192, 0, 2, 56),
    Ipv4Addr::new(192, 0, 2, 57),
];

fn nh_global6(i: u8) -> Ipv6Addr {
    if i % 2 == 0 {
        "2001:db8:aaaa::1".parse().unwrap()
    } else {
        "2001:db8:aaaa::2".parse().unwrap()
    }
}

fn nh_linklocal(i: u8) -> Ipv6Addr {
    if i % 2 == 0 {
        "fe80::a".parse().unwrap()
    } else {
        "fe80::b".parse().unwrap()
    }
}

/// the session runs over IPv6 (local address v6, maybe a link-local address)
fn is_v6_session(nh: u8) -> bool {
    matches!(nh, 1 | 3 | 4 | 5 | 6)
}

fn nh_kind_name(nh: u8) -> &'static str {
    match nh {
        0 => "v4",
        1 => "v6",
        2 => "none-v4-session",
        3 => "v6-linklocal",
        4 => "v4-family-v6-nexthop",
        5 => "v4-family-v6-linklocal-nexthop",
        _ => "none-v6-session",
    }
}

fn make_env(cell: &Cell, s: &Spec) -> Env {
    let v6 = is_v6_session(s.nh);
    let ctx_local_asn = if cell.confed
        && s.ctx_asn_confed
        && matches!(cell.dst, PeerRole::Ebgp | PeerRole::RsClient)
    {
        CONFED_ID
    } else {
        LOCAL_AS
    };
    let unspec = s.nh_unspec && cell.src == Src::Local;
    if v6 {
        let src_addr: IpAddr = "2001:db8::2".parse().unwrap();
        let other: IpAddr = "2001:db8::3".parse().unwrap();
        let global = if unspec {
            Ipv6Addr::UNSPECIFIED
        } else {
            nh_global6(s.nh_g)
        };
        let stored = match s.nh {
            1 | 4 => Some(bgp::Nexthop::V6(global)),
            3 | 5 => Some(bgp::Nexthop::V6LinkLocal(global, nh_linklocal(s.nh_ll))),
            _ => None,
        };
        let v4_family = matches!(s.nh, 4 | 5);
        Env {
            family: if v4_family {
                Family::IPV4
            } else {
                Family::IPV6
            },
            net: if v4_family {
                "10.1.0.0/16".parse().unwrap()
            } else {
                "2001:db8:1::/48".parse().unwrap()
            },
            local_addr: "2001:db8::1".parse().unwrap(),
            link_addr: if s.link_local {
                Some("fe80::1".parse().unwrap())
            } else {
                None
            },
            src_addr,
            recv_addr: if cell.echo { src_addr } else { other },
            decoy_addr: "2001:db8::9".parse().unwrap(),
            stored_nh: stored,
            ctx_local_asn,
            policy_addr: "2001:db8:ffff::77".parse().unwrap(),
        }
    } else {
        let src_addr: IpAddr = "10.0.0.2".parse().unwrap();
        let other: IpAddr = "10.0.0.3".parse().unwrap();
        let stored = if s.nh == 2 {
            None
        } else if unspec {
            Some(bgp::Nexthop::V4(Ipv4Addr::UNSPECIFIED))
        } else {
            Some(bgp::Nexthop::V4(NH_V4_POOL[(s.nh_g % 3) as usize]))
        };
        Env {
            family: Family::IPV4,
            net: "10.1.0.0/16".parse().unwrap(),
            local_addr: "10.0.0.1".parse().unwrap(),
            link_addr: None,
            src_addr,
            recv_addr: if cell.echo { src_addr } else { other },
            decoy_addr: "10.0.0.9".parse().unwrap(),
            stored_nh: stored,
            ctx_local_asn,
            policy_addr: "203.0.113.77".parse().unwrap(),
        }
    }
}

/// "Next hop self" for a session: the local address; on an IPv6 session whose link
/// has a link-local address (`link_addr`, read as "the peer shares the link") the
/// global + link-local form of RFC 2545 section 3, otherwise the global address alone.
fn self_nexthop(env: &Env) -> bgp::Nexthop {
    match (env.local_addr, env.link_addr) {
        (IpAddr::V4(a), _) => bgp::Nexthop::V4(a),
        (IpAddr::V6(a), Some(ll)) => bgp::Nexthop::V6LinkLocal(a, ll),
        (IpAddr::V6(a), None) => bgp::Nexthop::V6(a),
    }
}

fn make_source(cell: &Cell, env: &Env, llgr: bool) -> Arc<table::Source> {
    match cell.src {
        Src::Local => table::Source::local(),
        Src::Kernel => table::Source::kernel(),
        k => {
            // sessions to true eBGP / RS peers inside a confederation run with the
            // confederation id as local AS (Global::add_peer)
            let local_asn = if cell.confed && matches!(k, Src::Ebgp | Src::RsClient) {
                CONFED_ID
            } else {
                LOCAL_AS
            };
            let s = Arc::new(table::Source::new(
                env.src_addr,
                env.local_addr,
                k.remote_asn(),
                local_asn,
                SRC_RID,
                k.role().unwrap(),
            ));
            if llgr {
                s.mark_llgr_stale();
            }
            s
        }
    }
}

// ------------------------------------------------------------------ export policies

struct Policies {
    /// index = policy kind (1..N_POLICIES); [0] unused; NhAddr has a v4 and a v6 variant
    v4: Vec<Option<Arc<table::PolicyAssignment>>>,
    v6: Vec<Option<Arc<table::PolicyAssignment>>>,
}

const POLICY_MED_REPLACE: i64 = 777;
const POLICY_MED_MOD: i64 = 5;

fn build_assignment(actions: table::Actions) -> Arc<table::PolicyAssignment> {
    let mut pt = table::PolicyTable::new();
    pt.add_statement("s", vec![], Some(table::Disposition::Accept), actions)
        .expect("add_statement");
    pt.add_policy("p", vec!["s".to_string()])
        .expect("add_policy");
    pt.build_assignment(
        None,
        "a",
        table::PolicyDirection::Export,
        table::Disposition::Accept,
        vec!["p".to_string()],
    )
    .expect("build_assignment")
}

fn build_policies() -> Policies {
    let mk = |addr: IpAddr| -> Vec<Option<Arc<table::PolicyAssignment>>> {
        let mut v: Vec<Option<Arc<table::PolicyAssignment>>> = vec![None];
        for action in [
            table::NexthopAction::Address(addr),
            table::NexthopAction::PeerSelf,
            table::NexthopAction::PeerAddress,
            table::NexthopAction::Unchanged,
        ] {
            v.push(Some(build_assignment(table::Actions {
                nexthop: Some(action),
                ..Default::default()
            })));
        }
        v.push(Some(build_assignment(table::Actions {
            med: Some(table::MedAction {
                action_type: table::MedActionType::Replace,
                value: POLICY_MED_REPLACE,
            }),
            ..Default::default()
        })));
        v.push(Some(build_assignment(table::Actions {
            med: Some(table::MedAction {
                action_type: table::MedActionType::Mod,
                value: POLICY_MED_MOD,
            }),
            ..Default::default()
        })));
        let comm = |t: table::CommunityActionType, c: Vec<u32>| {
            Some(build_assignment(table::Actions {
                community: Some(table::CommunityAction {
                    action_type: t,
                    communities: c,
                }),
                ..Default::default()
            }))
        };
        v.push(comm(table::CommunityActionType::Add, vec![POL_C1])); // 7
        v.push(comm(
            table::CommunityActionType::Replace,
            vec![POL_C1, POL_C2],
        )); // 8
        v.push(comm(
            table::CommunityActionType::Remove,
            vec![COMM_A, LLGR_STALE],
        )); // 9
        v.push(comm(table::CommunityActionType::Replace, vec![])); // 10
        v.push(Some(build_assignment(table::Actions {
            ext_community: Some(table::ExtCommunityAction {
                action_type: table::CommunityActionType::Add,
                communities: vec![POL_EXT],
            }),
            ..Default::default()
        }))); // 11
        v.push(Some(build_assignment(table::Actions {
            large_community: Some(table::LargeCommunityAction {
                action_type: table::CommunityActionType::Add,
                communities: vec![POL_LARGE],
            }),
            ..Default::default()
        }))); // 12
        v.push(Some(build_assignment(table::Actions {
            as_prepend: Some(table::AsPrependAction {
                asn: POL_PREPEND_AS,
                repeat: 2,
                use_left_most: false,
            }),
            ..Default::default()
        }))); // 13
        v.push(Some(build_assignment(table::Actions {
            local_pref: Some(table::LocalPrefAction {
                value: POL_LOCAL_PREF,
            }),
            ..Default::default()
        }))); // 14
        v.push(comm(
            table::CommunityActionType::Remove,
            vec![COMM_A, COMM_B],
        )); // 15
        v
    };
    Policies {
        v4: mk("203.0.113.77".parse().unwrap()),
        v6: mk("2001:db8:ffff::77".parse().unwrap()),
    }
}

const POL_C1: u32 = (64700 << 16) | 11;
const POL_C2: u32 = (64700 << 16) | 12;
const POL_EXT: [u8; 8] = [0x00, 0x02, 0xfc, 0xbc, 0, 0, 0, 0x63];
const POL_LARGE: (u32, u32, u32) = (64700, 1, 2);
const POL_PREPEND_AS: u32 = 64999;
const POL_LOCAL_PREF: u32 = 333;

fn policy_name(p: u8) -> &'static str {
    match p {
        7 => "community-add",
        8 => "community-replace",
        9 => "community-remove-incl-llgr-stale",
        10 => "community-replace-with-nothing",
        11 => "ext-community-add",
        12 => "large-community-add",
        13 => "as-prepend",
        14 => "local-pref-set",
        15 => "community-remove",
        0 => "none",
        1 => "nh-address",
        2 => "nh-self",
        3 => "nh-peer-address",
        4 => "nh-unchanged",
        5 => "med-replace",
        _ => "med-mod",
    }
}

// ------------------------------------------------------------------ the reference model

/// One element of a normalised AS_PATH: sequences are flattened into hops (so that
/// segment boundaries do not matter), sets stay units.
#[derive(Clone, Debug, PartialEq, Eq)]
enum Item {
    Hop(u8, u32),
    Set(u8, Vec<u32>),
}

fn items_of(segs: &[(u8, Vec<u32>)]) -> Vec<Item> {
    let mut out = Vec::new();
    for (t, asns) in segs {
        match *t {
            SEG_SEQ | SEG_CSEQ => {
                for a in asns {
                    out.push(Item::Hop(*t, *a));
                }
            }
            _ => {
                let mut s = asns.clone();
                s.sort();
                out.push(Item::Set(*t, s));
            }
        }
    }
    out
}

fn parse_as_path(b: &[u8]) -> Result<Vec<(u8, Vec<u32>)>, String> {
    let mut pos = 0usize;
    let mut segs = Vec::new();
    while pos < b.len() {
        if pos + 2 > b.len() {
            return Err("truncated segment header".into());
        }
        let t = b[pos];
        let n = b[pos + 1] as usize;
        if !(1..=4).contains(&t) {
            return Err(format!("segment type {}", t));
        }
        if n == 0 {
            return Err("zero-length segment".into());
        }
        pos += 2;
        if pos + n * 4 > b.len() {
            return Err("segment overruns the attribute".into());
        }
        segs.push((t, bytes_to_u32s(&b[pos..pos + n * 4])));
        pos += n * 4;
    }
    Ok(segs)
}

#[derive(Clone, Debug, PartialEq)]
enum Exp<T> {
    /// the statement does not say: not judged
    Any,
    Absent,
    Present,
    Is(T),
}

#[derive(Clone, Debug, PartialEq)]
enum ExpNh {
    Any,
    Addr(IpAddr),
    Same(bgp::Nexthop),
}

#[derive(Clone, Debug)]
struct ExpSend {
    path: Exp<Vec<Item>>,
    origin: Exp<u32>,
    med: Exp<u32>,
    local_pref: Exp<u32>,
    originator: Exp<u32>,
    cluster_list: Exp<Vec<u32>>,
    aigp: Exp<Vec<u8>>,
    communities: Exp<BTreeSet<u32>>,
    /// unknown optional transitive attribute must be there with Partial set
    opaque_t: bool,
    nexthop: ExpNh,
    /// true when a policy next-hop action decided `nexthop`
    nh_by_policy: bool,
    /// true when `nexthop` is "next hop self" (full form, incl. the link-local half)
    nh_self: bool,
    /// the route arrived already carrying LLGR_STALE from a source that is not itself
    /// LLGR-stale and the export policy removed / replaced communities: whether the tag
    /// must survive is left open by the statement -- compared ignoring LLGR_STALE
    llgr_tag_open: bool,
    ext_community: Exp<Vec<u8>>,
    large_community: Exp<Vec<u8>>,
    reflected: bool,
    unjudged: Vec<&'static str>,
}

#[derive(Clone, Debug)]
enum Expected {
    /// must not be sent; the clause that forbids it
    Suppress(&'static str),
    /// the statement permits both (reason)
    Either(&'static str, ExpSend),
    Send(ExpSend),
}

/// Suppress / send, from the statement: never back to the peer it was learned
/// from; never from one non-client iBGP peer to another; never across the
/// route-server / non-route-server boundary.
fn expected_decision(cell: &Cell) -> Result<(), (&'static str, bool)> {
    // Err((clause, strict)); strict=false means "either is accepted"
    if cell.echo && cell.src.is_peer() {
        return Err(("echo", true));
    }
    let src_rs = cell.src == Src::RsClient;
    let dst_rs = cell.dst == PeerRole::RsClient;
    if src_rs != dst_rs {
        if cell.src.is_peer() {
            return Err(("rs-boundary", true));
        }
        // locally originated / kernel routes towards an RS client: the statement
        // does not place them on either side of the boundary
        return Err(("rs-local-origin", false));
    }
    if cell.src.is_ibgp() && is_ibgp_role(cell.dst) {
        if cell.src == Src::Ibgp && cell.dst == PeerRole::Ibgp {
            return Err(("split-horizon", true));
        }
        if cell.cl == Cl::None {
            // a client role without any cluster-id (not a route reflector) is a
            // configuration the daemon never produces: iBGP sessions always get one
            return Err(("rr-client-without-cluster", false));
        }
    }
    Ok(())
}

fn expected_export(cell: &Cell, s: &Spec, env: &Env) -> Expected {
    let decision = expected_decision(cell);
    if let Err((clause, true)) = decision {
        return Expected::Suppress(clause);
    }
    let in_segs = path_segments(s.path);
    let mut in_items: Vec<Item> = in_segs.as_deref().map(items_of).unwrap_or_default();
    if s.policy == 13 {
        // export-policy as-prepend: the policy's AS twice in front of the received path
        // (in a confederation segment towards confed-eBGP peers); the per-role rewrite
        // then happens on top of that
        let kind = if cell.dst == PeerRole::ConfedEbgp {
            SEG_CSEQ
        } else {
            SEG_SEQ
        };
        let mut v = vec![
            Item::Hop(kind, POL_PREPEND_AS),
            Item::Hop(kind, POL_PREPEND_AS),
        ];
        v.extend(in_items);
        in_items = v;
    }
    // LOCAL_PREF as the export policy leaves it
    let lp_after_policy = if s.policy == 14 {
        Some(POL_LOCAL_PREF)
    } else {
        s.lp
    };
    let mut unjudged: Vec<&'static str> = Vec::new();

    // attributes the statement does not mention travel unchanged
    let origin = match s.origin {
        Some(o) => Exp::Is(o as u32),
        None => Exp::Absent,
    };
    // communities: what the export policy makes of the received ones, and on top of that
    // LLGR_STALE whenever the source is LLGR-stale ("LLGR-stale routes carry LLGR_STALE",
    // whatever the policy did to the other communities)
    let mut comm: BTreeSet<u32> = spec_communities(s).into_iter().collect();
    let received_tag = comm.contains(&LLGR_STALE);
    match s.policy {
        7 => {
            comm.insert(POL_C1);
        }
        8 => comm = [POL_C1, POL_C2].into_iter().collect(),
        9 => {
            comm.remove(&COMM_A);
            comm.remove(&LLGR_STALE);
        }
        10 => comm.clear(),
        15 => {
            comm.remove(&COMM_A);
            comm.remove(&COMM_B);
        }
        _ => {}
    }
    let source_stale = s.llgr && cell.src.is_peer();
    if source_stale {
        comm.insert(LLGR_STALE);
    }
    let llgr_tag_open = received_tag && !source_stale && matches!(s.policy, 8 | 9 | 10);
    let communities = if comm.is_empty() {
        Exp::Absent
    } else {
        Exp::Is(comm)
    };
    let pass_u32 = |v: Option<u32>| match v {
        Some(x) => Exp::Is(x),
        None => Exp::Absent,
    };
    let med_policy = s.policy == 5 || s.policy == 6;

    // next hop decided by an export-policy action
    let policy_nh = match s.policy {
        1 => Some(ExpNh::Addr(env.policy_addr)),
        2 => Some(ExpNh::Addr(env.local_addr)),
        3 => Some(ExpNh::Addr(env.recv_addr)),
        4 => Some(match env.stored_nh {
            Some(nh) => ExpNh::Same(nh),
            None => ExpNh::Any,
        }),
        _ => None,
    };

    if matches!(s.policy, 1..=3) && env.local_addr.is_ipv6() {
        // set-next-hop actions are judged on the address they name; whether a
        // link-local half accompanies it is the policy engine's business (C14)
        unjudged.push("link-local-half-under-policy-nexthop-action");
    }
    if matches!(cell.dst, PeerRole::RsClient | PeerRole::ConfedEbgp)
        && matches!(env.stored_nh, Some(bgp::Nexthop::V6LinkLocal(..)))
        && s.policy != 4
    {
        unjudged.push("link-local-nexthop-towards-rs-client-or-confed-ebgp");
    }
    let mut e = ExpSend {
        path: Exp::Any,
        origin,
        med: Exp::Any,
        local_pref: Exp::Any,
        originator: Exp::Any,
        cluster_list: Exp::Any,
        aigp: Exp::Any,
        communities,
        opaque_t: s.opq_t != 0,
        nexthop: ExpNh::Any,
        nh_by_policy: policy_nh.is_some(),
        nh_self: false,
        llgr_tag_open,
        ext_community: if s.policy == 11 {
            Exp::Is(POL_EXT.to_vec())
        } else {
            Exp::Absent
        },
        large_community: if s.policy == 12 {
            let mut b = Vec::new();
            b.extend_from_slice(&POL_LARGE.0.to_be_bytes());
            b.extend_from_slice(&POL_LARGE.1.to_be_bytes());
            b.extend_from_slice(&POL_LARGE.2.to_be_bytes());
            Exp::Is(b)
        } else {
            Exp::Absent
        },
        reflected: false,
        unjudged: Vec::new(),
    };

    match cell.dst {
        PeerRole::Ebgp => {
            let prepend = if cell.confed { CONFED_ID } else { LOCAL_AS };
            let mut items = vec![Item::Hop(SEG_SEQ, prepend)];
            items.extend(
                in_items
                    .iter()
                    .filter(|i| !matches!(i, Item::Hop(SEG_CSEQ, _) | Item::Set(SEG_CSET, _)))
                    .cloned(),
            );
            e.path = Exp::Is(items);
            e.local_pref = Exp::Absent;
            e.originator = Exp::Absent;
            e.cluster_list = Exp::Absent;
            e.aigp = Exp::Absent;
            e.med = if med_policy {
                unjudged.push("med-set-by-policy");
                Exp::Any
            } else if s.med.is_none() {
                Exp::Absent
            } else if cell.src.is_peer() {
                Exp::Absent // a received MED
            } else {
                unjudged.push("med-of-local-route-to-ebgp");
                Exp::Any
            };
            e.nexthop = match policy_nh {
                Some(p) => p,
                None => {
                    let explicit_local = cell.src == Src::Local
                        && env.stored_nh.is_some_and(|n| !n.addr().is_unspecified());
                    if explicit_local {
                        // third-party next hop of a locally injected route: deliberate
                        // (GoBGP-compatible) behaviour the statement does not address
                        unjudged.push("ebgp-nexthop-of-local-route-with-explicit-nexthop");
                        ExpNh::Any
                    } else {
                        // "the next hop is self": the whole next hop, i.e. on an IPv6
                        // session also the right link-local half (RFC 2545 s.3) and none
                        // of the stored next hop's
                        e.nh_self = true;
                        ExpNh::Same(self_nexthop(env))
                    }
                }
            };
        }
        PeerRole::Ibgp | PeerRole::IbgpRrClient => {
            e.path = Exp::Is(in_items);
            e.local_pref = match lp_after_policy {
                Some(v) => Exp::Is(v),
                None => Exp::Present,
            };
            e.med = if med_policy {
                Exp::Any
            } else {
                pass_u32(s.med)
            };
            e.aigp = if s.aigp {
                Exp::Is(AIGP_BIN.to_vec())
            } else {
                Exp::Absent
            };
            if cell.src.is_ibgp() {
                match cell.cl.id() {
                    Some(cid) => {
                        e.reflected = true;
                        e.originator = Exp::Is(s.originator.unwrap_or(u32::from(SRC_RID)));
                        let mut cl = vec![u32::from(cid)];
                        cl.extend(s.cluster.iter().copied());
                        e.cluster_list = Exp::Is(cl);
                    }
                    None => unjudged.push("reflection-without-cluster-id"),
                }
            } else {
                // not a reflected route: nothing says it gains these; an attribute the
                // route already carried is not judged
                e.originator = if s.originator.is_some() {
                    Exp::Any
                } else {
                    Exp::Absent
                };
                e.cluster_list = if s.cluster.is_empty() {
                    Exp::Absent
                } else {
                    Exp::Any
                };
            }
            e.nexthop = match policy_nh {
                Some(p) => p,
                None => match (cell.src.is_peer(), env.stored_nh) {
                    (true, Some(nh)) => ExpNh::Same(nh),
                    _ => {
                        unjudged.push("ibgp-nexthop-of-local-or-nexthopless-route");
                        ExpNh::Any
                    }
                },
            };
        }
        PeerRole::ConfedEbgp => {
            let mut items = vec![Item::Hop(SEG_CSEQ, env.ctx_local_asn)];
            items.extend(in_items.iter().cloned());
            e.path = Exp::Is(items);
            e.local_pref = match lp_after_policy {
                Some(v) => Exp::Is(v),
                None => Exp::Any,
            };
            unjudged.push("confed-ebgp-med-nexthop-rr-attrs");
            if let Some(p) = policy_nh {
                e.nexthop = p;
            }
        }
        PeerRole::RsClient => {
            unjudged.push("rs-client-transparency");
            if let Some(p) = policy_nh {
                e.nexthop = p;
            }
        }
    }
    e.unjudged = unjudged;
    match decision {
        Err((why, false)) => Expected::Either(why, e),
        _ => Expected::Send(e),
    }
}

// ------------------------------------------------------------------ observation

#[derive(Default)]
struct Rec {
    reach: Vec<(
        u32,
        u32,
        Option<bgp::Nexthop>,
        Arc<Vec<packet::Attribute>>,
        Arc<table::Source>,
    )>,
    unreach: Vec<(u32, u32)>,
}

impl NlriSink for Rec {
    fn reach(
        &mut self,
        dest_id: u32,
        _nlri: packet::Nlri,
        path_id: u32,
        nexthop: Option<bgp::Nexthop>,
        attr: Arc<Vec<packet::Attribute>>,
        source: &Arc<table::Source>,
    ) {
        self.reach
            .push((dest_id, path_id, nexthop, attr, Arc::clone(source)));
    }
    fn unreach(&mut self, dest_id: u32, _nlri: packet::Nlri, path_id: u32) {
        self.unreach.push((dest_id, path_id));
    }
}

fn code_name(code: u8) -> String {
    use packet::Attribute as A;
    match code {
        A::ORIGIN => "ORIGIN".into(),
        A::AS_PATH => "AS_PATH".into(),
        A::NEXTHOP => "NEXT_HOP".into(),
        A::MULTI_EXIT_DESC => "MED".into(),
        A::LOCAL_PREF => "LOCAL_PREF".into(),
        A::COMMUNITY => "COMMUNITY".into(),
        A::ORIGINATOR_ID => "ORIGINATOR_ID".into(),
        A::CLUSTER_LIST => "CLUSTER_LIST".into(),
        A::AIGP => "AIGP".into(),
        A::EXTENDED_COMMUNITY => "EXTENDED_COMMUNITY".into(),
        A::LARGE_COMMUNITY => "LARGE_COMMUNITY".into(),
        OPQ_T_CODE => "OPAQUE_TRANSITIVE".into(),
        OPQ_NT_CODE => "OPAQUE_NON_TRANSITIVE".into(),
        c => format!("code{}", c),
    }
}

fn attrs_json(attrs: &[packet::Attribute]) -> Json {
    Json::arr(attrs.iter().map(|a| {
        let val = match (a.value(), a.binary()) {
            (Some(v), _) => format!("{}", v),
            (None, Some(b)) if b.len() > 64 => {
                format!(
                    "{}… ({} bytes)",
                    crate::verif_common::hex(&b[..64]),
                    b.len()
                )
            }
            (None, Some(b)) => crate::verif_common::hex(b),
            _ => "?".into(),
        };
        Json::s(format!(
            "{} flags={:#04x} {}",
            code_name(a.code()),
            a.flags(),
            val
        ))
    }))
}

fn find1(attrs: &[packet::Attribute], code: u8) -> Option<&packet::Attribute> {
    attrs.iter().find(|a| a.code() == code)
}

/// (clause, fact, human text)
type Finding = (&'static str, String, String);

fn check_u32(
    out: &mut Vec<Finding>,
    exp: &Exp<u32>,
    attrs: &[packet::Attribute],
    code: u8,
    clause_absent: &'static str,
    clause_other: &'static str,
) {
    let name = code_name(code);
    let got = find1(attrs, code).map(|a| a.value());
    match (exp, got) {
        (Exp::Any, _) => {}
        (Exp::Absent, None) => {}
        (Exp::Absent, Some(_)) => out.push((
            clause_absent,
            name.clone(),
            format!("{} must not be sent", name),
        )),
        (Exp::Present, Some(_)) => {}
        (Exp::Present, None) | (Exp::Is(_), None) => out.push((
            clause_other,
            format!("{}-missing", name),
            format!("{} is missing", name),
        )),
        (Exp::Is(v), Some(g)) => {
            if g != Some(*v) {
                out.push((
                    clause_other,
                    format!("{}-changed", name),
                    format!("{} is {:?}, expected {}", name, g, v),
                ));
            }
        }
    }
}

fn judge(
    cell: &Cell,
    s: &Spec,
    e: &ExpSend,
    nh: Option<bgp::Nexthop>,
    attrs: &[packet::Attribute],
) -> Vec<Finding> {
    use packet::Attribute as A;
    let mut out: Vec<Finding> = Vec::new();

    // no attribute twice
    let mut seen: BTreeMap<u8, u32> = BTreeMap::new();
    for a in attrs {
        *seen.entry(a.code()).or_insert(0) += 1;
    }
    for (c, n) in &seen {
        if *n > 1 {
            out.push((
                "other-attrs",
                format!("dup-{}", code_name(*c)),
                format!("{} appears {} times", code_name(*c), n),
            ));
        }
    }

    // AS_PATH
    if let Exp::Is(want) = &e.path {
        let got = match find1(attrs, A::AS_PATH) {
            None => Ok(Vec::new()),
            Some(a) => match a.binary() {
                Some(b) => parse_as_path(b).map(|segs| items_of(&segs)),
                None => Err("AS_PATH without binary value".to_string()),
            },
        };
        match got {
            Err(why) => out.push((
                "aspath",
                "malformed".into(),
                format!("AS_PATH sent is malformed: {}", why),
            )),
            Ok(items) => {
                if &items != want {
                    let fact = if shape_has_full(s.path) {
                        "mismatch-full255"
                    } else if shape_has_confed(s.path) {
                        "mismatch-confed-segments"
                    } else {
                        "mismatch"
                    };
                    let show = |v: &Vec<Item>| {
                        let n = v.len();
                        format!(
                            "{:?}{}",
                            &v[..n.min(6)],
                            if n > 6 {
                                format!(" … ({} items)", n)
                            } else {
                                String::new()
                            }
                        )
                    };
                    out.push((
                        "aspath",
                        fact.into(),
                        format!("AS_PATH sent {} expected {}", show(&items), show(want)),
                    ));
                }
            }
        }
    }

    let ebgp = cell.dst == PeerRole::Ebgp;
    check_u32(
        &mut out,
        &e.origin,
        attrs,
        A::ORIGIN,
        "other-attrs",
        "other-attrs",
    );
    check_u32(
        &mut out,
        &e.med,
        attrs,
        A::MULTI_EXIT_DESC,
        if ebgp && s.med.is_some() {
            "strip"
        } else {
            "other-attrs"
        },
        "other-attrs",
    );
    check_u32(
        &mut out,
        &e.local_pref,
        attrs,
        A::LOCAL_PREF,
        "strip",
        "local-pref",
    );
    // ORIGINATOR_ID
    {
        let got = find1(attrs, A::ORIGINATOR_ID).map(|a| a.value());
        match (&e.originator, got) {
            (Exp::Any, _) | (Exp::Absent, None) | (Exp::Present, Some(_)) => {}
            (Exp::Absent, Some(g)) => {
                if ebgp {
                    out.push((
                        "strip",
                        "ORIGINATOR_ID".into(),
                        "ORIGINATOR_ID must not be sent to eBGP".into(),
                    ));
                } else {
                    out.push((
                        "reflect",
                        "originator-on-non-reflected".into(),
                        format!(
                            "ORIGINATOR_ID {:?} added to a route that is not reflected",
                            g.map(Ipv4Addr::from)
                        ),
                    ));
                }
            }
            (Exp::Present, None) | (Exp::Is(_), None) => out.push((
                "reflect",
                "originator-missing".into(),
                "reflected route has no ORIGINATOR_ID".into(),
            )),
            (Exp::Is(v), Some(g)) => {
                if g != Some(*v) {
                    let fact = if s.originator.is_some() {
                        "originator-overwritten"
                    } else {
                        "originator-wrong"
                    };
                    out.push((
                        "reflect",
                        fact.into(),
                        format!(
                            "ORIGINATOR_ID is {:?}, expected {}",
                            g.map(Ipv4Addr::from),
                            Ipv4Addr::from(*v)
                        ),
                    ));
                }
            }
        }
    }
    // CLUSTER_LIST
    {
        let got = find1(attrs, A::CLUSTER_LIST)
            .map(|a| a.binary().map(|b| bytes_to_u32s(b)).unwrap_or_default());
        match (&e.cluster_list, got) {
            (Exp::Any, _) | (Exp::Absent, None) | (Exp::Present, Some(_)) => {}
            (Exp::Absent, Some(_)) => {
                if ebgp {
                    out.push((
                        "strip",
                        "CLUSTER_LIST".into(),
                        "CLUSTER_LIST must not be sent to eBGP".into(),
                    ));
                } else {
                    out.push((
                        "reflect",
                        "cluster-list-on-non-reflected".into(),
                        "CLUSTER_LIST added to a route that is not reflected".into(),
                    ));
                }
            }
            (Exp::Present, None) | (Exp::Is(_), None) => out.push((
                "reflect",
                "cluster-list-missing".into(),
                "reflected route has no CLUSTER_LIST".into(),
            )),
            (Exp::Is(v), Some(g)) => {
                if &g != v {
                    let show = |l: &Vec<u32>| {
                        l.iter()
                            .map(|x| Ipv4Addr::from(*x).to_string())
                            .collect::<Vec<_>>()
                            .join(",")
                    };
                    out.push((
                        "reflect",
                        "cluster-list-wrong".into(),
                        format!("CLUSTER_LIST is [{}], expected [{}]", show(&g), show(v)),
                    ));
                }
            }
        }
    }
    // AIGP
    {
        let got = find1(attrs, A::AIGP).map(|a| a.binary().cloned().unwrap_or_default());
        match (&e.aigp, got) {
            (Exp::Any, _) | (Exp::Absent, None) | (Exp::Present, Some(_)) => {}
            (Exp::Absent, Some(_)) => out.push((
                if ebgp { "strip" } else { "other-attrs" },
                "AIGP".into(),
                "AIGP must not be sent".into(),
            )),
            (Exp::Present, None) | (Exp::Is(_), None) => {
                out.push(("other-attrs", "AIGP-missing".into(), "AIGP lost".into()))
            }
            (Exp::Is(v), Some(g)) => {
                if &g != v {
                    out.push((
                        "other-attrs",
                        "AIGP-changed".into(),
                        "AIGP value changed".into(),
                    ));
                }
            }
        }
    }
    // COMMUNITY (as a set) incl. LLGR_STALE
    {
        let got: Option<BTreeSet<u32>> = find1(attrs, A::COMMUNITY).map(|a| {
            a.binary()
                .map(|b| bytes_to_u32s(b))
                .unwrap_or_default()
                .into_iter()
                .collect()
        });
        let llgr_needed = s.llgr && cell.src.is_peer();
        if llgr_needed && !got.as_ref().is_some_and(|g| g.contains(&LLGR_STALE)) {
            out.push((
                "llgr",
                "community-missing".into(),
                "route of an LLGR-stale source sent without LLGR_STALE".into(),
            ));
        } else {
            // open question (counted by the caller): a received LLGR_STALE tag removed by
            // the export policy -- compare the other communities only
            let strip = |mut g: BTreeSet<u32>| {
                if e.llgr_tag_open {
                    g.remove(&LLGR_STALE);
                }
                g
            };
            let got = got
                .map(strip)
                .filter(|g| !(e.llgr_tag_open && g.is_empty()));
            let want = match &e.communities {
                Exp::Is(v) => {
                    let v = strip(v.clone());
                    if v.is_empty() {
                        Exp::Absent
                    } else {
                        Exp::Is(v)
                    }
                }
                o => o.clone(),
            };
            match (&want, got) {
                (Exp::Any, _) | (Exp::Absent, None) | (Exp::Present, Some(_)) => {}
                (Exp::Absent, Some(g)) => {
                    if !g.is_empty() {
                        out.push((
                            "other-attrs",
                            "COMMUNITY-gained".into(),
                            format!("communities {:x?} added", g),
                        ));
                    }
                }
                (Exp::Present, None) | (Exp::Is(_), None) => out.push((
                    "other-attrs",
                    "COMMUNITY-missing".into(),
                    "COMMUNITY lost".into(),
                )),
                (Exp::Is(v), Some(g)) => {
                    if &g != v {
                        out.push((
                            "other-attrs",
                            "COMMUNITY-changed".into(),
                            format!("communities {:x?}, expected {:x?}", g, v),
                        ));
                    }
                }
            }
        }
    }
    // unknown attributes
    {
        let t = find1(attrs, OPQ_T_CODE);
        match (e.opaque_t, t) {
            (true, None) => out.push((
                "opaque",
                "transitive-dropped".into(),
                "unknown optional transitive attribute was not forwarded".into(),
            )),
            (true, Some(a)) => {
                if a.flags() & A::FLAG_PARTIAL == 0 {
                    out.push(("opaque", "partial-not-set".into(), format!("unknown optional transitive attribute forwarded with flags {:#04x} (Partial clear)", a.flags())));
                }
                if a.binary().map(|b| b.as_slice()) != Some(&OPQ_T_DATA[..]) {
                    out.push((
                        "opaque",
                        "data-changed".into(),
                        "unknown transitive attribute value changed".into(),
                    ));
                }
            }
            (false, Some(_)) => out.push((
                "other-attrs",
                format!("gained-{}", code_name(OPQ_T_CODE)),
                "attribute appeared from nowhere".into(),
            )),
            (false, None) => {}
        }
        if find1(attrs, OPQ_NT_CODE).is_some() {
            out.push((
                "opaque",
                "non-transitive-forwarded".into(),
                "unknown optional non-transitive attribute was forwarded".into(),
            ));
        }
    }
    // attributes added by export-policy actions survive the per-role rewrite
    for (exp, code) in [
        (&e.ext_community, A::EXTENDED_COMMUNITY),
        (&e.large_community, A::LARGE_COMMUNITY),
    ] {
        let got = find1(attrs, code).map(|a| a.binary().cloned().unwrap_or_default());
        match (exp, got) {
            (Exp::Is(v), Some(g)) if &g == v => {}
            (Exp::Is(_), g) => out.push((
                "other-attrs",
                format!("policy-{}-lost", code_name(code)),
                format!(
                    "{} set by the export policy is {} in the advertisement",
                    code_name(code),
                    if g.is_some() { "different" } else { "missing" }
                ),
            )),
            (Exp::Absent, Some(_)) => out.push((
                "other-attrs",
                format!("gained-{}", code_name(code)),
                format!(
                    "unexpected attribute {} in the advertisement",
                    code_name(code)
                ),
            )),
            _ => {}
        }
    }
    // nothing else may appear
    for c in seen.keys() {
        let known = matches!(
            *c,
            A::ORIGIN
                | A::AS_PATH
                | A::MULTI_EXIT_DESC
                | A::LOCAL_PREF
                | A::COMMUNITY
                | A::ORIGINATOR_ID
                | A::CLUSTER_LIST
                | A::AIGP
                | A::EXTENDED_COMMUNITY
                | A::LARGE_COMMUNITY
                | OPQ_T_CODE
                | OPQ_NT_CODE
        );
        if !known {
            out.push((
                "other-attrs",
                format!("gained-{}", code_name(*c)),
                format!(
                    "unexpected attribute {} in the advertisement",
                    code_name(*c)
                ),
            ));
        }
    }
    // next hop
    match &e.nexthop {
        ExpNh::Any => {}
        ExpNh::Addr(a) => {
            if nh.map(|n| n.addr()) != Some(*a) {
                if e.nh_by_policy {
                    out.push((
                        "policy-nexthop",
                        policy_name(s.policy).into(),
                        format!(
                            "next hop {:?}, export policy {} says {}",
                            nh,
                            policy_name(s.policy),
                            a
                        ),
                    ));
                } else {
                    out.push((
                        "nexthop",
                        if nh.is_none() {
                            "missing".into()
                        } else {
                            "not-self".into()
                        },
                        format!("next hop {:?}, expected self ({})", nh, a),
                    ));
                }
            }
        }
        ExpNh::Same(n) => {
            if nh != Some(*n) {
                let global_ok = nh.map(|x| x.addr()) == Some(n.addr());
                if e.nh_by_policy {
                    out.push((
                        "policy-nexthop",
                        policy_name(s.policy).into(),
                        format!(
                            "next hop {:?}, export policy {} says {:?}",
                            nh,
                            policy_name(s.policy),
                            n
                        ),
                    ));
                } else if e.nh_self {
                    let fact = if nh.is_none() {
                        "missing"
                    } else if !global_ok {
                        "not-self"
                    } else if matches!(n, bgp::Nexthop::V6LinkLocal(..)) {
                        "self-link-local-half-wrong-or-missing"
                    } else {
                        "self-with-foreign-link-local-half"
                    };
                    out.push((
                        "nexthop",
                        fact.into(),
                        format!("next hop {:?}, expected self ({:?})", nh, n),
                    ));
                } else {
                    let fact = if nh.is_none() {
                        "missing"
                    } else if global_ok {
                        "link-local-half-changed"
                    } else {
                        "changed"
                    };
                    out.push((
                        "nexthop",
                        fact.into(),
                        format!(
                            "next hop {:?}, expected the stored next hop {:?} untouched",
                            nh, n
                        ),
                    ));
                }
            }
        }
    }
    out
}

// ------------------------------------------------------------------ one case through process_nlri_change

struct Ctx {
    rep: Report,
    pol: Policies,
}

fn witness(
    cell: &Cell,
    s: &Spec,
    env: &Env,
    input: &[packet::Attribute],
    exp: &Expected,
    observed: Json,
) -> Json {
    Json::obj(vec![
        ("cell", Json::s(format!("{:?}", cell))),
        ("spec", Json::s(format!("{:?}", s))),
        ("family", Json::s(format!("{:?}", env.family))),
        ("local_addr", Json::s(env.local_addr.to_string())),
        ("receiver_addr", Json::s(env.recv_addr.to_string())),
        ("source_addr", Json::s(env.src_addr.to_string())),
        ("ctx_local_asn", Json::Int(env.ctx_local_asn as i128)),
        (
            "confederation_id",
            Json::Int(if cell.confed { CONFED_ID as i128 } else { 0 }),
        ),
        ("cluster_id", Json::s(format!("{:?}", cell.cl.id()))),
        ("stored_nexthop", Json::s(format!("{:?}", env.stored_nh))),
        ("export_policy", Json::s(policy_name(s.policy))),
        (
            "branch",
            Json::s(if s.addpath {
                "add-path (effective_max=4)"
            } else {
                "non-add-path (effective_max=1)"
            }),
        ),
        ("input_attrs", attrs_json(input)),
        (
            "expected",
            Json::s(match exp {
                Expected::Suppress(c) => format!("Suppress({})", c),
                Expected::Either(w, _) => format!("Either({})", w),
                Expected::Send(e) => {
                    let mut t = format!("{:?}", e);
                    if t.len() > 1500 {
                        t.truncate(1500);
                        t.push('…');
                    }
                    t
                }
            }),
        ),
        ("observed", observed),
    ])
}

fn run_case(ctx: &mut Ctx, cell: &Cell, s: &Spec) {
    run_case_with(ctx, cell, s, None)
}

/// `over`: use this (daemon-derived) export context / cluster-id instead of the cell's.
fn run_case_with(
    ctx: &mut Ctx,
    cell: &Cell,
    s: &Spec,
    over: Option<(&PeerExportContext, Option<Ipv4Addr>)>,
) {
    let env = make_env(cell, s);
    let input = build_attrs(s);
    let source = make_source(cell, &env, s.llgr && cell.src.is_peer());
    let subject = table::Path {
        local_path_id: SUBJECT_PID,
        source: Arc::clone(&source),
        nexthop: env.stored_nh,
        attr: Arc::new(input.clone()),
    };
    let mut paths = vec![subject];
    if s.decoy {
        // a second, worse path from another peer of a kind the receiver may hear
        let role = if cell.dst == PeerRole::RsClient {
            PeerRole::RsClient
        } else {
            PeerRole::Ebgp
        };
        let dsrc = Arc::new(table::Source::new(
            env.decoy_addr,
            env.local_addr,
            65009,
            LOCAL_AS,
            Ipv4Addr::new(10, 0, 0, 9),
            role,
        ));
        paths.push(table::Path {
            local_path_id: DECOY_PID,
            source: dsrc,
            nexthop: env
                .stored_nh
                .or(Some(bgp::Nexthop::V4(Ipv4Addr::new(192, 0, 2, 99)))),
            attr: Arc::new(vec![
                packet::Attribute::new_with_value(packet::Attribute::ORIGIN, 2).unwrap(),
                as_path_attr(&[(SEG_SEQ, vec![65009, 64700, 64701, 64702])]),
            ]),
        });
    }
    let update = table::NlriChange {
        family: env.family,
        net: env.net.clone(),
        dest_id: 1,
        best_changed: true,
        any_changed: true,
        replaced_path_id: None,
        current_paths: Arc::new(paths),
    };
    let own_ctx = PeerExportContext {
        role: cell.dst,
        local_asn: env.ctx_local_asn,
        local_addr: env.local_addr,
        link_addr: env.link_addr,
        confederation_id: if cell.confed { CONFED_ID } else { 0 },
    };
    let derived_ctx = over.map(|(c, _)| PeerExportContext {
        role: c.role,
        local_asn: c.local_asn,
        local_addr: env.local_addr,
        link_addr: env.link_addr,
        confederation_id: c.confederation_id,
    });
    let export_ctx = derived_ctx.as_ref().unwrap_or(&own_ctx);
    let cluster_arg = match over {
        Some((_, c)) => c,
        None => cell.cl.id(),
    };
    let policy = if is_v6_session(s.nh) {
        ctx.pol.v6[s.policy as usize].clone()
    } else {
        ctx.pol.v4[s.policy as usize].clone()
    };
    let exp = expected_export(cell, s, &env);

    ctx.rep.eval();
    ctx.rep.count(if s.addpath {
        "branch:add-path"
    } else {
        "branch:non-add-path"
    });
    ctx.rep.count(&format!("nh-kind:{}", nh_kind_name(s.nh)));
    if env.link_addr.is_some() {
        ctx.rep.count("receiver-with-link-addr");
    }
    let mut rec = Rec::default();
    let res = guard(|| {
        let mut em = if s.addpath {
            ExportMap::new([env.family])
        } else {
            ExportMap::default()
        };
        process_nlri_change(
            &update,
            if s.addpath { 4 } else { 1 },
            env.recv_addr,
            &mut em,
            &mut rec,
            export_ctx,
            policy.as_deref(),
            cluster_arg,
            None,
            None,
            None,
        );
    });
    if let Err(p) = res {
        let sig = format!("C09/panic/{}:{}", p.location, panic_class(&p.message));
        let w = witness(
            cell,
            s,
            &env,
            &input,
            &exp,
            Json::s(format!("panic: {}", p.message)),
        );
        ctx.rep.violation(
            &sig,
            &format!(
                "process_nlri_change panicked at {}: {}",
                p.location, p.message
            ),
            w,
        );
        return;
    }
    let want_pid = if s.addpath { SUBJECT_PID } else { 0 };
    let got = rec
        .reach
        .iter()
        .find(|r| r.1 == want_pid && Arc::ptr_eq(&r.4, &source))
        .map(|r| (r.2, Arc::clone(&r.3)));
    let observed_json = match &got {
        None => Json::s("nothing sent for the subject path"),
        Some((nh, a)) => Json::obj(vec![
            ("nexthop", Json::s(format!("{:?}", nh))),
            ("attrs", attrs_json(a)),
        ]),
    };
    let pair = cell.pair();
    let mut nontrivial = false;
    match (&exp, &got) {
        (Expected::Suppress(clause), None) => {
            ctx.rep.count(&format!("clause:suppress:{}", clause));
            nontrivial = true;
        }
        (Expected::Suppress(clause), Some(_)) => {
            ctx.rep.count(&format!("clause:suppress:{}", clause));
            nontrivial = true;
            let sig = format!("C09/{}/{}/sent", clause, pair);
            let what = format!(
                "route from a {} source was advertised to a {} receiver although the {} rule forbids it",
                cell.src.name(),
                role_name(cell.dst),
                clause
            );
            let w = witness(cell, s, &env, &input, &exp, observed_json.clone());
            ctx.rep.violation(&sig, &what, w);
        }
        (Expected::Either(why, _), None) => {
            ctx.rep.count(&format!("unjudged:{}", why));
        }
        (Expected::Send(_), None) => {
            ctx.rep.count("clause:send");
            nontrivial = true;
            let sig = format!("C09/unexpected-suppress/{}/not-sent", pair);
            let what = format!(
                "route from a {} source is not advertised to a {} receiver although none of the echo / split-horizon / route-server rules applies",
                cell.src.name(),
                role_name(cell.dst)
            );
            let w = witness(cell, s, &env, &input, &exp, observed_json.clone());
            ctx.rep.violation(&sig, &what, w);
        }
        (Expected::Either(_, e), Some((nh, a))) | (Expected::Send(e), Some((nh, a))) => {
            if let Expected::Either(why, _) = &exp {
                ctx.rep.count(&format!("unjudged:{}", why));
            } else {
                ctx.rep.count("clause:send");
            }
            for u in &e.unjudged {
                ctx.rep.count(&format!("unjudged:{}", u));
            }
            if e.reflected {
                ctx.rep.count("clause:reflect");
            }
            if e.nh_by_policy {
                ctx.rep.count("clause:policy-nexthop");
            }
            if e.nh_self {
                ctx.rep.count("clause:nexthop-self");
                match e.nexthop {
                    ExpNh::Same(bgp::Nexthop::V6LinkLocal(..)) => {
                        ctx.rep.count("clause:nexthop-self-global+link-local")
                    }
                    ExpNh::Same(bgp::Nexthop::V6(_)) => {
                        ctx.rep.count("clause:nexthop-self-v6-global-only")
                    }
                    _ => {}
                }
                if matches!(env.stored_nh, Some(bgp::Nexthop::V6LinkLocal(..))) {
                    ctx.rep.count("clause:nexthop-self-over-stored-link-local");
                }
            }
            if matches!(e.nexthop, ExpNh::Same(_)) && !e.nh_by_policy && !e.nh_self {
                ctx.rep.count("clause:nexthop-untouched");
                if matches!(e.nexthop, ExpNh::Same(bgp::Nexthop::V6LinkLocal(..))) {
                    ctx.rep.count("clause:nexthop-untouched-link-local");
                }
            }
            if e.nh_by_policy && matches!(e.nexthop, ExpNh::Same(bgp::Nexthop::V6LinkLocal(..))) {
                ctx.rep.count("clause:policy-unchanged-link-local");
            }
            if matches!(s.nh, 4 | 5) {
                ctx.rep.count("clause:extended-nexthop-v4-family");
            }
            if s.llgr && cell.src.is_peer() {
                ctx.rep.count("clause:llgr");
                if matches!(s.policy, 7..=10 | 15) {
                    ctx.rep.count("clause:llgr-under-community-policy");
                }
                if matches!(s.policy, 8 | 9 | 10) {
                    ctx.rep
                        .count("clause:llgr-under-community-replace-or-remove");
                }
                if s.comm == 2 {
                    ctx.rep.count("clause:llgr-source-stale-and-tag-received");
                }
            }
            if s.policy >= 7 {
                ctx.rep.count(&format!("policy:{}", policy_name(s.policy)));
                ctx.rep.count("clause:rewrite-on-top-of-attribute-policy");
            }
            if e.llgr_tag_open {
                let kept = find1(a, packet::Attribute::COMMUNITY)
                    .and_then(|x| x.binary())
                    .is_some_and(|b| bytes_to_u32s(b).contains(&LLGR_STALE));
                ctx.rep.count(if kept {
                    "open:received-llgr-stale-tag-kept-despite-policy"
                } else {
                    "open:received-llgr-stale-tag-removed-by-export-policy"
                });
            }
            if s.opq_t != 0 || s.opq_nt != 0 {
                ctx.rep.count("clause:opaque");
            }
            if shape_has_full(s.path) && matches!(cell.dst, PeerRole::Ebgp | PeerRole::ConfedEbgp) {
                ctx.rep.count("clause:prepend-to-full255");
            }
            if shape_has_confed(s.path) && cell.dst == PeerRole::Ebgp {
                ctx.rep.count("clause:strip-confed");
            }
            ctx.rep.count(&format!("rewrite:{}", role_name(cell.dst)));
            nontrivial = true;
            let findings = judge(cell, s, e, *nh, a);
            for (clause, fact, text) in findings {
                let sig = format!("C09/{}/{}/{}", clause, pair, fact);
                let what = format!("{} -> {}: {}", cell.src.name(), role_name(cell.dst), text);
                let w = witness(cell, s, &env, &input, &exp, observed_json.clone());
                ctx.rep.violation(&sig, &what, w);
            }
        }
    }
    if nontrivial {
        ctx.rep
            .nontrivial(fnv64(format!("{:?}|{:?}", cell, s).as_bytes()));
    }
    if ctx.rep.want_sample() && ctx.rep.evaluations % 1013 == 7 {
        let w = witness(cell, s, &env, &input, &exp, observed_json);
        ctx.rep.sample(w);
    }
}

// ------------------------------------------------------------------ matrix enumeration

fn base_spec() -> Spec {
    Spec {
        origin: Some(0),
        path: 2,
        nh: 0,
        nh_g: 0,
        nh_ll: 0,
        med: None,
        lp: None,
        originator: None,
        cluster: vec![],
        aigp: false,
        comm: 0,
        opq_t: 0,
        opq_nt: 0,
        llgr: false,
        policy: 0,
        addpath: false,
        decoy: false,
        ctx_asn_confed: true,
        link_local: false,
        reversed: false,
        nh_unspec: false,
    }
}

fn full_spec() -> Spec {
    Spec {
        origin: Some(1),
        path: 5,
        nh: 0,
        nh_g: 0,
        nh_ll: 0,
        med: Some(50),
        lp: Some(200),
        originator: Some(u32::from(Ipv4Addr::new(10, 9, 9, 9))),
        cluster: vec![
            u32::from(Ipv4Addr::new(8, 8, 8, 8)),
            u32::from(Ipv4Addr::new(7, 7, 7, 7)),
        ],
        aigp: true,
        comm: 1,
        opq_t: 1,
        opq_nt: 1,
        llgr: true,
        policy: 0,
        addpath: false,
        decoy: true,
        ctx_asn_confed: false,
        link_local: true,
        reversed: false,
        nh_unspec: false,
    }
}

/// Deterministic covering set: every single dimension varied on its own, from an
/// all-off and an all-on base, in both branches.
fn covering_specs() -> Vec<Spec> {
    let mut v = Vec::new();
    for base in [base_spec(), full_spec()] {
        let mut variants: Vec<Spec> = vec![base.clone()];
        for p in 0..N_SHAPES {
            let mut s = base.clone();
            s.path = p;
            variants.push(s);
        }
        for nh in 0..N_NH_KINDS {
            for ll in [false, true] {
                for (g, l) in [(0u8, 0u8), (1, 0), (0, 1)] {
                    if (g, l) != (0, 0) && !matches!(nh, 3 | 5) {
                        continue;
                    }
                    for unspec in [false, true] {
                        let mut s = base.clone();
                        s.nh = nh;
                        s.link_local = ll;
                        s.nh_g = g;
                        s.nh_ll = l;
                        s.nh_unspec = unspec;
                        variants.push(s);
                    }
                }
            }
        }
        for pol in 1..7u8 {
            for nh in 0..N_NH_KINDS {
                let mut s = base.clone();
                s.policy = pol;
                s.nh = nh;
                variants.push(s);
            }
        }
        // attribute-rewriting export policies x LLGR-stale source x received communities
        // (none / plain / already carrying LLGR_STALE)
        for pol in 7..N_POLICIES {
            for llgr in [false, true] {
                for comm in 0..3u8 {
                    let mut s = base.clone();
                    s.policy = pol;
                    s.llgr = llgr;
                    s.comm = comm;
                    variants.push(s);
                }
            }
        }
        let toggles: Vec<Box<dyn Fn(&mut Spec)>> = vec![
            Box::new(|s| s.origin = if s.origin.is_some() { None } else { Some(2) }),
            Box::new(|s| s.med = if s.med.is_some() { None } else { Some(50) }),
            Box::new(|s| s.lp = if s.lp.is_some() { None } else { Some(200) }),
            Box::new(|s| {
                s.originator = if s.originator.is_some() {
                    None
                } else {
                    Some(u32::from(Ipv4Addr::new(10, 9, 9, 9)))
                }
            }),
            Box::new(|s| {
                s.cluster = if s.cluster.is_empty() {
                    vec![u32::from(Ipv4Addr::new(8, 8, 8, 8))]
                } else {
                    vec![]
                }
            }),
            Box::new(|s| s.aigp = !s.aigp),
            Box::new(|s| s.comm = (s.comm + 1) % 3),
            Box::new(|s| s.comm = (s.comm + 2) % 3),
            Box::new(|s| s.opq_t = (s.opq_t + 1) % 4),
            Box::new(|s| s.opq_t = (s.opq_t + 2) % 4),
            Box::new(|s| s.opq_t = (s.opq_t + 3) % 4),
            Box::new(|s| s.opq_nt = (s.opq_nt + 1) % 3),
            Box::new(|s| s.opq_nt = (s.opq_nt + 2) % 3),
            Box::new(|s| s.llgr = !s.llgr),
            Box::new(|s| s.decoy = !s.decoy),
            Box::new(|s| s.ctx_asn_confed = !s.ctx_asn_confed),
            Box::new(|s| s.reversed = !s.reversed),
            Box::new(|s| s.nh_unspec = !s.nh_unspec),
        ];
        for t in &toggles {
            let mut s = base.clone();
            t(&mut s);
            variants.push(s);
        }
        for s in variants {
            for ap in [false, true] {
                let mut x = s.clone();
                x.addpath = ap;
                v.push(x);
            }
        }
    }
    v
}

fn random_spec(rng: &mut Rng) -> Spec {
    let nh = *rng.pick(&[0u8, 0, 1, 2, 3, 3, 4, 5, 5, 6]);
    Spec {
        origin: if rng.chance(9, 10) {
            Some(rng.below(3) as u8)
        } else {
            None
        },
        path: rng.below(N_SHAPES as u64) as u8,
        nh,
        nh_g: rng.below(3) as u8,
        nh_ll: rng.below(2) as u8,
        med: if rng.bool() {
            Some(rng.below(1000) as u32)
        } else {
            None
        },
        lp: if rng.bool() {
            Some(*rng.pick(&[0u32, 50, 100, 200, u32::MAX]))
        } else {
            None
        },
        originator: if rng.chance(1, 3) {
            Some(u32::from(Ipv4Addr::new(10, 9, 9, rng.range(1, 200) as u8)))
        } else {
            None
        },
        cluster: match rng.below(4) {
            0 => vec![u32::from(Ipv4Addr::new(8, 8, 8, 8))],
            1 => vec![
                u32::from(Ipv4Addr::new(8, 8, 8, 8)),
                u32::from(Ipv4Addr::new(7, 7, 7, 7)),
            ],
            _ => vec![],
        },
        aigp: rng.chance(1, 3),
        comm: rng.below(3) as u8,
        opq_t: if rng.bool() { rng.range(1, 3) as u8 } else { 0 },
        opq_nt: if rng.chance(1, 3) {
            rng.range(1, 2) as u8
        } else {
            0
        },
        llgr: rng.chance(1, 3),
        policy: if rng.bool() {
            0
        } else {
            rng.range(1, (N_POLICIES - 1) as u64) as u8
        },
        addpath: rng.bool(),
        decoy: rng.chance(1, 3),
        ctx_asn_confed: rng.bool(),
        link_local: rng.bool(),
        reversed: rng.chance(1, 4),
        nh_unspec: rng.chance(1, 5),
    }
}

fn run_matrix(ctx: &mut Ctx, rng: &mut Rng, shard: u64, nshards: u64, random_per_cell: u64) {
    let cells = all_cells();
    let covering = covering_specs();
    ctx.rep.count_n("matrix:cells-total", cells.len() as u64);
    ctx.rep
        .count_n("matrix:covering-specs", covering.len() as u64);
    let mut complete = true;
    for (i, cell) in cells.iter().enumerate() {
        if (i as u64) % nshards != shard % nshards {
            continue;
        }
        if !ctx.rep.in_budget() {
            complete = false;
            break;
        }
        ctx.rep.count("matrix:cells-run");
        for (k, s) in covering.iter().enumerate() {
            // echo cells expect Suppress whatever the vector: a quarter of the set is plenty
            if cell.echo && k % 4 != (i % 4) {
                continue;
            }
            run_case(ctx, cell, s);
        }
        for _ in 0..random_per_cell {
            let s = random_spec(rng);
            run_case(ctx, cell, &s);
        }
    }
    if !complete {
        ctx.rep
            .inconclusive("matrix: time budget used up before every cell of this shard was run");
    }
}

// ------------------------------------------------------------------ LLGR stale transition (history through the real TableManager)

fn drain_changes(rx: &mut mpsc::UnboundedReceiver<ToPeerEvent>) -> Vec<Arc<table::NlriChange>> {
    let mut v = Vec::new();
    while let Ok(ev) = rx.try_recv() {
        if let ToPeerEvent::NlriChange(c) = ev {
            v.push(c);
        }
    }
    v
}

/// What the receiver holds: path_id -> (attrs, source).
type View = BTreeMap<u32, (Arc<Vec<packet::Attribute>>, Arc<table::Source>)>;

fn apply_rec(view: &mut View, rec: Rec, log: &mut Vec<String>) {
    // process_nlri_change emits withdrawals before advertisements of one change
    for (_, pid) in rec.unreach {
        log.push(format!("unreach path_id={}", pid));
        view.remove(&pid);
    }
    for (_, pid, _nh, attrs, src) in rec.reach {
        let stale = find1(&attrs, packet::Attribute::COMMUNITY)
            .and_then(|a| a.binary())
            .is_some_and(|b| bytes_to_u32s(b).contains(&LLGR_STALE));
        log.push(format!(
            "reach path_id={} from {} llgr_stale_community={}",
            pid, src.remote_addr, stale
        ));
        view.insert(pid, (attrs, src));
    }
}

fn run_llgr_history(ctx: &mut Ctx) {
    let family = Family::IPV4;
    let combos: [(Src, PeerRole); 7] = [
        (Src::Ebgp, PeerRole::Ebgp),
        (Src::Ebgp, PeerRole::Ibgp),
        (Src::Ebgp, PeerRole::IbgpRrClient),
        (Src::Ebgp, PeerRole::ConfedEbgp),
        (Src::RsClient, PeerRole::RsClient),
        (Src::IbgpRrClient, PeerRole::Ibgp),
        (Src::Ibgp, PeerRole::Ebgp),
    ];
    for (srck, dst) in combos {
        for addpath in [false, true] {
            // second path: 0 = none, 1 = a worse path from another peer, 2 = a better one
            // x export policy of the receiver: none / community replace / remove / replace-with-nothing
            for combo in 0..12u8 {
                let other = combo % 3;
                let hpol = [0u8, 8, 9, 10][(combo / 3) as usize];
                let hpolicy = ctx.pol.v4[hpol as usize].clone();
                ctx.rep.eval();
                ctx.rep.count("llgr-history:cases");
                if hpol != 0 {
                    ctx.rep.count("llgr-history:cases-with-community-policy");
                }
                let recv: IpAddr = "10.0.0.3".parse().unwrap();
                let local: IpAddr = "10.0.0.1".parse().unwrap();
                let src_addr: IpAddr = "10.0.0.2".parse().unwrap();
                let src = Arc::new(table::Source::new(
                    src_addr,
                    local,
                    srck.remote_asn(),
                    LOCAL_AS,
                    SRC_RID,
                    srck.role().unwrap(),
                ));
                let orole = if dst == PeerRole::RsClient {
                    PeerRole::RsClient
                } else {
                    PeerRole::Ebgp
                };
                let osrc = Arc::new(table::Source::new(
                    "10.0.0.9".parse().unwrap(),
                    local,
                    65009,
                    LOCAL_AS,
                    Ipv4Addr::new(10, 0, 0, 9),
                    orole,
                ));
                let export_ctx = PeerExportContext {
                    role: dst,
                    local_asn: LOCAL_AS,
                    local_addr: local,
                    link_addr: None,
                    confederation_id: 0,
                };
                // the daemon gives every iBGP session a cluster-id (router-id by default), others none
                let cluster_id = if is_ibgp_role(dst) {
                    Some(LOCAL_RID)
                } else {
                    None
                };
                let mut log: Vec<String> = Vec::new();
                let mut view: View = View::new();
                let res = guard(|| {
                    let tables = TableManager::new(1);
                    let mut ap = FnvHashSet::default();
                    if addpath {
                        ap.insert(family);
                    }
                    let mut rx = tables.register_peer(recv, ap, |_| {});
                    let mut em = if addpath {
                        ExportMap::new([family])
                    } else {
                        ExportMap::default()
                    };
                    let net: packet::Nlri = "10.1.0.0/16".parse().unwrap();
                    let mk = |first: u32, extra: usize| {
                        let mut asns = vec![first];
                        for i in 0..extra {
                            asns.push(64700 + i as u32);
                        }
                        let mut v = vec![
                            packet::Attribute::new_with_value(packet::Attribute::ORIGIN, 0)
                                .unwrap(),
                        ];
                        if first != 0 {
                            v.push(as_path_attr(&[(SEG_SEQ, asns)]));
                        } else {
                            v.push(packet::Attribute::empty_as_path());
                        }
                        v.push(
                            packet::Attribute::new_with_value(packet::Attribute::LOCAL_PREF, 100)
                                .unwrap(),
                        );
                        v.push(
                            packet::Attribute::new_with_bin(
                                packet::Attribute::COMMUNITY,
                                u32s_to_bytes(&[COMM_A, COMM_B]),
                            )
                            .unwrap(),
                        );
                        Arc::new(v)
                    };
                    let first_as = if srck.is_ibgp() {
                        64999
                    } else {
                        srck.remote_asn()
                    };
                    let mut step = |what: String,
                                    em: &mut ExportMap,
                                    view: &mut View,
                                    log: &mut Vec<String>| {
                        log.push(what);
                        for ch in drain_changes(&mut rx) {
                            log.push(format!(
                                "  change best_changed={} any_changed={} replaced={:?} paths={}",
                                ch.best_changed,
                                ch.any_changed,
                                ch.replaced_path_id,
                                ch.current_paths.len()
                            ));
                            let mut rec = Rec::default();
                            process_nlri_change(
                                &ch,
                                if addpath { 4 } else { 1 },
                                recv,
                                em,
                                &mut rec,
                                &export_ctx,
                                hpolicy.as_deref(),
                                cluster_id,
                                None,
                                None,
                                None,
                            );
                            apply_rec(view, rec, log);
                        }
                    };
                    tables.insert_route(
                        src.clone(),
                        family,
                        packet::PathNlri::new(net.clone()),
                        Some(bgp::Nexthop::V4(Ipv4Addr::new(192, 0, 2, 55))),
                        mk(first_as, 2),
                        None,
                        0,
                    );
                    step(
                        format!("insert route from {} ({})", src_addr, srck.name()),
                        &mut em,
                        &mut view,
                        &mut log,
                    );
                    if other != 0 {
                        let extra = if other == 1 { 5 } else { 0 };
                        tables.insert_route(
                            osrc.clone(),
                            family,
                            packet::PathNlri::new(net.clone()),
                            Some(bgp::Nexthop::V4(Ipv4Addr::new(192, 0, 2, 99))),
                            mk(65009, extra),
                            None,
                            0,
                        );
                        step(
                            format!(
                                "insert {} route from 10.0.0.9",
                                if other == 1 { "worse" } else { "better" }
                            ),
                            &mut em,
                            &mut view,
                            &mut log,
                        );
                    }
                    tables.mark_llgr_stale(src_addr, &[family]);
                    step(
                        format!("mark_llgr_stale({})", src_addr),
                        &mut em,
                        &mut view,
                        &mut log,
                    );
                });
                if let Err(p) = res {
                    let sig = format!("C09/panic/{}:{}", p.location, panic_class(&p.message));
                    ctx.rep.violation(
                        &sig,
                        &format!("LLGR history panicked at {}: {}", p.location, p.message),
                        Json::obj(vec![("log", Json::strs(log.clone()))]),
                    );
                    continue;
                }
                // judged at quiescence: every advertisement the receiver holds for a route
                // whose source is LLGR-stale must carry LLGR_STALE
                let mut held_stale = false;
                for (pid, (attrs, s)) in &view {
                    if !s.is_llgr_stale() {
                        continue;
                    }
                    held_stale = true;
                    let has = find1(attrs, packet::Attribute::COMMUNITY)
                        .and_then(|a| a.binary())
                        .is_some_and(|b| bytes_to_u32s(b).contains(&LLGR_STALE));
                    if has {
                        ctx.rep.count("llgr-history:held-with-llgr-stale");
                    } else {
                        // the behaviour does not depend on the roles: one signature per branch
                        ctx.rep.count(&format!(
                            "llgr-history:not-readvertised:{}-to-{}",
                            srck.name(),
                            role_name(dst)
                        ));
                        let sig = format!(
                            "C09/llgr/peer-to-any/stale-transition-{}{}",
                            if hpol != 0 {
                                "under-community-policy-"
                            } else {
                                ""
                            },
                            if addpath { "addpath" } else { "plain" }
                        );
                        let what = format!(
                            "after mark_llgr_stale the {} receiver still holds the advertisement of the now LLGR-stale {} route without LLGR_STALE (it is never re-advertised)",
                            role_name(dst),
                            srck.name()
                        );
                        ctx.rep.violation(
                            &sig,
                            &what,
                            Json::obj(vec![
                                ("source", Json::s(srck.name())),
                                ("receiver_role", Json::s(role_name(dst))),
                                (
                                    "branch",
                                    Json::s(if addpath { "add-path" } else { "non-add-path" }),
                                ),
                                ("export_policy", Json::s(policy_name(hpol))),
                                (
                                    "other_path",
                                    Json::s(match other {
                                        0 => "none",
                                        1 => "worse path from another peer",
                                        _ => "better path from another peer",
                                    }),
                                ),
                                ("path_id", Json::Int(*pid as i128)),
                                ("held_attrs", attrs_json(attrs)),
                                ("history", Json::strs(log.clone())),
                            ]),
                        );
                    }
                }
                if held_stale {
                    ctx.rep.count("llgr-history:receiver-holds-stale-route");
                    ctx.rep.nontrivial(fnv64(
                        format!("llgr|{:?}|{:?}|{}|{}|{}", srck, dst, addpath, other, hpol)
                            .as_bytes(),
                    ));
                }
            }
        }
    }
}

// ------------------------------------------------------------------ inbound: AS loop predicate

fn seg_name(t: u8) -> &'static str {
    match t {
        SEG_SET => "AS_SET",
        SEG_SEQ => "AS_SEQUENCE",
        SEG_CSEQ => "AS_CONFED_SEQUENCE",
        _ => "AS_CONFED_SET",
    }
}

fn run_as_loop(ctx: &mut Ctx) {
    // (local_asn, confederation_id)
    for (local_asn, confed) in [
        (LOCAL_AS, 0u32),
        (LOCAL_AS, CONFED_ID),
        (LOCAL_AS, LOCAL_AS),
        (4_200_000_001u32, CONFED_ID),
    ] {
        for seg in [SEG_SET, SEG_SEQ, SEG_CSEQ, SEG_CSET] {
            // target: 0 = neither, 1 = local AS, 2 = confederation id
            for target in 0..3u8 {
                // layout: 0 first of 3, 1 middle, 2 last, 3 in a second segment, 4 last of a full 255 segment, 5 only element
                for layout in 0..6u8 {
                    // target 2 = the configured confederation id (65100 as a plain foreign
                    // AS when no confederation is configured)
                    let t_asn = match target {
                        0 => 64999,
                        1 => local_asn,
                        _ => {
                            if confed != 0 {
                                confed
                            } else {
                                CONFED_ID
                            }
                        }
                    };
                    let segs: Vec<(u8, Vec<u32>)> = match layout {
                        0 => vec![(seg, vec![t_asn, 64601, 64602])],
                        1 => vec![(seg, vec![64600, t_asn, 64602])],
                        2 => vec![(seg, vec![64600, 64601, t_asn])],
                        3 => vec![(SEG_SEQ, vec![64600, 64601]), (seg, vec![64602, t_asn])],
                        4 => {
                            let mut f = full255(70000);
                            f[254] = t_asn;
                            vec![(seg, f), (SEG_SEQ, vec![64600])]
                        }
                        _ => vec![(seg, vec![t_asn])],
                    };
                    let attrs = Arc::new(vec![
                        packet::Attribute::new_with_value(packet::Attribute::ORIGIN, 0).unwrap(),
                        as_path_attr(&segs),
                    ]);
                    ctx.rep.eval();
                    ctx.rep.count("as-loop:cases");
                    let want = target == 1 || (target == 2 && confed != 0);
                    // with confed == 0 a path holding 65100 is just a foreign AS
                    let got = match guard(|| is_as_loop(&attrs, local_asn, confed)) {
                        Ok(g) => g,
                        Err(p) => {
                            let sig =
                                format!("C09/panic/{}:{}", p.location, panic_class(&p.message));
                            ctx.rep.violation(
                                &sig,
                                &format!("is_as_loop panicked: {}", p.message),
                                Json::obj(vec![("attrs", attrs_json(&attrs))]),
                            );
                            continue;
                        }
                    };
                    if want {
                        ctx.rep.count("as-loop:looping");
                        ctx.rep.nontrivial(fnv64(
                            format!(
                                "asloop|{}|{}|{}|{}|{}",
                                local_asn, confed, seg, target, layout
                            )
                            .as_bytes(),
                        ));
                    }
                    if got != want {
                        let fact = match (want, target) {
                            (true, 1) => "local-as-not-detected",
                            (true, _) => "confederation-id-not-detected",
                            _ => "false-positive",
                        };
                        let sig = format!("C09/as-loop/{}/{}", seg_name(seg), fact);
                        ctx.rep.violation(&sig, &format!("is_as_loop returned {} for a path that {} the local AS / confederation id", got, if want { "contains" } else { "does not contain" }), Json::obj(vec![
                            ("local_asn", Json::Int(local_asn as i128)),
                            ("confederation_id", Json::Int(confed as i128)),
                            ("segments", Json::s(format!("{:?}", segs.iter().map(|(t, a)| (seg_name(*t), if a.len() > 8 { vec![a[0], a[a.len() - 1]] } else { a.clone() })).collect::<Vec<_>>()))),
                            ("layout", Json::Int(layout as i128)),
                            ("observed", Json::Bool(got)),
                            ("expected", Json::Bool(want)),
                        ]));
                    }
                }
            }
        }
    }
    // no AS_PATH at all: nothing to loop
    ctx.rep.eval();
    let attrs = Arc::new(vec![
        packet::Attribute::new_with_value(packet::Attribute::ORIGIN, 0).unwrap(),
    ]);
    if let Ok(true) = guard(|| is_as_loop(&attrs, LOCAL_AS, CONFED_ID)) {
        ctx.rep.violation(
            "C09/as-loop/no-as-path/false-positive",
            "is_as_loop true without AS_PATH",
            Json::Null,
        );
    }
}

// ------------------------------------------------------------------ inbound: rx_update ORIGINATOR_ID / CLUSTER_LIST

fn test_peer_context() -> Arc<std::sync::Mutex<PeerContext>> {
    let fsm = crate::fsm::PeerFsm::new(
        u32::from(LOCAL_RID),
        LOCAL_AS,
        vec![],
        90,
        0,
        FnvHashMap::default(),
    );
    let conn_arbiter = Arc::new(std::sync::Mutex::new(ConnArbiter::new(fsm)));
    Arc::new(std::sync::Mutex::new(PeerContext {
        conn_arbiter,
        active_connect_cancel_tx: None,
        active_connect_join_handle: None,
        gr_state: crate::gr::GrState::new(),
        gr_restart_timer: None,
        llgr_family_timers: FnvHashMap::default(),
        rtc_state: crate::rtc::RtcState::new(),
        rtc_eor_timer: None,
    }))
}

async fn run_rx_update(ctx: &mut Ctx) {
    let other1 = Ipv4Addr::new(2, 0, 0, 2);
    let other2 = Ipv4Addr::new(3, 0, 0, 3);
    let remote: IpAddr = "10.0.0.2".parse().unwrap();
    for role in DSTS {
        // (router-id, cluster-id as the daemon would set it for this session)
        let configs: Vec<(Ipv4Addr, Option<Ipv4Addr>, &'static str)> = if is_ibgp_role(role) {
            vec![
                (LOCAL_RID, Some(LOCAL_RID), "default"),
                (LOCAL_RID, Some(EXPLICIT_CID), "explicit"),
                (
                    Ipv4Addr::new(200, 1, 2, 3),
                    Some(Ipv4Addr::new(200, 1, 2, 3)),
                    "default",
                ),
            ]
        } else {
            vec![(LOCAL_RID, None, "none")]
        };
        for (rid, cid, clname) in configs {
            // ORIGINATOR_ID: 0 none, 1 = router-id, 2 other, 3 = cluster-id (explicit only; not a loop)
            for orig in 0..4u8 {
                // CLUSTER_LIST: 0 none, 1 [other], 2 [cid], 3 [other,cid,other2], 4 [other,other2], 5 [other, cid] (last), 6 [rid] when cid != rid
                for cl in 0..7u8 {
                    let originator = match orig {
                        0 => None,
                        1 => Some(rid),
                        2 => Some(other1),
                        _ => match cid {
                            Some(c) if c != rid => Some(c),
                            _ => continue,
                        },
                    };
                    let list: Option<Vec<Ipv4Addr>> = match (cl, cid) {
                        (0, _) => None,
                        (1, _) => Some(vec![other1]),
                        (4, _) => Some(vec![other1, other2]),
                        (2, Some(c)) => Some(vec![c]),
                        (3, Some(c)) => Some(vec![other1, c, other2]),
                        (5, Some(c)) => Some(vec![other1, c]),
                        (6, Some(c)) if c != rid => Some(vec![rid]),
                        _ => continue,
                    };
                    let orig_loop = originator == Some(rid);
                    let cl_loop = match (cid, &list) {
                        (Some(c), Some(l)) => l.contains(&c),
                        _ => false,
                    };
                    let want_installed = !(orig_loop || cl_loop);
                    let mut attrs = vec![
                        packet::Attribute::new_with_value(packet::Attribute::ORIGIN, 0).unwrap(),
                        as_path_attr(&[(SEG_SEQ, vec![64999])]),
                        packet::Attribute::new_with_value(packet::Attribute::LOCAL_PREF, 100)
                            .unwrap(),
                    ];
                    if let Some(o) = originator {
                        attrs.push(
                            packet::Attribute::new_with_value(
                                packet::Attribute::ORIGINATOR_ID,
                                u32::from(o),
                            )
                            .unwrap(),
                        );
                    }
                    if let Some(l) = &list {
                        let v: Vec<u32> = l.iter().map(|x| u32::from(*x)).collect();
                        attrs.push(
                            packet::Attribute::new_with_bin(
                                packet::Attribute::CLUSTER_LIST,
                                u32s_to_bytes(&v),
                            )
                            .unwrap(),
                        );
                    }
                    let attrs = Arc::new(attrs);
                    ctx.rep.eval();
                    ctx.rep.count("rx-update:cases");
                    let tables: TableHandle = Arc::new(TableManager::new(1));
                    let mut session =
                        PeerSession::new_for_test(remote, test_peer_context(), tables.clone());
                    session.export_ctx.role = role;
                    session.local_router_id = rid;
                    session.cluster_id = cid;
                    let remote_asn = if is_ibgp_role(role) { LOCAL_AS } else { 65002 };
                    session.source.insert(
                        Family::IPV4,
                        Arc::new(table::Source::new(
                            remote,
                            "10.0.0.1".parse().unwrap(),
                            remote_asn,
                            LOCAL_AS,
                            SRC_RID,
                            role,
                        )),
                    );
                    let reach = Some(bgp::ReachNlri {
                        family: Family::IPV4,
                        entries: vec![packet::PathNlri::new("10.7.0.0/16".parse().unwrap())],
                        nexthop: Some(bgp::Nexthop::V4(Ipv4Addr::new(192, 0, 2, 55))),
                    });
                    let _exceeded = session.rx_update(reach, None, attrs.clone(), 0).await;
                    let adj_in = tables.collect_paths(
                        table::TableQuery::AdjIn(remote),
                        Family::IPV4,
                        vec![],
                        false,
                    );
                    let loc = tables.collect_loc_rib_paths(Family::IPV4);
                    let installed = !adj_in.is_empty() || !loc.is_empty();
                    if !want_installed {
                        ctx.rep.count(if orig_loop {
                            "rx-update:originator-loop"
                        } else {
                            "rx-update:cluster-loop"
                        });
                        ctx.rep.nontrivial(fnv64(
                            format!("rx|{:?}|{}|{}|{}|{}", role, rid, clname, orig, cl).as_bytes(),
                        ));
                    }
                    if installed != want_installed {
                        let sig = if installed {
                            if orig_loop {
                                format!("C09/originator-loop/{}/installed", role_name(role))
                            } else {
                                format!(
                                    "C09/cluster-loop/{}/installed-{}",
                                    role_name(role),
                                    match cl {
                                        2 => "only",
                                        3 => "middle",
                                        _ => "last",
                                    }
                                )
                            }
                        } else {
                            format!("C09/inbound/{}/clean-route-dropped", role_name(role))
                        };
                        let what = if installed {
                            "a route whose ORIGINATOR_ID is the local router-id / whose CLUSTER_LIST holds the local cluster-id was installed"
                        } else {
                            "a route with neither an ORIGINATOR_ID nor a CLUSTER_LIST loop was not installed by rx_update"
                        };
                        ctx.rep.violation(
                            &sig,
                            what,
                            Json::obj(vec![
                                ("session_role", Json::s(role_name(role))),
                                ("local_router_id", Json::s(rid.to_string())),
                                ("cluster_id", Json::s(format!("{:?} ({})", cid, clname))),
                                ("attrs", attrs_json(&attrs)),
                                ("installed", Json::Bool(installed)),
                                ("expected_installed", Json::Bool(want_installed)),
                            ]),
                        );
                    }
                }
            }
        }
    }
}

// ------------------------------------------------------------------ sessions derived by the daemon from neighbour configuration

struct Derived {
    name: &'static str,
    peer_as: u32,
    rr_client: bool,
    cluster: Option<Ipv4Addr>,
    rs_client: bool,
    confed: bool,
}

async fn run_derived(ctx: &mut Ctx) {
    let cfgs = [
        Derived {
            name: "ebgp",
            peer_as: 65002,
            rr_client: false,
            cluster: None,
            rs_client: false,
            confed: false,
        },
        Derived {
            name: "ibgp-default-cluster",
            peer_as: LOCAL_AS,
            rr_client: false,
            cluster: None,
            rs_client: false,
            confed: false,
        },
        Derived {
            name: "ibgp-explicit-cluster",
            peer_as: LOCAL_AS,
            rr_client: false,
            cluster: Some(EXPLICIT_CID),
            rs_client: false,
            confed: false,
        },
        Derived {
            name: "rr-client-default-cluster",
            peer_as: LOCAL_AS,
            rr_client: true,
            cluster: None,
            rs_client: false,
            confed: false,
        },
        Derived {
            name: "rr-client-explicit-cluster",
            peer_as: LOCAL_AS,
            rr_client: true,
            cluster: Some(EXPLICIT_CID),
            rs_client: false,
            confed: false,
        },
        Derived {
            name: "rs-client",
            peer_as: 65003,
            rr_client: false,
            cluster: None,
            rs_client: true,
            confed: false,
        },
        Derived {
            name: "confed-member",
            peer_as: 65010,
            rr_client: false,
            cluster: None,
            rs_client: false,
            confed: true,
        },
        Derived {
            name: "confed-external",
            peer_as: 65002,
            rr_client: false,
            cluster: None,
            rs_client: false,
            confed: true,
        },
        Derived {
            name: "confed-ibgp-rr-client",
            peer_as: LOCAL_AS,
            rr_client: true,
            cluster: None,
            rs_client: false,
            confed: true,
        },
    ];
    for d in cfgs.iter() {
        // the oracle's own reading of the configuration
        let want_role = if d.rs_client {
            PeerRole::RsClient
        } else if d.peer_as == LOCAL_AS {
            if d.rr_client {
                PeerRole::IbgpRrClient
            } else {
                PeerRole::Ibgp
            }
        } else if d.confed && d.peer_as == 65010 {
            PeerRole::ConfedEbgp
        } else {
            PeerRole::Ebgp
        };
        let want_cl = if is_ibgp_role(want_role) {
            if d.cluster.is_some() {
                Cl::Explicit
            } else {
                Cl::Default
            }
        } else {
            Cl::None
        };
        let mut toml_s = format!(
            "[config]\nneighbor-address = \"127.0.0.1\"\npeer-as = {}\n",
            d.peer_as
        );
        if d.rr_client || d.cluster.is_some() {
            toml_s.push_str(&format!(
                "[route-reflector.config]\nroute-reflector-client = {}\n",
                d.rr_client
            ));
            if let Some(c) = d.cluster {
                toml_s.push_str(&format!("route-reflector-cluster-id = \"{}\"\n", c));
            }
        }
        if d.rs_client {
            toml_s.push_str("[route-server.config]\nroute-server-client = true\n");
        }
        let neighbor: config::Neighbor = match toml::from_str(&toml_s) {
            Ok(n) => n,
            Err(e) => {
                ctx.rep
                    .inconclusive(&format!("derived: neighbour TOML rejected: {}", e));
                return;
            }
        };
        let params = match PeerParams::try_from(&neighbor) {
            Ok(p) => p,
            Err(e) => {
                ctx.rep
                    .inconclusive(&format!("derived: PeerParams::try_from failed: {}", e));
                return;
            }
        };
        let (tx, _rx) = mpsc::unbounded_channel();
        let (bfd_tx, _bfd_rx) = mpsc::unbounded_channel();
        let mut g = Global::new(tx, bfd_tx);
        g.asn = LOCAL_AS;
        g.router_id = LOCAL_RID;
        if d.confed {
            let mut members = FnvHashSet::default();
            members.insert(LOCAL_AS);
            members.insert(65010);
            g.confederation = Some(ConfederationConfig {
                id: CONFED_ID,
                members,
            });
        }
        if g.add_peer(params, None).is_err() {
            ctx.rep.inconclusive("derived: add_peer failed");
            return;
        }
        let global: GlobalHandle = Arc::new(tokio::sync::RwLock::new(g));
        let tables: TableHandle = Arc::new(TableManager::new(1));
        let listener = match tokio::net::TcpListener::bind("127.0.0.1:0").await {
            Ok(l) => l,
            Err(_) => {
                ctx.rep.count("derived:loopback-unavailable");
                return;
            }
        };
        let addr = listener.local_addr().unwrap();
        let (client, server) =
            tokio::join!(tokio::net::TcpStream::connect(addr), listener.accept());
        let (Ok(_client), Ok((server, _))) = (client, server) else {
            ctx.rep.count("derived:loopback-unavailable");
            return;
        };
        let Some(session) =
            accept_connection(&global, &tables, server, crate::fsm::Role::Passive).await
        else {
            ctx.rep
                .inconclusive("derived: accept_connection returned no session");
            return;
        };
        ctx.rep.count("derived:sessions");
        ctx.rep.eval();
        let got_role = session.export_ctx.role;
        if got_role != want_role {
            ctx.rep.violation(
                &format!("C09/derived/{}/role", d.name),
                &format!(
                    "session role {:?}, configuration means {:?}",
                    got_role, want_role
                ),
                Json::s(toml_s.clone()),
            );
            continue;
        }
        if session.cluster_id != want_cl.id() {
            ctx.rep.violation(
                &format!("C09/derived/{}/cluster-id", d.name),
                &format!(
                    "session cluster-id {:?}, configuration means {:?}",
                    session.cluster_id,
                    want_cl.id()
                ),
                Json::s(toml_s.clone()),
            );
            continue;
        }
        let want_confed = if d.confed { CONFED_ID } else { 0 };
        if session.export_ctx.confederation_id != want_confed {
            ctx.rep.violation(
                &format!("C09/derived/{}/confederation-id", d.name),
                "session confederation id differs from configuration",
                Json::s(toml_s.clone()),
            );
            continue;
        }
        // run export cases with exactly the context / cluster-id the daemon derived
        for src in SRCS {
            for base in [base_spec(), full_spec()] {
                for addpath in [false, true] {
                    let mut s = base.clone();
                    s.addpath = addpath;
                    s.nh = 0;
                    s.ctx_asn_confed = session.export_ctx.local_asn == CONFED_ID;
                    let cell = Cell {
                        src,
                        dst: want_role,
                        cl: want_cl,
                        confed: d.confed,
                        echo: false,
                    };
                    let env0 = make_env(&cell, &s);
                    if session.export_ctx.local_asn != env0.ctx_local_asn {
                        ctx.rep.count("derived:local-asn-differs-from-model");
                        continue;
                    }
                    ctx.rep.count("derived:cases");
                    run_case_with(
                        ctx,
                        &cell,
                        &s,
                        Some((&session.export_ctx, session.cluster_id)),
                    );
                }
            }
        }
    }
}

// ------------------------------------------------------------------ the real sinks end to end (wire grouping)
//
// process_nlri_change -> GroupedSink::into_messages (initial dump) and
// process_nlri_change -> PendingTx::drain_messages (incremental), for batches of
// prefixes whose exported attribute sets collide while their next hops differ (and
// vice versa).  The UPDATEs are flattened per (prefix, path id) and each entry is
// judged by expected_export; a shadow recording sink fed with the same calls tells
// "value of another route" from "value nobody was handed".

const WIRE_RECV: &str = "10.0.0.3";

struct WPath {
    cell: Cell,
    spec: Spec,
    env: Env,
    path: table::Path,
    exp: Expected,
}

struct WRoute {
    net: packet::Nlri,
    dest_id: u32,
    paths: Vec<WPath>,
}

struct Batch {
    dst: PeerRole,
    cl: Cl,
    confed: bool,
    addpath: bool,
    policy: u8,
    ctx_asn_confed: bool,
    /// 0 = IPv4 session, 1 = IPv6 family on an IPv6 session, 2 = IPv4 family with IPv6
    /// next hops (RFC 8950) on an IPv6 session
    flavour: u8,
    /// the receiver's session has a link-local address (`PeerExportContext.link_addr`)
    link_local: bool,
}

fn wire_recv(v6: bool) -> IpAddr {
    if v6 {
        "2001:db8::3".parse().unwrap()
    } else {
        WIRE_RECV.parse().unwrap()
    }
}

type WireKey = (usize, u32);
type WireVal = (Option<bgp::Nexthop>, Arc<Vec<packet::Attribute>>);

struct SrcCache {
    m: BTreeMap<(u8, bool, bool), Arc<table::Source>>,
}

fn src_index(s: Src) -> u8 {
    SRCS.iter().position(|x| *x == s).unwrap() as u8
}

impl SrcCache {
    fn get(&mut self, cell: &Cell, env: &mut Env, llgr: bool) -> Arc<table::Source> {
        let v6 = env.local_addr.is_ipv6();
        let recv: IpAddr = wire_recv(v6);
        env.recv_addr = recv;
        if !cell.src.is_peer() {
            return make_source(cell, env, false);
        }
        let idx = src_index(cell.src);
        env.src_addr = if cell.echo {
            recv
        } else {
            let host = idx * 2 + llgr as u8 + 1;
            if v6 {
                IpAddr::V6(Ipv6Addr::new(0x2001, 0xdb8, 1, 0, 0, 0, 0, host as u16))
            } else {
                IpAddr::V4(Ipv4Addr::new(10, 0, 1, host))
            }
        };
        let key = (idx, llgr, cell.echo);
        if let Some(s) = self.m.get(&key) {
            return Arc::clone(s);
        }
        let s = make_source(cell, env, llgr);
        self.m.insert(key, Arc::clone(&s));
        s
    }
}

fn gen_wpath(
    rng: &mut Rng,
    b: &Batch,
    templates: &[(Spec, Arc<Vec<packet::Attribute>>)],
    cache: &mut SrcCache,
    pid: u32,
    rep: &mut Report,
) -> WPath {
    let (tspec, tattrs) = rng.pick(templates);
    let mut spec = tspec.clone();
    // source kinds that the receiver mostly hears, plus a few that must be filtered
    let src = if rng.chance(1, 6) {
        *rng.pick(&SRCS)
    } else if b.dst == PeerRole::RsClient {
        Src::RsClient
    } else {
        *rng.pick(&[
            Src::Ebgp,
            Src::Ebgp,
            Src::IbgpRrClient,
            Src::ConfedEbgp,
            Src::Local,
            Src::Kernel,
            Src::Ibgp,
        ])
    };
    let echo = src.is_peer() && rng.chance(1, 12);
    let cell = Cell {
        src,
        dst: b.dst,
        cl: b.cl,
        confed: b.confed,
        echo,
    };
    spec.llgr = src.is_peer() && rng.chance(1, 6);
    // the stored next hop: full pool of the session flavour -- global address and
    // link-local half vary independently
    spec.nh = match b.flavour {
        0 => *rng.pick(&[0u8, 0, 0, 0, 0, 0, 2]),
        1 => *rng.pick(&[1u8, 1, 3, 3, 3, 3, 6]),
        _ => *rng.pick(&[4u8, 4, 5, 5, 5, 5]),
    };
    spec.nh_g = if b.flavour == 0 {
        rng.below(3) as u8
    } else {
        rng.below(2) as u8
    };
    spec.nh_ll = rng.below(2) as u8;
    spec.link_local = b.link_local;
    let mut env = make_env(&cell, &spec);
    let source = cache.get(&cell, &mut env, spec.llgr);
    let attr = if rng.bool() {
        rep.count("wire:input-same-arc");
        Arc::clone(tattrs)
    } else {
        rep.count("wire:input-different-arc");
        Arc::new(build_attrs(&spec))
    };
    let exp = expected_export(&cell, &spec, &env);
    let path = table::Path {
        local_path_id: pid,
        source,
        nexthop: env.stored_nh,
        attr,
    };
    WPath {
        cell,
        spec,
        env,
        path,
        exp,
    }
}

fn gen_batch(rng: &mut Rng) -> (Batch, Vec<(Spec, Arc<Vec<packet::Attribute>>)>) {
    // receivers towards which the stored next hop is passed through get most batches
    let dst = *rng.pick(&[
        PeerRole::Ibgp,
        PeerRole::Ibgp,
        PeerRole::IbgpRrClient,
        PeerRole::IbgpRrClient,
        PeerRole::RsClient,
        PeerRole::RsClient,
        PeerRole::Ebgp,
        PeerRole::ConfedEbgp,
    ]);
    let cl = if is_ibgp_role(dst) {
        if rng.bool() {
            Cl::Default
        } else {
            Cl::Explicit
        }
    } else {
        Cl::None
    };
    let b = Batch {
        dst,
        cl,
        confed: rng.chance(1, 4),
        addpath: rng.bool(),
        // none (mostly), nh-unchanged (keeps explicit next hops towards eBGP), MED actions
        policy: *rng.pick(&[
            0u8, 0, 0, 4, 4, 5, 6, 7, 8, 8, 9, 9, 10, 10, 11, 12, 13, 14, 15,
        ]),
        ctx_asn_confed: rng.bool(),
        flavour: *rng.pick(&[0u8, 0, 1, 1, 1, 2, 2]),
        link_local: rng.bool(),
    };
    let n_t = rng.range(1, 3) as usize;
    let mut templates = Vec::new();
    for _ in 0..n_t {
        let mut s = random_spec(rng);
        s.nh = 0;
        s.addpath = b.addpath;
        s.policy = b.policy;
        s.ctx_asn_confed = b.ctx_asn_confed;
        s.decoy = false;
        s.link_local = false;
        s.llgr = false;
        // long paths only now and then: keep batches cheap
        if shape_has_full(s.path) && rng.chance(3, 4) {
            s.path = 2;
        }
        let a = Arc::new(build_attrs(&s));
        templates.push((s, a));
    }
    (b, templates)
}

fn wire_net(i: usize, v6_family: bool) -> packet::Nlri {
    if v6_family {
        format!("2001:db8:{:x}::/48", 0x100 + i).parse().unwrap()
    } else {
        format!("10.{}.{}.0/24", 100 + i / 250, i % 250)
            .parse()
            .unwrap()
    }
}

/// Apply drained messages to the receiver's view.  Returns keys that occurred
/// twice among the advertisements of this drain.
fn apply_wire_msgs(
    msgs: &[bgp::Message],
    index: &FnvHashMap<packet::Nlri, usize>,
    view: &mut BTreeMap<WireKey, WireVal>,
    unknown: &mut u64,
) -> Vec<WireKey> {
    let mut seen: BTreeSet<WireKey> = BTreeSet::new();
    let mut dups = Vec::new();
    for m in msgs {
        match m {
            bgp::Message::Update(bgp::Update::Unreach { entries, .. }) => {
                for e in entries {
                    match index.get(&e.nlri) {
                        Some(i) => {
                            view.remove(&(*i, e.path_id));
                        }
                        None => *unknown += 1,
                    }
                }
            }
            bgp::Message::Update(bgp::Update::Reach {
                entries,
                nexthop,
                attr,
                ..
            }) => {
                for e in entries {
                    match index.get(&e.nlri) {
                        Some(i) => {
                            let k = (*i, e.path_id);
                            if !seen.insert(k) {
                                dups.push(k);
                            }
                            view.insert(k, (*nexthop, Arc::clone(attr)));
                        }
                        None => *unknown += 1,
                    }
                }
            }
            _ => {}
        }
    }
    dups
}

fn wire_witness(
    sink: &str,
    b: &Batch,
    routes: &[WRoute],
    key: WireKey,
    wire: Option<&WireVal>,
    handed: Option<&WireVal>,
    log: &[String],
) -> Json {
    let r = &routes[key.0];
    let wp = if b.addpath {
        r.paths.iter().find(|p| p.path.local_path_id == key.1)
    } else {
        r.paths.first()
    };
    let show = |v: Option<&WireVal>| match v {
        None => Json::s("absent"),
        Some((nh, a)) => Json::obj(vec![
            ("nexthop", Json::s(format!("{:?}", nh))),
            ("attrs", attrs_json(a)),
        ]),
    };
    Json::obj(vec![
        ("sink", Json::s(sink)),
        ("receiver_role", Json::s(role_name(b.dst))),
        ("cluster_id", Json::s(format!("{:?}", b.cl.id()))),
        ("confederation", Json::Bool(b.confed)),
        (
            "branch",
            Json::s(if b.addpath { "add-path" } else { "plain" }),
        ),
        ("export_policy", Json::s(policy_name(b.policy))),
        ("prefix", Json::s(format!("{}", r.net))),
        ("path_id", Json::Int(key.1 as i128)),
        (
            "cell",
            Json::s(wp.map(|p| format!("{:?}", p.cell)).unwrap_or_default()),
        ),
        (
            "spec",
            Json::s(wp.map(|p| format!("{:?}", p.spec)).unwrap_or_default()),
        ),
        (
            "stored_nexthop",
            Json::s(
                wp.map(|p| format!("{:?}", p.env.stored_nh))
                    .unwrap_or_default(),
            ),
        ),
        (
            "input_attrs",
            wp.map(|p| attrs_json(&p.path.attr)).unwrap_or(Json::Null),
        ),
        ("on_the_wire", show(wire)),
        ("handed_to_the_sink", show(handed)),
        ("batch_prefixes", Json::Int(routes.len() as i128)),
        (
            "history",
            Json::strs(log.iter().rev().take(40).rev().cloned()),
        ),
    ])
}

/// Judge the receiver's view against expected_export of every route's current
/// state and against what process_nlri_change handed to the (shadow) sink.
#[allow(clippy::too_many_arguments)]
fn judge_wire_view(
    ctx: &mut Ctx,
    sink: &'static str,
    b: &Batch,
    routes: &[WRoute],
    processed: &[bool],
    view: &BTreeMap<WireKey, WireVal>,
    shadow: &BTreeMap<WireKey, WireVal>,
    log: &[String],
) {
    let same = |a: &WireVal, c: &WireVal| a.0 == c.0 && (Arc::ptr_eq(&a.1, &c.1) || *a.1 == *c.1);
    // 1. lossless: the view is exactly what was handed over, entry by entry
    for (k, handed) in shadow {
        if !processed[k.0] {
            continue;
        }
        match view.get(k) {
            None => {
                let sig = format!("C09/wire-grouping/{}/prefix-lost", sink);
                let w = wire_witness(sink, b, routes, *k, None, Some(handed), log);
                ctx.rep.violation(
                    &sig,
                    "a route handed to the sink never shows up in the UPDATE messages",
                    w,
                );
            }
            Some(wire) => {
                if wire.0 != handed.0 {
                    let other = shadow.iter().any(|(k2, h2)| k2 != k && h2.0 == wire.0);
                    let fact = if other {
                        "nexthop-of-another-route"
                    } else {
                        "nexthop-wrong"
                    };
                    let sig = format!("C09/wire-grouping/{}/{}", sink, fact);
                    let w = wire_witness(sink, b, routes, *k, Some(wire), Some(handed), log);
                    ctx.rep.violation(&sig, &format!("prefix is advertised with next hop {:?} but process_nlri_change exported it with {:?}", wire.0, handed.0), w);
                }
                if !(Arc::ptr_eq(&wire.1, &handed.1) || *wire.1 == *handed.1) {
                    let other = shadow.iter().any(|(k2, h2)| k2 != k && *h2.1 == *wire.1);
                    let fact = if other {
                        "attrs-of-another-route"
                    } else {
                        "attrs-wrong"
                    };
                    let sig = format!("C09/wire-grouping/{}/{}", sink, fact);
                    let w = wire_witness(sink, b, routes, *k, Some(wire), Some(handed), log);
                    ctx.rep.violation(&sig, "prefix is advertised with an attribute set other than the one process_nlri_change exported for it", w);
                }
            }
        }
    }
    for (k, wire) in view {
        if !shadow.contains_key(k) {
            let sig = format!("C09/wire-grouping/{}/stale-entry", sink);
            let w = wire_witness(sink, b, routes, *k, Some(wire), None, log);
            ctx.rep.violation(
                &sig,
                "the receiver holds an advertisement that was withdrawn / never handed to the sink",
                w,
            );
        }
    }
    // 2. the statement, on what really goes out
    for (ri, r) in routes.iter().enumerate() {
        if !processed[ri] {
            continue;
        }
        let subjects: Vec<(u32, &WPath)> = if b.addpath {
            r.paths.iter().map(|p| (p.path.local_path_id, p)).collect()
        } else {
            r.paths.first().map(|p| (0u32, p)).into_iter().collect()
        };
        for (pid, wp) in subjects {
            let k = (ri, pid);
            ctx.rep.eval();
            ctx.rep.count(if sink == "grouped" {
                "wire:grouped:entries-judged"
            } else {
                "wire:pending:entries-judged"
            });
            let wire = view.get(&k);
            let e = match (&wp.exp, wire) {
                (Expected::Suppress(clause), Some(w)) => {
                    // handed to the sink although forbidden: the filter's defect (same
                    // signature as the matrix part); not handed: reported as stale-entry above
                    if shadow.contains_key(&k) {
                        let sig = format!("C09/{}/{}/sent", clause, wp.cell.pair());
                        let wj = wire_witness(sink, b, routes, k, Some(w), shadow.get(&k), log);
                        ctx.rep.violation(
                            &sig,
                            &format!(
                                "a route the {} rule forbids is in the UPDATE messages ({} sink)",
                                clause, sink
                            ),
                            wj,
                        );
                    }
                    continue;
                }
                (Expected::Suppress(_), None) | (Expected::Either(..), _) => continue,
                (Expected::Send(_), None) => {
                    // already reported as prefix-lost when it was handed over; when it was
                    // not even handed over the matrix part owns the finding
                    ctx.rep.count("wire:expected-send-absent");
                    continue;
                }
                (Expected::Send(e), Some(_)) => e,
            };
            let (nh, attrs) = wire.unwrap();
            ctx.rep.nontrivial(fnv64(
                format!(
                    "wire|{}|{:?}|{:?}|{:?}",
                    sink, wp.cell, wp.spec, wp.env.stored_nh
                )
                .as_bytes(),
            ));
            if !matches!(e.nexthop, ExpNh::Any) {
                ctx.rep.count("wire:nexthop-judged");
                if matches!(e.nexthop, ExpNh::Same(bgp::Nexthop::V6LinkLocal(..))) {
                    ctx.rep.count("wire:link-local-nexthop-judged");
                }
            }
            for (clause, fact, text) in judge(&wp.cell, &wp.spec, e, *nh, attrs) {
                let handed_ok = shadow
                    .get(&k)
                    .is_some_and(|h| same(h, &(*nh, Arc::clone(attrs))));
                let sig = if handed_ok {
                    // the sink was handed this very value: a rewrite defect, not a grouping one
                    format!("C09/{}/{}/{}", clause, wp.cell.pair(), fact)
                } else if clause == "nexthop" || clause == "policy-nexthop" {
                    format!("C09/wire-grouping/{}/nexthop-of-another-route", sink)
                } else {
                    format!("C09/wire-grouping/{}/attrs-of-another-route", sink)
                };
                let wj = wire_witness(sink, b, routes, k, wire, shadow.get(&k), log);
                ctx.rep.violation(
                    &sig,
                    &format!(
                        "on the wire ({} sink): {} -> {}: {}",
                        sink,
                        wp.cell.src.name(),
                        role_name(b.dst),
                        text
                    ),
                    wj,
                );
            }
        }
    }
    // coverage: exported attribute sets that collide while next hops differ, and the converse
    let mut by_attr: Vec<(&Arc<Vec<packet::Attribute>>, BTreeSet<String>, u32)> = Vec::new();
    for (nh, a) in shadow.values() {
        match by_attr.iter_mut().find(|x| **x.0 == **a) {
            Some(x) => {
                x.1.insert(format!("{:?}", nh));
                x.2 += 1;
            }
            None => by_attr.push((a, [format!("{:?}", nh)].into_iter().collect(), 1)),
        }
    }
    for (_, nhs, n) in &by_attr {
        if nhs.len() > 1 {
            ctx.rep.count("wire:equal-attrs-different-nexthops");
        }
        if *n > 1 {
            ctx.rep.count("wire:attr-set-shared-by-several-prefixes");
        }
    }
    // content-equal attributes, equal global address, different link-local half:
    // must stay two groups
    let mut by_attr_nh: Vec<(&Arc<Vec<packet::Attribute>>, Vec<bgp::Nexthop>)> = Vec::new();
    for (nh, a) in shadow.values() {
        let Some(nh) = nh else { continue };
        match by_attr_nh.iter_mut().find(|x| **x.0 == **a) {
            Some(x) => {
                if !x.1.contains(nh) {
                    x.1.push(*nh);
                }
            }
            None => by_attr_nh.push((a, vec![*nh])),
        }
    }
    for (_, nhs) in &by_attr_nh {
        let clash = nhs
            .iter()
            .any(|x| nhs.iter().any(|y| x != y && x.addr() == y.addr()));
        if clash {
            ctx.rep
                .count("wire:equal-attrs-equal-global-different-link-local");
        }
    }
    for (nh, _) in shadow.values() {
        if matches!(nh, Some(bgp::Nexthop::V6LinkLocal(..))) {
            ctx.rep.count("wire:handed-link-local-nexthops");
        }
    }
    let mut by_nh: BTreeMap<String, u32> = BTreeMap::new();
    for (nh, a) in shadow.values() {
        let e = by_nh.entry(format!("{:?}", nh)).or_insert(0);
        if by_attr
            .iter()
            .filter(|x| x.1.contains(&format!("{:?}", nh)))
            .count()
            > 1
            && *e == 0
        {
            ctx.rep.count("wire:equal-nexthop-different-attrs");
        }
        *e += 1;
        let _ = a;
    }
}

fn run_wire_batch(ctx: &mut Ctx, rng: &mut Rng, use_pending: bool) {
    let sink_name: &'static str = if use_pending { "pending" } else { "grouped" };
    let (b, templates) = gen_batch(rng);
    let family = if b.flavour == 1 {
        Family::IPV6
    } else {
        Family::IPV4
    };
    let n = rng.range(4, 40) as usize;
    let mut cache = SrcCache { m: BTreeMap::new() };
    let mut routes: Vec<WRoute> = Vec::new();
    let mut index: FnvHashMap<packet::Nlri, usize> = FnvHashMap::default();
    for i in 0..n {
        let npaths = if b.addpath {
            rng.range(1, 3) as u32
        } else {
            rng.range(1, 2) as u32
        };
        let paths: Vec<WPath> = (0..npaths)
            .map(|k| gen_wpath(rng, &b, &templates, &mut cache, k + 1, &mut ctx.rep))
            .collect();
        let net = wire_net(i, b.flavour == 1);
        index.insert(net.clone(), i);
        routes.push(WRoute {
            net,
            dest_id: 100 + i as u32,
            paths,
        });
    }
    let recv: IpAddr = wire_recv(b.flavour != 0);
    let ctx_local_asn = routes[0].paths[0].env.ctx_local_asn;
    let export_ctx = PeerExportContext {
        role: b.dst,
        local_asn: ctx_local_asn,
        local_addr: routes[0].paths[0].env.local_addr,
        link_addr: routes[0].paths[0].env.link_addr,
        confederation_id: if b.confed { CONFED_ID } else { 0 },
    };
    let policy = if b.flavour != 0 {
        ctx.pol.v6[b.policy as usize].clone()
    } else {
        ctx.pol.v4[b.policy as usize].clone()
    };
    ctx.rep.count(match b.flavour {
        0 => "wire:session:ipv4",
        1 => "wire:session:ipv6",
        _ => "wire:session:ipv4-over-ipv6-nexthop",
    });
    if export_ctx.link_addr.is_some() {
        ctx.rep.count("wire:receiver-with-link-addr");
    }
    let emax = if b.addpath { 4 } else { 1 };
    let new_em = || {
        if b.addpath {
            ExportMap::new([family])
        } else {
            ExportMap::default()
        }
    };
    let mut em_real = new_em();
    let mut em_shadow = new_em();
    let mut view: BTreeMap<WireKey, WireVal> = BTreeMap::new();
    let mut shadow: BTreeMap<WireKey, WireVal> = BTreeMap::new();
    let mut processed = vec![false; n];
    let mut log: Vec<String> = Vec::new();
    let mut unknown = 0u64;
    ctx.rep.count(if use_pending {
        "wire:pending:batches"
    } else {
        "wire:grouped:batches"
    });
    ctx.rep
        .count(&format!("wire:receiver:{}", role_name(b.dst)));
    ctx.rep.count(if b.addpath {
        "wire:add-path"
    } else {
        "wire:plain"
    });

    let change_of = |r: &WRoute, replaced: Option<u32>| table::NlriChange {
        family,
        net: r.net.clone(),
        dest_id: r.dest_id,
        best_changed: true,
        any_changed: true,
        replaced_path_id: replaced,
        current_paths: Arc::new(r.paths.iter().map(|p| p.path.clone()).collect()),
    };
    // feed one change to the real sink and to the shadow recorder
    macro_rules! feed {
        ($sink:expr, $ri:expr, $replaced:expr) => {{
            let ch = change_of(&routes[$ri], $replaced);
            process_nlri_change(
                &ch,
                emax,
                recv,
                &mut em_real,
                $sink,
                &export_ctx,
                policy.as_deref(),
                b.cl.id(),
                None,
                None,
                None,
            );
            let mut rec = Rec::default();
            process_nlri_change(
                &ch,
                emax,
                recv,
                &mut em_shadow,
                &mut rec,
                &export_ctx,
                policy.as_deref(),
                b.cl.id(),
                None,
                None,
                None,
            );
            for (_, pid) in rec.unreach {
                shadow.remove(&($ri, if b.addpath { pid } else { 0 }));
            }
            for (_, pid, nh, attrs, _) in rec.reach {
                shadow.insert(($ri, if b.addpath { pid } else { 0 }), (nh, attrs));
            }
            processed[$ri] = true;
        }};
    }

    let res = guard(|| {
        if !use_pending {
            // initial dump: every destination once, then into_messages
            let mut sink = GroupedSink::new(b.addpath);
            for ri in 0..n {
                feed!(&mut sink, ri, None);
            }
            log.push(format!(
                "initial dump of {} prefixes through GroupedSink",
                n
            ));
            let msgs = sink.into_messages(family);
            let mut multi = 0;
            for m in &msgs {
                if let bgp::Message::Update(bgp::Update::Reach { entries, .. }) = m {
                    if entries.len() > 1 {
                        multi += 1;
                    }
                }
            }
            ctx.rep
                .count_n("wire:messages-with-several-prefixes", multi);
            let dups = apply_wire_msgs(&msgs, &index, &mut view, &mut unknown);
            for k in dups {
                let sig = format!("C09/wire-grouping/{}/prefix-duplicated", sink_name);
                let w = wire_witness(
                    sink_name,
                    &b,
                    &routes,
                    k,
                    view.get(&k),
                    shadow.get(&k),
                    &log,
                );
                ctx.rep.violation(
                    &sig,
                    "the same (prefix, path id) is advertised twice in one dump",
                    w,
                );
            }
            judge_wire_view(
                ctx, sink_name, &b, &routes, &processed, &view, &shadow, &log,
            );
        } else {
            let mut pending = crate::peer_tx::PendingTx::new(b.addpath);
            // announcements, then replacements and withdrawals, drained at random points
            let mut order: Vec<usize> = (0..n).collect();
            rng.shuffle(&mut order);
            let mut ops: Vec<(usize, u8)> = order.iter().map(|i| (*i, 0u8)).collect();
            let mut later: Vec<(usize, u8)> = Vec::new();
            for i in 0..n {
                match rng.below(4) {
                    0 => later.push((i, 1)),
                    1 => later.push((i, 2)),
                    2 => {
                        later.push((i, 1));
                        later.push((i, 2));
                    }
                    _ => {}
                }
            }
            // keep per-prefix order (replace before withdraw), shuffle across prefixes
            let mut keyed: Vec<(u64, (usize, u8))> = later
                .into_iter()
                .map(|o| (rng.below(1000) * 4 + o.1 as u64, o))
                .collect();
            keyed.sort();
            ops.extend(keyed.into_iter().map(|x| x.1));
            let total = ops.len();
            for (step, (ri, kind)) in ops.into_iter().enumerate() {
                match kind {
                    0 => {
                        feed!(&mut pending, ri, None);
                        log.push(format!("announce {}", routes[ri].net));
                    }
                    1 => {
                        // replace one path (new attributes and/or next hop), same path id
                        if routes[ri].paths.is_empty() {
                            continue;
                        }
                        let pi = rng.usize(routes[ri].paths.len());
                        let pid = routes[ri].paths[pi].path.local_path_id;
                        let np = gen_wpath(rng, &b, &templates, &mut cache, pid, &mut ctx.rep);
                        routes[ri].paths[pi] = np;
                        feed!(&mut pending, ri, Some(pid));
                        ctx.rep.count("wire:pending:replacements");
                        log.push(format!("replace path {} of {}", pid, routes[ri].net));
                    }
                    _ => {
                        routes[ri].paths.clear();
                        feed!(&mut pending, ri, None);
                        ctx.rep.count("wire:pending:withdrawals");
                        log.push(format!("withdraw {}", routes[ri].net));
                    }
                }
                if rng.chance(1, 8) || step + 1 == total {
                    let msgs = pending.drain_messages(family);
                    let mut multi = 0;
                    for m in &msgs {
                        if let bgp::Message::Update(bgp::Update::Reach { entries, .. }) = m {
                            if entries.len() > 1 {
                                multi += 1;
                            }
                        }
                    }
                    ctx.rep
                        .count_n("wire:messages-with-several-prefixes", multi);
                    ctx.rep.count("wire:pending:drains");
                    log.push(format!("drain_messages -> {} messages", msgs.len()));
                    let dups = apply_wire_msgs(&msgs, &index, &mut view, &mut unknown);
                    for k in dups {
                        let sig = format!("C09/wire-grouping/{}/prefix-duplicated", sink_name);
                        let w = wire_witness(
                            sink_name,
                            &b,
                            &routes,
                            k,
                            view.get(&k),
                            shadow.get(&k),
                            &log,
                        );
                        ctx.rep.violation(
                            &sig,
                            "the same (prefix, path id) is advertised twice in one drain",
                            w,
                        );
                    }
                    judge_wire_view(
                        ctx, sink_name, &b, &routes, &processed, &view, &shadow, &log,
                    );
                }
            }
        }
    });
    if let Err(p) = res {
        let sig = format!("C09/panic/{}:{}", p.location, panic_class(&p.message));
        ctx.rep.violation(
            &sig,
            &format!(
                "wire workload ({}) panicked at {}: {}",
                sink_name, p.location, p.message
            ),
            Json::strs(log.clone()),
        );
    }
    if unknown > 0 {
        ctx.rep.violation(
            &format!("C09/wire-grouping/{}/unknown-prefix", sink_name),
            "an UPDATE carries a prefix that was never handed to the sink",
            Json::strs(log),
        );
    }
}

fn run_wire(ctx: &mut Ctx, rng: &mut Rng, batches: u64) {
    for i in 0..batches {
        if !ctx.rep.in_budget() {
            ctx.rep.inconclusive("wire: time budget used up");
            break;
        }
        run_wire_batch(ctx, rng, i % 2 == 1);
    }
}

// ------------------------------------------------------------------ entry point

#[test]
fn run() {
    let params = Params::from_args_env();
    let rule = "case = (cell = source kind x receiver role x cluster config x confederation x echo, attribute vector, export policy action, branch) run through the real process_nlri_change and judged by expected_export (plus LLGR stale-transition histories through TableManager, is_as_loop paths, rx_update loop cases with RIB read-back, and batches of prefixes through the real GroupedSink / PendingTx flattened per (prefix, path id)); non-trivial = a suppress rule applied, or the route was sent and its rewrite judged, or an inbound case that loops, or a wire entry judged; distinct by hash of (cell, vector) / of the case parameters";
    let mut rep = Report::new("C09", &params);
    rep.extra("rule", Json::s(rule));
    rep.max_samples = 6;
    let mut ctx = Ctx {
        rep,
        pol: build_policies(),
    };
    let mut rng = Rng::new(params.seed ^ 0xC09);
    let nshards = params.get_u64("nshards", 1).max(1);
    let shard = params.seed % 1000;
    let part = params.get("part").unwrap_or("all").to_string();
    if part == "all" || part == "inbound" {
        run_as_loop(&mut ctx);
        run_llgr_history(&mut ctx);
        match tokio::runtime::Builder::new_current_thread()
            .enable_all()
            .build()
        {
            Ok(rt) => {
                let r = guard(|| {
                    rt.block_on(async {
                        run_rx_update(&mut ctx).await;
                        run_derived(&mut ctx).await;
                    })
                });
                if let Err(p) = r {
                    let sig = format!("C09/panic/{}:{}", p.location, panic_class(&p.message));
                    ctx.rep.violation(
                        &sig,
                        &format!(
                            "inbound / derived workload panicked at {}: {}",
                            p.location, p.message
                        ),
                        Json::Null,
                    );
                }
            }
            Err(e) => ctx.rep.inconclusive(&format!("no tokio runtime: {}", e)),
        }
    }
    if part == "all" || part == "wire" {
        let mut wrng = Rng::new(params.seed ^ 0x00C0_9777);
        let n = params.get_u64("wire_batches", params.n(400, 6000));
        run_wire(&mut ctx, &mut wrng, n);
    }
    if part == "all" || part == "matrix" {
        let n = params.get_u64("random_per_cell", params.n(40, 1500));
        run_matrix(&mut ctx, &mut rng, shard, nshards, n);
        ctx.rep.exhaustive = Some(false);
    }
    let _ = ctx.rep.finish();
}
