//! C17 — what the gRPC API accepts is stored faithfully, shown back unchanged, and safe.
//!
//! Engine E2 module (`crate::event::verif::c17`).  Three parts:
//!  (a) round trip: internal attributes / NLRI obtained by DECODING generated
//!      wire UPDATEs with `PeerCodec` -> `attr_to_api`/`nlri_to_api` ->
//!      `attr_from_api`/`net_from_api` must give the identical value;
//!  (b) totality: arbitrary API messages -> conversion under `guard()`; every
//!      accepted value must satisfy the wire decoder's acceptance rules (an
//!      independent validator below) and must be usable (table insert with a
//!      competing path, import policy, export for every role, wire encoding,
//!      display) without a panic;
//!  (c) store-and-show: `api::Path`s through the real `GrpcService::add_path`
//!      and back through `list_path`.
#![allow(clippy::all, unused_variables, unused_mut, dead_code, unused_imports)]

use super::super::*;
use crate::api::go_bgp_service_server::GoBgpService as _;
use crate::convert::{attr_from_api, attr_to_api, family_to_api, net_from_api, nlri_to_api};
use crate::table_manager::TableManager;
use crate::verif_common::*;
use packet::{Attribute, Nlri, PathNlri};
use std::net::{IpAddr, Ipv4Addr, Ipv6Addr};
use std::sync::Arc;

// ------------------------------------------------------------------ families

const FAMILIES: [(Family, &str); 19] = [
    (Family::IPV4, "ipv4"),
    (Family::IPV6, "ipv6"),
    (Family::IPV4_MC, "ipv4-mc"),
    (Family::IPV6_MC, "ipv6-mc"),
    (Family::IPV4_MPLS, "ipv4-mpls"),
    (Family::IPV6_MPLS, "ipv6-mpls"),
    (Family::IPV4_VPN, "ipv4-vpn"),
    (Family::IPV6_VPN, "ipv6-vpn"),
    (Family::IPV4_FLOWSPEC, "ipv4-flowspec"),
    (Family::IPV6_FLOWSPEC, "ipv6-flowspec"),
    (Family::IPV4_FLOWSPEC_VPN, "ipv4-flowspec-vpn"),
    (Family::IPV6_FLOWSPEC_VPN, "ipv6-flowspec-vpn"),
    (Family::L2VPN_EVPN, "l2vpn-evpn"),
    (Family::RTC, "rtc"),
    (Family::IPV4_SRPOLICY, "ipv4-srpolicy"),
    (Family::IPV6_SRPOLICY, "ipv6-srpolicy"),
    (Family::IPV4_MUP, "ipv4-mup"),
    (Family::IPV6_MUP, "ipv6-mup"),
    (Family::LS, "ls"),
];

fn fam_name(f: Family) -> String {
    for (ff, n) in FAMILIES.iter() {
        if *ff == f {
            return n.to_string();
        }
    }
    format!("afi{}-safi{}", f.afi(), f.safi())
}

fn is_flowspec(f: Family) -> bool {
    matches!(
        f,
        Family::IPV4_FLOWSPEC
            | Family::IPV6_FLOWSPEC
            | Family::IPV4_FLOWSPEC_VPN
            | Family::IPV6_FLOWSPEC_VPN
    )
}

fn is_v6_family(f: Family) -> bool {
    f.afi() == Family::AFI_IP6
}

/// the family whose wire decoder produces this Nlri variant
fn nlri_variant_families(n: &Nlri) -> Vec<Family> {
    match n {
        Nlri::V4(_) => vec![Family::IPV4, Family::IPV4_MC],
        Nlri::V6(_) => vec![Family::IPV6, Family::IPV6_MC],
        Nlri::Mup(_) => vec![Family::IPV4_MUP, Family::IPV6_MUP],
        Nlri::VpnV4(_) => vec![Family::IPV4_VPN],
        Nlri::VpnV6(_) => vec![Family::IPV6_VPN],
        Nlri::LabeledV4(_) => vec![Family::IPV4_MPLS],
        Nlri::LabeledV6(_) => vec![Family::IPV6_MPLS],
        Nlri::FlowspecV4(_) => vec![Family::IPV4_FLOWSPEC],
        Nlri::FlowspecV6(_) => vec![Family::IPV6_FLOWSPEC],
        Nlri::FlowspecVpnV4(_) => vec![Family::IPV4_FLOWSPEC_VPN],
        Nlri::FlowspecVpnV6(_) => vec![Family::IPV6_FLOWSPEC_VPN],
        Nlri::Ls(_) => vec![Family::LS],
        Nlri::SrPolicy(_) => vec![Family::IPV4_SRPOLICY, Family::IPV6_SRPOLICY],
        Nlri::Evpn(_) => vec![Family::L2VPN_EVPN],
        Nlri::Rtc(_) => vec![Family::RTC],
    }
}

// ------------------------------------------------------------------ small random helpers

fn rnd_v4(r: &mut Rng) -> Ipv4Addr {
    match r.below(8) {
        0 => Ipv4Addr::new(0, 0, 0, 0),
        1 => Ipv4Addr::new(255, 255, 255, 255),
        2 => Ipv4Addr::new(10, 0, 0, r.below(256) as u8),
        _ => Ipv4Addr::from(r.next_u32()),
    }
}

fn rnd_v6(r: &mut Rng) -> Ipv6Addr {
    match r.below(8) {
        0 => Ipv6Addr::UNSPECIFIED,
        1 => Ipv6Addr::from(0x2001_0db8_0000_0000_0000_0000_0000_0000u128 | r.below(65536) as u128),
        2 => Ipv6Addr::from(0x0000_0000_0000_0000_0000_ffff_0000_0000u128 | r.next_u32() as u128), // v4-mapped
        3 => Ipv6Addr::from(0xfe80_0000_0000_0000_0000_0000_0000_0000u128 | r.next_u64() as u128),
        _ => Ipv6Addr::from(((r.next_u64() as u128) << 64) | r.next_u64() as u128),
    }
}

fn rnd_u32(r: &mut Rng) -> u32 {
    match r.below(10) {
        0 => 0,
        1 => 1,
        2 => 255,
        3 => 256,
        4 => 65535,
        5 => 65536,
        6 => 23456,
        7 => u32::MAX,
        _ => r.next_u32(),
    }
}

fn rnd_u16(r: &mut Rng) -> u16 {
    match r.below(6) {
        0 => 0,
        1 => 1,
        2 => 255,
        3 => 65535,
        _ => r.next_u32() as u16,
    }
}

fn trunc(s: String) -> String {
    if s.len() > 1500 {
        let mut cut = 1500;
        while !s.is_char_boundary(cut) {
            cut -= 1;
        }
        format!("{}...[{} bytes]", &s[..cut], s.len())
    } else {
        s
    }
}

fn attr_code_label(code: u8) -> String {
    if Attribute::canonical_flags(code).is_some() {
        format!("{}", code)
    } else {
        "unknown".to_string()
    }
}

fn attr_bytes(a: &Attribute) -> Vec<u8> {
    match a.value() {
        Some(v) => v.to_be_bytes().to_vec(),
        None => a.binary().cloned().unwrap_or_default(),
    }
}

fn attr_dbg(a: &Attribute) -> String {
    let kind = if a.value().is_some() {
        "val"
    } else if a.is_opaque() {
        "opaque"
    } else {
        "bin"
    };
    trunc(format!(
        "code={} flags={:#04x} {}={}",
        a.code(),
        a.flags(),
        kind,
        hex(&attr_bytes(a))
    ))
}

// ------------------------------------------------------------------ wire building

#[derive(Clone, Debug)]
struct WAttr {
    flags: u8,
    code: u8,
    val: Vec<u8>,
    force_ext: bool,
}

fn wa(code: u8, val: Vec<u8>) -> WAttr {
    WAttr {
        flags: Attribute::canonical_flags(code).unwrap_or(0xC0),
        code,
        val,
        force_ext: false,
    }
}

fn put_attr(out: &mut Vec<u8>, a: &WAttr) {
    let ext = a.val.len() > 255 || a.force_ext;
    out.push(if ext { a.flags | 0x10 } else { a.flags & !0x10 });
    out.push(a.code);
    if ext {
        out.extend_from_slice(&(a.val.len() as u16).to_be_bytes());
    } else {
        out.push(a.val.len() as u8);
    }
    out.extend_from_slice(&a.val);
}

#[derive(Clone, Copy, Debug, PartialEq)]
enum Nh {
    None,
    V4(Ipv4Addr),
    V6(Ipv6Addr),
    V6Ll(Ipv6Addr, Ipv6Addr),
}

fn nh_bytes(nh: &Nh) -> Vec<u8> {
    match nh {
        Nh::None => vec![],
        Nh::V4(a) => a.octets().to_vec(),
        Nh::V6(a) => a.octets().to_vec(),
        Nh::V6Ll(a, b) => {
            let mut v = a.octets().to_vec();
            v.extend_from_slice(&b.octets());
            v
        }
    }
}

fn gen_nh(fam: Family, r: &mut Rng) -> Nh {
    if is_flowspec(fam) {
        return Nh::None;
    }
    if fam == Family::IPV4 {
        return Nh::V4(Ipv4Addr::from(r.next_u32() | 0x0100_0000));
    }
    let v6 = is_v6_family(fam) || r.chance(1, 4);
    if v6 {
        let g =
            Ipv6Addr::from(0x2001_0db8_0000_0000_0000_0000_0000_0000u128 | (r.next_u64() as u128));
        if r.chance(1, 4) && !matches!(fam, Family::IPV4_VPN | Family::IPV6_VPN) {
            Nh::V6Ll(
                g,
                Ipv6Addr::from(
                    0xfe80_0000_0000_0000_0000_0000_0000_0000u128 | (r.next_u64() as u128 | 1),
                ),
            )
        } else {
            Nh::V6(g)
        }
    } else {
        Nh::V4(Ipv4Addr::from(r.next_u32() | 0x0100_0000))
    }
}

/// A complete UPDATE message: `attrs` + (NEXT_HOP + trailing NLRI | MP_REACH).
fn build_update(fam: Family, nh: &Nh, nlri_field: &[u8], attrs: &[WAttr]) -> Vec<u8> {
    let mut pa = Vec::new();
    for a in attrs {
        put_attr(&mut pa, a);
    }
    let mut tail = Vec::new();
    if fam == Family::IPV4 {
        if let Nh::V4(a) = nh {
            put_attr(&mut pa, &wa(Attribute::NEXTHOP, a.octets().to_vec()));
        }
        tail.extend_from_slice(nlri_field);
    } else {
        let mut v = Vec::new();
        v.extend_from_slice(&fam.afi().to_be_bytes());
        v.push(fam.safi());
        let nb = nh_bytes(nh);
        if matches!(fam, Family::IPV4_VPN | Family::IPV6_VPN) {
            v.push(8 + nb.len() as u8);
            v.extend_from_slice(&[0u8; 8]);
            v.extend_from_slice(&nb);
        } else {
            v.push(nb.len() as u8);
            v.extend_from_slice(&nb);
        }
        v.push(0);
        v.extend_from_slice(nlri_field);
        let mut m = wa(Attribute::MP_REACH, v);
        m.force_ext = true;
        put_attr(&mut pa, &m);
    }
    let mut msg = vec![0xffu8; 16];
    let total = 19 + 2 + 2 + pa.len() + tail.len();
    msg.extend_from_slice(&(total as u16).to_be_bytes());
    msg.push(2);
    msg.extend_from_slice(&0u16.to_be_bytes());
    msg.extend_from_slice(&(pa.len() as u16).to_be_bytes());
    msg.extend_from_slice(&pa);
    msg.extend_from_slice(&tail);
    msg
}

fn new_codec(addpath: bool) -> bgp::PeerCodec {
    let mut c = bgp::PeerCodec::new();
    c.extended_length = true;
    for (f, _) in FAMILIES.iter() {
        c.set_family(
            *f,
            bgp::FamilyState {
                addpath_rx: addpath,
                addpath_tx: addpath,
            },
        );
    }
    c
}

struct Decoded {
    family: Family,
    entries: Vec<PathNlri>,
    nexthop: Option<bgp::Nexthop>,
    attrs: Vec<Attribute>,
    n_err: usize,
}

fn decode_update(codec: &mut bgp::PeerCodec, buf: &[u8]) -> Result<Decoded, String> {
    match guard(|| codec.parse_message(buf)) {
        Err(p) => Err(format!("decoder panic {} {}", p.location, p.message)),
        Ok(Err(n)) => Err(format!(
            "notification {}/{}",
            n.notification_code(),
            n.notification_subcode()
        )),
        Ok(Ok(bgp::ParsedMessage::Update(bgp::ParsedUpdate::Routes {
            reach,
            mp_reach,
            attrs,
            error_attrs,
            ..
        }))) => {
            let r = reach.or(mp_reach);
            match r {
                Some(r) => Ok(Decoded {
                    family: r.family,
                    entries: r.entries,
                    nexthop: r.nexthop,
                    attrs,
                    n_err: error_attrs.len(),
                }),
                None => Err("no reach".into()),
            }
        }
        Ok(Ok(_)) => Err("not a routes update".into()),
    }
}

fn base_wattrs(r: &mut Rng) -> Vec<WAttr> {
    vec![
        wa(Attribute::ORIGIN, vec![r.below(3) as u8]),
        wa(
            Attribute::AS_PATH,
            as_path_bytes(&[(2, vec![65001, 65002 + r.below(4) as u32])]),
        ),
    ]
}

fn as_path_bytes(segs: &[(u8, Vec<u32>)]) -> Vec<u8> {
    let mut b = Vec::new();
    for (t, asns) in segs {
        b.push(*t);
        b.push(asns.len() as u8);
        for a in asns {
            b.extend_from_slice(&a.to_be_bytes());
        }
    }
    b
}

// ------------------------------------------------------------------ attribute generators (wire side)

#[derive(Clone, Debug)]
struct GenAttr {
    w: WAttr,
    /// the value is in the canonical form a conforming sender produces (reserved
    /// fields zero, repo's own TLV order); only then byte equality is judged
    canon: bool,
    /// sub-kind for the signature
    sub: String,
}

fn ga(code: u8, val: Vec<u8>, canon: bool, sub: &str) -> GenAttr {
    GenAttr {
        w: wa(code, val),
        canon,
        sub: sub.to_string(),
    }
}

const ATTR_KINDS: [&str; 19] = [
    "malformed_tail",
    "origin",
    "as_path",
    "med",
    "local_pref",
    "atomic",
    "aggregator",
    "community",
    "originator",
    "cluster",
    "extcom",
    "extcom_multi",
    "large",
    "aigp",
    "prefix_sid",
    "tunnel",
    "ls",
    "opaque",
    "as_path_long",
];

fn gen_as_path(r: &mut Rng, long: bool) -> Vec<u8> {
    let nseg = if long { r.range(2, 4) } else { r.range(0, 4) };
    let mut segs = Vec::new();
    for _ in 0..nseg {
        let t = r.range(1, 4) as u8;
        let n = if long {
            *r.pick(&[200usize, 255, 130])
        } else {
            match r.below(12) {
                0 => 255,
                _ => r.range(1, 6) as usize,
            }
        };
        let asns: Vec<u32> = (0..n)
            .map(|_| match r.below(4) {
                0 => 65000 + r.below(10) as u32,
                1 => 23456,
                2 => 4_200_000_000 + r.below(100) as u32,
                _ => rnd_u32(r),
            })
            .collect();
        segs.push((t, asns));
    }
    as_path_bytes(&segs)
}

/// (type, subtype) pairs of extended communities worth distinguishing
const EXTCOM_TYPES: [(u8, u8); 40] = [
    (0x00, 0x02),
    (0x00, 0x03),
    (0x00, 0x05),
    (0x40, 0x04),
    (0x40, 0x02),
    (0x01, 0x02),
    (0x01, 0x03),
    (0x41, 0x02),
    (0x02, 0x02),
    (0x02, 0x03),
    (0x42, 0x02),
    (0x03, 0x0c),
    (0x03, 0x0b),
    (0x43, 0x00),
    (0x03, 0x0d),
    (0x06, 0x00),
    (0x06, 0x01),
    (0x06, 0x02),
    (0x06, 0x03),
    (0x06, 0x04),
    (0x0c, 0x00),
    (0x0c, 0x01),
    (0x4c, 0x00),
    (0x80, 0x06),
    (0x80, 0x07),
    (0x80, 0x08),
    (0x80, 0x09),
    (0x80, 0x0a),
    (0x81, 0x08),
    (0x81, 0x01),
    (0x82, 0x08),
    (0x82, 0x02),
    (0xc0, 0x06),
    (0xc0, 0x08),
    (0xc1, 0x08),
    (0xc2, 0x08),
    (0x08, 0x00),
    (0x0a, 0x01),
    (0x90, 0x00),
    (0x07, 0x01),
];

/// one extended community; returns (8 bytes, conformant)
fn gen_extcom(r: &mut Rng, t: u8, st: u8) -> ([u8; 8], bool) {
    let mut b = [0u8; 8];
    b[0] = t;
    b[1] = st;
    let rest = r.bytes(6);
    b[2..].copy_from_slice(&rest);
    let mut conformant = true;
    if t & 0xbf == 0x80 && (st == 0x07 || st == 0x09) {
        // traffic-action / traffic-marking: 5 reserved bytes + defined bits
        if r.chance(3, 4) {
            for x in b[2..7].iter_mut() {
                *x = 0;
            }
            b[7] &= if st == 0x07 { 0x03 } else { 0x3f };
        } else {
            conformant = false;
        }
    }
    (b, conformant)
}

fn tlv16(t: u16, v: &[u8]) -> Vec<u8> {
    let mut o = Vec::new();
    o.extend_from_slice(&t.to_be_bytes());
    o.extend_from_slice(&(v.len() as u16).to_be_bytes());
    o.extend_from_slice(v);
    o
}

fn tlv8_16(t: u8, v: &[u8]) -> Vec<u8> {
    let mut o = vec![t];
    o.extend_from_slice(&(v.len() as u16).to_be_bytes());
    o.extend_from_slice(v);
    o
}

fn tlv8_8(t: u8, v: &[u8]) -> Vec<u8> {
    let mut o = vec![t, v.len() as u8];
    o.extend_from_slice(v);
    o
}

fn sub_tlv_te(t: u8, v: &[u8]) -> Vec<u8> {
    if t >= 128 {
        tlv8_16(t, v)
    } else {
        tlv8_8(t, v)
    }
}

fn ascii_name(r: &mut Rng) -> Vec<u8> {
    let n = r.range(1, 12) as usize;
    (0..n).map(|_| b'a' + r.below(26) as u8).collect()
}

fn gen_prefix_sid(r: &mut Rng) -> GenAttr {
    match r.below(6) {
        0 => {
            // RFC 8669 Label-Index TLV
            let mut v = vec![0u8, 0, 0];
            v.extend_from_slice(&(r.next_u32() | 1).to_be_bytes());
            ga(Attribute::PREFIX_SID, tlv8_16(1, &v), true, "non-srv6-tlv")
        }
        1 => {
            // Label-Index + Originator SRGB
            let mut v = vec![0u8, 0, 0];
            v.extend_from_slice(&(r.next_u32() | 1).to_be_bytes());
            let mut out = tlv8_16(1, &v);
            let mut s = vec![0u8, 0];
            for _ in 0..r.range(1, 3) {
                s.extend_from_slice(&r.bytes(6));
            }
            out.extend_from_slice(&tlv8_16(3, &s));
            ga(Attribute::PREFIX_SID, out, true, "non-srv6-tlv")
        }
        k => {
            // RFC 9252 SRv6 L3 / L2 service TLV
            let l2 = k == 2;
            let with_struct = r.chance(3, 4);
            let sid_flags = if r.chance(1, 6) {
                r.below(256) as u8
            } else {
                0
            };
            let mut info = vec![0u8];
            info.extend_from_slice(&rnd_v6(r).octets());
            info.push(sid_flags);
            info.extend_from_slice(&(rnd_u16(r)).to_be_bytes());
            info.push(0);
            if with_struct {
                info.extend_from_slice(&tlv8_16(1, &r.bytes(6)));
            }
            let mut svc = vec![0u8];
            svc.extend_from_slice(&tlv8_16(1, &info));
            let canon = sid_flags == 0;
            ga(
                Attribute::PREFIX_SID,
                tlv8_16(if l2 { 6 } else { 5 }, &svc),
                canon,
                if l2 { "srv6-l2" } else { "srv6-l3" },
            )
        }
    }
}

fn gen_sr_policy_body(r: &mut Rng) -> Vec<u8> {
    // sub-TLVs in the order the repo's own encoder emits them
    let mut b = Vec::new();
    if r.chance(3, 4) {
        let mut v = vec![0u8, 0];
        v.extend_from_slice(&rnd_u32(r).to_be_bytes());
        b.extend_from_slice(&sub_tlv_te(12, &v));
    }
    match r.below(4) {
        0 => {
            let mut v = vec![(r.below(4) as u8) << 6, 0];
            v.extend_from_slice(&((r.below(1 << 20) as u32) << 12).to_be_bytes());
            b.extend_from_slice(&sub_tlv_te(13, &v));
        }
        1 => {
            let mut v = vec![(r.below(4) as u8) << 6, 0];
            v.extend_from_slice(&rnd_v6(r).octets());
            b.extend_from_slice(&sub_tlv_te(13, &v));
        }
        2 => {
            let mut v = vec![(r.below(8) as u8) << 5, 0];
            v.extend_from_slice(&rnd_v6(r).octets());
            v.extend_from_slice(&rnd_u16(r).to_be_bytes());
            v.extend_from_slice(&r.bytes(4));
            b.extend_from_slice(&sub_tlv_te(20, &v));
        }
        _ => {}
    }
    if r.chance(1, 3) {
        b.extend_from_slice(&sub_tlv_te(14, &[0, 0, r.range(1, 4) as u8]));
    }
    if r.chance(1, 3) {
        b.extend_from_slice(&sub_tlv_te(15, &[r.below(256) as u8, 0]));
    }
    if r.chance(1, 3) {
        let mut v = vec![0u8];
        v.extend_from_slice(&ascii_name(r));
        b.extend_from_slice(&sub_tlv_te(129, &v));
    }
    if r.chance(1, 3) {
        let mut v = vec![0u8];
        v.extend_from_slice(&ascii_name(r));
        b.extend_from_slice(&sub_tlv_te(130, &v));
    }
    for _ in 0..r.below(3) {
        let mut sl = vec![0u8];
        if r.chance(1, 2) {
            let mut v = vec![0u8, 0];
            v.extend_from_slice(&rnd_u32(r).to_be_bytes());
            sl.extend_from_slice(&tlv8_8(9, &v));
        }
        for _ in 0..r.below(4) {
            if r.bool() {
                let mut v = vec![(r.below(16) as u8) << 4, 0];
                v.extend_from_slice(&((r.below(1 << 20) as u32) << 12).to_be_bytes());
                sl.extend_from_slice(&tlv8_8(1, &v));
            } else {
                let with_eb = r.bool();
                let mut flags = (r.below(16) as u8) << 4;
                if with_eb {
                    flags |= 0x40;
                } else {
                    flags &= !0x40;
                }
                let mut v = vec![flags, 0];
                v.extend_from_slice(&rnd_v6(r).octets());
                if with_eb {
                    v.extend_from_slice(&rnd_u16(r).to_be_bytes());
                    v.extend_from_slice(&[0, 0]);
                    v.extend_from_slice(&r.bytes(4));
                }
                sl.extend_from_slice(&tlv8_8(13, &v));
            }
        }
        b.extend_from_slice(&sub_tlv_te(128, &sl));
    }
    b
}

/// unassigned sub-TLV types on both sides of the one-octet / two-octet length boundary of
/// RFC 9012 section 2 (types 0-127: one length octet, 128-255: two), appended to a
/// non SR-policy tunnel (seed C17-7: the boundary moved by one on the way back from the API)
fn push_boundary_sub_tlvs(r: &mut Rng, b: &mut Vec<u8>) {
    for _ in 0..r.below(3) {
        let t = *r.pick(&[126u8, 127, 128, 129, 200, 255]);
        let n = r.below(6) as usize;
        b.extend_from_slice(&sub_tlv_te(t, &r.bytes(n)));
    }
}

fn gen_tunnel_encap(r: &mut Rng) -> GenAttr {
    match r.below(4) {
        0 | 1 => ga(
            Attribute::TUNNEL_ENCAP,
            tlv16(15, &gen_sr_policy_body(r)),
            true,
            "sr-policy",
        ),
        2 => {
            // RFC 9012 VXLAN tunnel (type 8): encapsulation(1), color(4), egress endpoint(6), UDP port(8)
            let mut b = Vec::new();
            let mut enc = vec![0x80u8];
            enc.extend_from_slice(&r.bytes(3));
            enc.push(0);
            b.extend_from_slice(&sub_tlv_te(1, &enc[..4]));
            if r.bool() {
                let mut c = vec![0x03u8, 0x0b, 0, 0];
                c.extend_from_slice(&rnd_u32(r).to_be_bytes());
                b.extend_from_slice(&sub_tlv_te(4, &c));
            }
            let mut ep = vec![0u8, 0, 0, 0, 0, 1];
            ep.extend_from_slice(&rnd_v4(r).octets());
            b.extend_from_slice(&sub_tlv_te(6, &ep));
            if r.bool() {
                b.extend_from_slice(&sub_tlv_te(8, &rnd_u16(r).to_be_bytes()));
            }
            push_boundary_sub_tlvs(r, &mut b);
            ga(
                Attribute::TUNNEL_ENCAP,
                tlv16(8, &b),
                true,
                "non-sr-policy-tunnel",
            )
        }
        _ => {
            let t = *r.pick(&[1u16, 2, 7, 11, 13, 100]);
            let mut b = Vec::new();
            let mut ep = vec![0u8, 0, 0, 0, 0, 1];
            ep.extend_from_slice(&rnd_v4(r).octets());
            b.extend_from_slice(&sub_tlv_te(6, &ep));
            push_boundary_sub_tlvs(r, &mut b);
            ga(
                Attribute::TUNNEL_ENCAP,
                tlv16(t, &b),
                true,
                "non-sr-policy-tunnel",
            )
        }
    }
}

/// single-TLV BGP-LS attributes with non-zero canonical values
fn gen_ls_attr(r: &mut Rng) -> GenAttr {
    let nz32 = |r: &mut Rng| r.next_u32() | 1;
    let kinds: [u16; 27] = [
        1024, 1025, 1026, 1027, 1028, 1029, 1030, 1031, 1035, 1088, 1089, 1090, 1091, 1092, 1095,
        1096, 1097, 1098, 1099, 1101, 1102, 1103, 1114, 1115, 1116, 1152, 1158,
    ];
    let t = *r.pick(&kinds);
    let (v, canon): (Vec<u8>, bool) = match t {
        1024 => (vec![(r.range(1, 63) as u8) << 2], true),
        1025 | 1097 | 1027 => {
            let n = r.range(1, 8) as usize;
            (r.bytes(n), true)
        }
        1026 | 1098 => (ascii_name(r), true),
        1028 | 1030 => (Ipv4Addr::from(nz32(r)).octets().to_vec(), true),
        1029 | 1031 => (rnd_v6(r).octets().to_vec(), true),
        1035 => (vec![r.below(2) as u8, 128], true),
        1088 | 1092 => (nz32(r).to_be_bytes().to_vec(), true),
        1089 | 1090 => (
            (1_000_000.0f32 * (1 + r.below(100)) as f32)
                .to_bits()
                .to_be_bytes()
                .to_vec(),
            true,
        ),
        1091 => {
            let mut v = Vec::new();
            for i in 0..8 {
                v.extend_from_slice(&(1000.0f32 * (i + 1) as f32).to_bits().to_be_bytes());
            }
            (v, true)
        }
        1095 => match r.below(3) {
            0 => (vec![r.range(1, 63) as u8], true),
            1 => ((r.range(256, 65535) as u16).to_be_bytes().to_vec(), true),
            _ => (
                (r.range(65536, 0xff_ffff) as u32).to_be_bytes()[1..].to_vec(),
                true,
            ),
        },
        1096 => {
            let mut v = Vec::new();
            for _ in 0..r.range(1, 3) {
                v.extend_from_slice(&nz32(r).to_be_bytes());
            }
            (v, true)
        }
        1099 | 1101 | 1102 | 1103 => {
            // flags(V|L set => 3-byte label), weight, reserved(2), SID
            let label = r.bool();
            let flags = if label { 0xc0u8 } else { 0x00 } | if r.bool() { 0x10 } else { 0 };
            let mut v = vec![flags, r.below(256) as u8, 0, 0];
            if label {
                let raw = (r.range(16, (1 << 20) - 1) as u32) << 4;
                v.extend_from_slice(&raw.to_be_bytes()[1..]);
            } else {
                v.extend_from_slice(&nz32(r).to_be_bytes());
            }
            // Adj-SID: the schema has a bare `sr_adjacency_sid: u32` (no flags / weight): not judged
            (v, t != 1099)
        }
        1114 | 1116 => {
            let d = r.range(1, 0xff_ffff) as u32;
            let a = if t == 1114 && r.bool() { 0x80u8 } else { 0 };
            (vec![a, (d >> 16) as u8, (d >> 8) as u8, d as u8], true)
        }
        1115 => {
            let d = r.range(1, 0xff_fff0) as u32;
            let e = d + 5;
            (
                vec![
                    0,
                    (d >> 16) as u8,
                    (d >> 8) as u8,
                    d as u8,
                    0,
                    (e >> 16) as u8,
                    (e >> 8) as u8,
                    e as u8,
                ],
                true,
            )
        }
        1152 => (vec![(r.range(1, 15) as u8) << 4], true),
        1158 => {
            let mut v = vec![0x00u8, r.below(2) as u8, 0, 0];
            v.extend_from_slice(&nz32(r).to_be_bytes());
            (v, true)
        }
        _ => (r.bytes(4), false),
    };
    ga(Attribute::LS, tlv16(t, &v), canon, &format!("tlv{}", t))
}

fn gen_attr(kind: &str, r: &mut Rng) -> Vec<GenAttr> {
    match kind {
        "origin" => vec![ga(Attribute::ORIGIN, vec![r.below(3) as u8], true, "")],
        "as_path" => vec![ga(Attribute::AS_PATH, gen_as_path(r, false), true, "")],
        "as_path_long" => vec![ga(Attribute::AS_PATH, gen_as_path(r, true), true, "")],
        "med" => vec![ga(
            Attribute::MULTI_EXIT_DESC,
            rnd_u32(r).to_be_bytes().to_vec(),
            true,
            "",
        )],
        "local_pref" => vec![ga(
            Attribute::LOCAL_PREF,
            rnd_u32(r).to_be_bytes().to_vec(),
            true,
            "",
        )],
        "atomic" => vec![ga(Attribute::ATOMIC_AGGREGATE, vec![], true, "")],
        "aggregator" => {
            let mut v = Vec::new();
            v.extend_from_slice(&rnd_u32(r).to_be_bytes());
            v.extend_from_slice(&rnd_v4(r).octets());
            vec![ga(Attribute::AGGREGATOR, v, true, "")]
        }
        "community" => {
            let n = if r.chance(1, 20) { 80 } else { r.range(1, 6) };
            let mut v = Vec::new();
            for _ in 0..n {
                let c = match r.below(4) {
                    0 => 0xffff_ff01u32 + r.below(4) as u32,
                    1 => 0xffff_0006,
                    _ => rnd_u32(r),
                };
                v.extend_from_slice(&c.to_be_bytes());
            }
            vec![ga(Attribute::COMMUNITY, v, true, "")]
        }
        "originator" => vec![ga(
            Attribute::ORIGINATOR_ID,
            rnd_u32(r).to_be_bytes().to_vec(),
            true,
            "",
        )],
        "cluster" => {
            let mut v = Vec::new();
            for _ in 0..r.range(1, 4) {
                v.extend_from_slice(&rnd_u32(r).to_be_bytes());
            }
            vec![ga(Attribute::CLUSTER_LIST, v, true, "")]
        }
        "extcom" => {
            let (t, st) = if r.chance(9, 10) {
                *r.pick(&EXTCOM_TYPES)
            } else {
                (r.below(256) as u8, r.below(256) as u8)
            };
            let (b, conf) = gen_extcom(r, t, st);
            vec![ga(
                Attribute::EXTENDED_COMMUNITY,
                b.to_vec(),
                conf,
                &format!("{:02x}-{:02x}", t, st),
            )]
        }
        "extcom_multi" => {
            let mut v = Vec::new();
            let mut conf = true;
            for _ in 0..r.range(2, 5) {
                let (t, st) = *r.pick(&EXTCOM_TYPES);
                let (b, c) = gen_extcom(r, t, st);
                conf &= c;
                v.extend_from_slice(&b);
            }
            vec![ga(Attribute::EXTENDED_COMMUNITY, v, conf, "multi")]
        }
        "large" => {
            let mut v = Vec::new();
            for _ in 0..r.range(1, 4) {
                for _ in 0..3 {
                    v.extend_from_slice(&rnd_u32(r).to_be_bytes());
                }
            }
            vec![ga(Attribute::LARGE_COMMUNITY, v, true, "")]
        }
        "aigp" => {
            let mut v = vec![1u8, 0, 11];
            v.extend_from_slice(&r.next_u64().to_be_bytes());
            vec![ga(Attribute::AIGP, v, true, "")]
        }
        "malformed_tail" => vec![gen_malformed_tail(r)],
        "prefix_sid" => vec![gen_prefix_sid(r)],
        "tunnel" => vec![gen_tunnel_encap(r)],
        "ls" => vec![gen_ls_attr(r)],
        "opaque" => {
            let code = *r.pick(&[20u8, 22, 25, 30, 99, 128, 200, 255]);
            let partial = r.chance(1, 3);
            let n = r.range(0, 12) as usize;
            let mut g = ga(code, r.bytes(n), true, "");
            g.w.flags = if partial { 0xe0 } else { 0xc0 };
            vec![g]
        }
        _ => vec![],
    }
}

// ------------------------------------------------------------------ NLRI generators (typed -> wire -> decoded)

fn gen_rd(r: &mut Rng) -> packet::rd::RouteDistinguisher {
    use packet::rd::RouteDistinguisher as Rd;
    match r.below(3) {
        0 => Rd::TwoOctetAs {
            admin: rnd_u16(r),
            assigned: rnd_u32(r),
        },
        1 => Rd::Ipv4 {
            admin: rnd_v4(r),
            assigned: rnd_u16(r),
        },
        _ => Rd::FourOctetAs {
            admin: rnd_u32(r),
            assigned: rnd_u16(r),
        },
    }
}

fn gen_v4net(r: &mut Rng) -> bgp::Ipv4Net {
    bgp::Ipv4Net {
        addr: Ipv4Addr::from(r.next_u32()),
        mask: r.range(0, 32) as u8,
    }
}

fn gen_v6net(r: &mut Rng) -> bgp::Ipv6Net {
    bgp::Ipv6Net {
        addr: rnd_v6(r),
        mask: r.range(0, 128) as u8,
    }
}

fn gen_labels(r: &mut Rng, max: u64) -> packet::mpls::MplsLabelStack {
    use packet::mpls::{MplsLabel, MplsLabelStack};
    let n = r.range(1, max);
    MplsLabelStack::new(
        (0..n)
            .map(|_| {
                MplsLabel::new(match r.below(4) {
                    0 => 3,
                    1 => (1 << 20) - 1,
                    _ => r.below(1 << 20) as u32,
                })
            })
            .collect(),
    )
}

fn gen_ops(r: &mut Rng) -> Vec<packet::flowspec::Op> {
    let n = r.range(1, 3);
    (0..n)
        .map(|i| {
            let mut bits = (r.below(8) as u8) | if r.bool() { 0x40 } else { 0 };
            if i == n - 1 {
                bits |= 0x80;
            }
            let value = match r.below(5) {
                0 => r.below(256),
                1 => r.range(256, 65535),
                2 => r.range(65536, u32::MAX as u64),
                3 => r.next_u64() | (1 << 40),
                _ => *r.pick(&[0u64, 6, 17, 80, 443, 179]),
            };
            packet::flowspec::Op { bits, value }
        })
        .collect()
}

fn gen_fs_v4(r: &mut Rng) -> Vec<packet::flowspec::FlowspecV4Component> {
    use packet::flowspec::FlowspecV4Component as C;
    let mut types: Vec<u8> = (1..=12).collect();
    r.shuffle(&mut types);
    let n = r.range(1, 4) as usize;
    let mut ts: Vec<u8> = types[..n].to_vec();
    ts.sort();
    ts.into_iter()
        .map(|t| match t {
            1 => C::DstPrefix(gen_v4net(r)),
            2 => C::SrcPrefix(gen_v4net(r)),
            3 => C::Protocol(gen_ops(r)),
            4 => C::Port(gen_ops(r)),
            5 => C::DstPort(gen_ops(r)),
            6 => C::SrcPort(gen_ops(r)),
            7 => C::IcmpType(gen_ops(r)),
            8 => C::IcmpCode(gen_ops(r)),
            9 => C::TcpFlags(gen_ops(r)),
            10 => C::PacketLen(gen_ops(r)),
            11 => C::Dscp(gen_ops(r)),
            _ => C::Fragment(gen_ops(r)),
        })
        .collect()
}

fn gen_fs_v6(r: &mut Rng) -> Vec<packet::flowspec::FlowspecV6Component> {
    use packet::flowspec::FlowspecV6Component as C;
    let mut types: Vec<u8> = (1..=13).collect();
    r.shuffle(&mut types);
    let n = r.range(1, 4) as usize;
    let mut ts: Vec<u8> = types[..n].to_vec();
    ts.sort();
    ts.into_iter()
        .map(|t| match t {
            1 | 2 => {
                let prefix = gen_v6net(r);
                let offset = if prefix.mask > 0 && r.bool() {
                    r.below(prefix.mask as u64) as u8
                } else {
                    0
                };
                if t == 1 {
                    C::DstPrefix { prefix, offset }
                } else {
                    C::SrcPrefix { prefix, offset }
                }
            }
            3 => C::NextHeader(gen_ops(r)),
            4 => C::Port(gen_ops(r)),
            5 => C::DstPort(gen_ops(r)),
            6 => C::SrcPort(gen_ops(r)),
            7 => C::IcmpType(gen_ops(r)),
            8 => C::IcmpCode(gen_ops(r)),
            9 => C::TcpFlags(gen_ops(r)),
            10 => C::PacketLen(gen_ops(r)),
            11 => C::Dscp(gen_ops(r)),
            12 => C::Fragment(gen_ops(r)),
            _ => C::FlowLabel(gen_ops(r)),
        })
        .collect()
}

fn gen_esi(r: &mut Rng) -> packet::evpn::Esi {
    if r.chance(1, 3) {
        packet::evpn::Esi::ZERO
    } else {
        let mut b = [0u8; 10];
        b[0] = r.below(6) as u8;
        let rest = r.bytes(9);
        b[1..].copy_from_slice(&rest);
        packet::evpn::Esi(b)
    }
}

fn gen_ip(r: &mut Rng, v6: bool) -> IpAddr {
    if v6 {
        IpAddr::V6(rnd_v6(r))
    } else {
        IpAddr::V4(rnd_v4(r))
    }
}

fn gen_evpn(r: &mut Rng) -> (Nlri, &'static str) {
    use packet::evpn::*;
    let l24 = |r: &mut Rng| r.below(1 << 24) as u32;
    match r.below(5) {
        0 => (
            Nlri::Evpn(EvpnNlri::EthernetAutoDiscovery(
                EthernetAutoDiscoveryRoute {
                    rd: gen_rd(r),
                    esi: gen_esi(r),
                    etag: rnd_u32(r),
                    label: l24(r),
                },
            )),
            "type1",
        ),
        1 => {
            let ip = match r.below(3) {
                0 => None,
                1 => Some(gen_ip(r, false)),
                _ => Some(gen_ip(r, true)),
            };
            let mut mac = [0u8; 6];
            mac.copy_from_slice(&r.bytes(6));
            (
                Nlri::Evpn(EvpnNlri::MacIpAdvertisement(MacIpAdvertisement {
                    rd: gen_rd(r),
                    esi: gen_esi(r),
                    etag: rnd_u32(r),
                    mac,
                    ip,
                    label1: l24(r),
                    label2: if r.bool() { Some(l24(r)) } else { None },
                })),
                "type2",
            )
        }
        2 => (
            Nlri::Evpn(EvpnNlri::InclusiveMulticastEthernetTag(
                InclusiveMulticastEthernetTag {
                    rd: gen_rd(r),
                    etag: rnd_u32(r),
                    originating_router_ip: {
                        let v6 = r.bool();
                        gen_ip(r, v6)
                    },
                },
            )),
            "type3",
        ),
        3 => (
            Nlri::Evpn(EvpnNlri::EthernetSegment(EthernetSegmentRoute {
                rd: gen_rd(r),
                esi: gen_esi(r),
                originating_router_ip: {
                    let v6 = r.bool();
                    gen_ip(r, v6)
                },
            })),
            "type4",
        ),
        _ => {
            let v6 = r.bool();
            let gw = if r.chance(1, 3) {
                if v6 {
                    IpAddr::V6(Ipv6Addr::UNSPECIFIED)
                } else {
                    IpAddr::V4(Ipv4Addr::UNSPECIFIED)
                }
            } else {
                gen_ip(r, v6)
            };
            (
                Nlri::Evpn(EvpnNlri::EthernetIpPrefix(EthernetIpPrefixRoute {
                    rd: gen_rd(r),
                    esi: gen_esi(r),
                    etag: rnd_u32(r),
                    ip_prefix: gen_ip(r, v6),
                    prefix_len: r.range(0, if v6 { 128 } else { 32 }) as u8,
                    gateway_ip: gw,
                    label: l24(r),
                })),
                "type5",
            )
        }
    }
}

fn gen_mup(fam: Family, r: &mut Rng) -> (Nlri, &'static str) {
    use packet::mup::*;
    let v6 = fam == Family::IPV6_MUP;
    let maxbits = if v6 { 128 } else { 32 };
    let masked = |r: &mut Rng, len: u8| -> IpAddr {
        // the wire carries ceil(len/8) bytes only
        let nbytes = (len as usize).div_ceil(8);
        if v6 {
            let mut o = rnd_v6(r).octets();
            for b in o[nbytes..].iter_mut() {
                *b = 0;
            }
            IpAddr::V6(Ipv6Addr::from(o))
        } else {
            let mut o = rnd_v4(r).octets();
            for b in o[nbytes..].iter_mut() {
                *b = 0;
            }
            IpAddr::V4(Ipv4Addr::from(o))
        }
    };
    match r.below(4) {
        0 => {
            let len = r.range(0, maxbits) as u8;
            (
                Nlri::Mup(MupNlri::InterworkSegmentDiscovery(
                    MupInterworkSegmentDiscoveryRoute {
                        rd: gen_rd(r),
                        prefix_addr: masked(r, len),
                        prefix_len: len,
                    },
                )),
                "isd",
            )
        }
        1 => (
            Nlri::Mup(MupNlri::DirectSegmentDiscovery(
                MupDirectSegmentDiscoveryRoute {
                    rd: gen_rd(r),
                    address: gen_ip(r, v6),
                },
            )),
            "dsd",
        ),
        2 => {
            let len = r.range(0, maxbits) as u8;
            (
                Nlri::Mup(MupNlri::Type1SessionTransformed(
                    MupType1SessionTransformedRoute {
                        rd: gen_rd(r),
                        prefix_addr: masked(r, len),
                        prefix_len: len,
                        teid: rnd_u32(r),
                        qfi: r.below(64) as u8,
                        endpoint_address: gen_ip(r, v6),
                        source_address: if r.bool() { Some(gen_ip(r, v6)) } else { None },
                    },
                )),
                "t1st",
            )
        }
        _ => {
            let teid_bits = *r.pick(&[0u8, 8, 16, 24, 32, 12]);
            let teid = if teid_bits == 0 {
                0
            } else {
                let nbytes = (teid_bits as u32).div_ceil(8);
                (r.next_u32() >> (32 - 8 * nbytes)) << (32 - 8 * nbytes)
            };
            (
                Nlri::Mup(MupNlri::Type2SessionTransformed(
                    MupType2SessionTransformedRoute {
                        rd: gen_rd(r),
                        endpoint_address_length: maxbits as u8 + teid_bits,
                        endpoint_address: gen_ip(r, v6),
                        teid,
                    },
                )),
                "t2st",
            )
        }
    }
}

fn gen_node_desc(
    r: &mut Rng,
    representable: &mut bool,
    feature: &mut &'static str,
) -> packet::ls::NodeDescriptor {
    let nz = |r: &mut Rng| Some(r.next_u32() | 1);
    let mut nd = packet::ls::NodeDescriptor::default();
    if r.chance(3, 4) {
        nd.asn = nz(r);
    }
    if r.bool() {
        nd.bgp_ls_id = nz(r);
    }
    if r.bool() {
        nd.ospf_area_id = nz(r);
    }
    match r.below(5) {
        0 => {}
        1 => nd.igp_router_id = Some(Ipv4Addr::from(r.next_u32() | 1).octets().to_vec()),
        2 => nd.igp_router_id = Some(r.bytes(6)),
        3 => nd.igp_router_id = Some(r.bytes(7)),
        _ => {
            // OSPF pseudonode (8 bytes): representable only if the API keeps 8-byte ids
            nd.igp_router_id = Some(r.bytes(8));
            *feature = "igp-router-id-8-octets";
        }
    }
    if r.bool() {
        nd.bgp_router_id = Some(Ipv4Addr::from(r.next_u32() | 1).octets());
    }
    if r.chance(1, 4) {
        nd.bgp_confederation_member = nz(r);
    }
    if r.chance(1, 12) {
        // explicit zero: the API's plain integers cannot tell it from "absent"
        nd.asn = Some(0);
        *representable = false;
    }
    nd
}

fn gen_ls_nlri(r: &mut Rng) -> (Nlri, &'static str, bool) {
    use packet::ls::*;
    let mut rep = true;
    let mut feat: &'static str = "";
    let protocol_id = r.range(1, 7) as u8;
    let identifier = if r.bool() { r.below(8) } else { r.next_u64() };
    match r.below(5) {
        0 => (
            Nlri::Ls(BgpLsNlri::Node(BgpLsNodeNlri {
                protocol_id,
                identifier,
                local_node: gen_node_desc(r, &mut rep, &mut feat),
            })),
            if feat.is_empty() { "node" } else { feat },
            rep,
        ),
        1 => {
            let mut link_desc = Vec::new();
            if r.bool() {
                link_desc.push(LinkDescTlv::LinkId {
                    local: r.next_u32() | 1,
                    remote: r.next_u32() | 1,
                });
            }
            if r.bool() {
                link_desc.push(LinkDescTlv::Ipv4InterfaceAddr(rnd_v4(r).octets()));
            }
            if r.bool() {
                link_desc.push(LinkDescTlv::Ipv4NeighborAddr(rnd_v4(r).octets()));
            }
            if r.chance(1, 3) {
                link_desc.push(LinkDescTlv::Ipv6InterfaceAddr(rnd_v6(r).octets()));
            }
            if r.chance(1, 3) {
                link_desc.push(LinkDescTlv::Ipv6NeighborAddr(rnd_v6(r).octets()));
            }
            if r.chance(1, 8) {
                link_desc.push(LinkDescTlv::MultiTopoId(vec![r.below(4096) as u16]));
                rep = false; // no field in the API schema
            }
            (
                Nlri::Ls(BgpLsNlri::Link(BgpLsLinkNlri {
                    protocol_id,
                    identifier,
                    local_node: gen_node_desc(r, &mut rep, &mut feat),
                    remote_node: gen_node_desc(r, &mut rep, &mut feat),
                    link_desc,
                })),
                if feat.is_empty() { "link" } else { feat },
                rep,
            )
        }
        2 | 3 => {
            let v6 = r.bool();
            let mut prefix_desc = Vec::new();
            if r.chance(1, 3) {
                prefix_desc.push(PrefixDescTlv::OspfRouteType(r.range(1, 6) as u8));
            }
            let len = r.range(0, if v6 { 128 } else { 32 }) as u8;
            let nbytes = (len as usize).div_ceil(8);
            let addr = if v6 {
                rnd_v6(r).octets()[..nbytes].to_vec()
            } else {
                rnd_v4(r).octets()[..nbytes].to_vec()
            };
            prefix_desc.push(PrefixDescTlv::IpReachability {
                prefix_len: len,
                addr,
            });
            let p = BgpLsPrefixNlri {
                protocol_id,
                identifier,
                local_node: gen_node_desc(r, &mut rep, &mut feat),
                prefix_desc,
            };
            if v6 {
                (
                    Nlri::Ls(BgpLsNlri::PrefixV6(p)),
                    if feat.is_empty() { "prefix-v6" } else { feat },
                    rep,
                )
            } else {
                (
                    Nlri::Ls(BgpLsNlri::PrefixV4(p)),
                    if feat.is_empty() { "prefix-v4" } else { feat },
                    rep,
                )
            }
        }
        _ => {
            let n = r.range(1, 2) as usize;
            let sids: Vec<[u8; 16]> = (0..n).map(|_| rnd_v6(r).octets()).collect();
            let multi_topo_ids: Vec<u16> = (0..n).map(|_| r.below(4096) as u16).collect();
            (
                Nlri::Ls(BgpLsNlri::Srv6Sid(BgpLsSrv6SidNlri {
                    protocol_id,
                    identifier,
                    local_node: gen_node_desc(r, &mut rep, &mut feat),
                    sids,
                    multi_topo_ids,
                })),
                if feat.is_empty() { "srv6-sid" } else { feat },
                rep,
            )
        }
    }
}

/// Returns (typed NLRI, sub-kind for the signature, judged)
fn gen_nlri(fam: Family, r: &mut Rng) -> (Nlri, String, bool) {
    use packet::flowspec::*;
    match fam {
        Family::IPV4 | Family::IPV4_MC => (Nlri::V4(gen_v4net(r)), String::new(), true),
        Family::IPV6 | Family::IPV6_MC => (Nlri::V6(gen_v6net(r)), String::new(), true),
        Family::IPV4_MPLS => (
            Nlri::LabeledV4(packet::labeled::LabeledV4Nlri {
                labels: gen_labels(r, 3),
                prefix: gen_v4net(r),
            }),
            String::new(),
            true,
        ),
        Family::IPV6_MPLS => (
            Nlri::LabeledV6(packet::labeled::LabeledV6Nlri {
                labels: gen_labels(r, 3),
                prefix: gen_v6net(r),
            }),
            String::new(),
            true,
        ),
        Family::IPV4_VPN => (
            Nlri::VpnV4(packet::vpn::VpnV4Nlri {
                labels: gen_labels(r, 2),
                rd: gen_rd(r),
                prefix: gen_v4net(r),
            }),
            String::new(),
            true,
        ),
        Family::IPV6_VPN => (
            Nlri::VpnV6(packet::vpn::VpnV6Nlri {
                labels: gen_labels(r, 2),
                rd: gen_rd(r),
                prefix: gen_v6net(r),
            }),
            String::new(),
            true,
        ),
        Family::IPV4_FLOWSPEC => (
            Nlri::FlowspecV4(FlowspecV4Nlri {
                components: gen_fs_v4(r),
            }),
            String::new(),
            true,
        ),
        Family::IPV6_FLOWSPEC => (
            Nlri::FlowspecV6(FlowspecV6Nlri {
                components: gen_fs_v6(r),
            }),
            String::new(),
            true,
        ),
        Family::IPV4_FLOWSPEC_VPN => (
            Nlri::FlowspecVpnV4(FlowspecVpnV4Nlri {
                rd: gen_rd(r),
                components: gen_fs_v4(r),
            }),
            String::new(),
            true,
        ),
        Family::IPV6_FLOWSPEC_VPN => (
            Nlri::FlowspecVpnV6(FlowspecVpnV6Nlri {
                rd: gen_rd(r),
                components: gen_fs_v6(r),
            }),
            String::new(),
            true,
        ),
        Family::L2VPN_EVPN => {
            let (n, k) = gen_evpn(r);
            (n, k.to_string(), true)
        }
        Family::RTC => {
            use packet::rtc::{MatchType, RtcNlri};
            match r.below(4) {
                0 => (
                    Nlri::Rtc(RtcNlri {
                        match_type: MatchType::Wildcard,
                    }),
                    "wildcard".into(),
                    true,
                ),
                1 => (
                    Nlri::Rtc(RtcNlri {
                        match_type: MatchType::AsWildcard {
                            origin_as: r.next_u32() | 1,
                        },
                    }),
                    "as-wildcard".into(),
                    true,
                ),
                k => {
                    let mut rt = [0u8; 8];
                    rt.copy_from_slice(&r.bytes(8));
                    let is_rt = k == 2;
                    if is_rt {
                        rt[0] = r.below(3) as u8;
                        rt[1] = 0x02;
                    }
                    // a route-target field that is not an RT extended community
                    // (other type / sub-type) has no form in api::RouteTarget: not judged
                    let judged = rt[0] <= 2 && rt[1] == 0x02;
                    (
                        Nlri::Rtc(RtcNlri {
                            match_type: MatchType::ExactMatch {
                                origin_as: rnd_u32(r),
                                route_target: rt,
                            },
                        }),
                        "exact".into(),
                        judged,
                    )
                }
            }
        }
        Family::IPV4_SRPOLICY | Family::IPV6_SRPOLICY => (
            Nlri::SrPolicy(packet::sr_policy::SrPolicyNlri {
                distinguisher: rnd_u32(r),
                color: rnd_u32(r),
                endpoint: gen_ip(r, fam == Family::IPV6_SRPOLICY),
            }),
            String::new(),
            true,
        ),
        Family::IPV4_MUP | Family::IPV6_MUP => {
            let (n, k) = gen_mup(fam, r);
            (n, k.to_string(), true)
        }
        Family::LS => {
            let (n, k, j) = gen_ls_nlri(r);
            (n, k.to_string(), j)
        }
        _ => (Nlri::V4(gen_v4net(r)), String::new(), false),
    }
}

/// typed NLRI -> wire UPDATE -> decoded by the real PeerCodec
fn wire_nlri(
    codec: &mut bgp::PeerCodec,
    addpath: bool,
    fam: Family,
    n: &Nlri,
    path_id: u32,
    nh: &Nh,
    attrs: &[WAttr],
) -> Result<(Decoded, Vec<u8>), String> {
    let mut field = Vec::new();
    if addpath {
        field.extend_from_slice(&path_id.to_be_bytes());
    }
    let nb = match guard(|| n.encode_to_bytes()) {
        Ok(b) => b,
        Err(p) => return Err(format!("nlri encoder panic {}", p.location)),
    };
    field.extend_from_slice(&nb);
    let msg = build_update(fam, nh, &field, attrs);
    if msg.len() > 65535 {
        return Err("too long".into());
    }
    decode_update(codec, &msg).map(|d| (d, msg))
}

// ------------------------------------------------------------------ context

struct Ctx {
    rep: Report,
    codec: bgp::PeerCodec,
    codec_ap: bgp::PeerCodec,
    srcs: Vec<Arc<table::Source>>,
    policy: Arc<table::PolicyAssignment>,
    export_policy: Arc<table::PolicyAssignment>,
    rpki: table::RpkiTable,
}

const LOCAL_AS: u32 = 65000;

fn mk_source(i: u8, role: PeerRole, remote_as: u32) -> Arc<table::Source> {
    Arc::new(table::Source::new(
        IpAddr::V4(Ipv4Addr::new(192, 0, 2, i)),
        IpAddr::V4(Ipv4Addr::new(192, 0, 2, 254)),
        remote_as,
        LOCAL_AS,
        Ipv4Addr::new(1, 1, 1, i),
        role,
    ))
}

/// A policy whose statements each carry ONE condition (so every condition is
/// evaluated on every route) and pass on; two of them also run actions.
fn build_policy(dir: table::PolicyDirection) -> Arc<table::PolicyAssignment> {
    use table::{Actions, Comparison, ConditionConfig as CC, DefinedSetConfig, MatchOption};
    let mut pt = table::PolicyTable::new();
    pt.add_defined_set(DefinedSetConfig::Community {
        name: "cs".into(),
        patterns: vec!["^65000:.*$".into(), "no-export".into()],
    })
    .expect("community set");
    pt.add_defined_set(DefinedSetConfig::AsPath {
        name: "as".into(),
        patterns: vec![
            "_65001_".into(),
            "^65001_".into(),
            "_65003$".into(),
            "^65001$".into(),
        ],
    })
    .expect("as-path set");
    pt.add_defined_set(DefinedSetConfig::ExtCommunity {
        name: "es".into(),
        patterns: vec!["^rt:65000:.*$".into()],
    })
    .expect("ext-community set");
    pt.add_defined_set(DefinedSetConfig::LargeCommunity {
        name: "ls".into(),
        patterns: vec!["^65000:.*:.*$".into()],
    })
    .expect("large-community set");
    let conds: Vec<(&str, CC, Actions)> = vec![
        (
            "aspl-ge",
            CC::AsPathLength(Comparison::Ge, 3),
            Actions::default(),
        ),
        (
            "aspl-le",
            CC::AsPathLength(Comparison::Le, 300),
            Actions::default(),
        ),
        ("origin0", CC::Origin(0), Actions::default()),
        ("origin2", CC::Origin(2), Actions::default()),
        ("lp", CC::LocalPrefEq(100), Actions::default()),
        ("med", CC::MedEq(0), Actions::default()),
        (
            "comm",
            CC::CommunitySet("cs".into(), MatchOption::Any),
            Actions::default(),
        ),
        (
            "commcnt",
            CC::CommunityCount(Comparison::Ge, 1),
            Actions::default(),
        ),
        (
            "aspath",
            CC::AsPathSet("as".into(), MatchOption::Any),
            Actions::default(),
        ),
        (
            "ext",
            CC::ExtCommunitySet("es".into(), MatchOption::Any),
            Actions::default(),
        ),
        (
            "large",
            CC::LargeCommunitySet("ls".into(), MatchOption::Any),
            Actions::default(),
        ),
        (
            "act1",
            CC::AsPathLength(Comparison::Ge, 0),
            Actions {
                community: Some(table::CommunityAction {
                    action_type: table::CommunityActionType::Add,
                    communities: vec![(65000 << 16) | 1],
                }),
                med: Some(table::MedAction {
                    action_type: table::MedActionType::Mod,
                    value: 5,
                }),
                as_prepend: Some(table::AsPrependAction {
                    asn: 65009,
                    repeat: 2,
                    use_left_most: true,
                }),
                ..Default::default()
            },
        ),
        (
            "act2",
            CC::CommunityCount(Comparison::Ge, 0),
            Actions {
                ext_community: Some(table::ExtCommunityAction {
                    action_type: table::CommunityActionType::Add,
                    communities: vec![[0, 2, 0xfd, 0xe8, 0, 0, 0, 1]],
                }),
                large_community: Some(table::LargeCommunityAction {
                    action_type: table::CommunityActionType::Add,
                    communities: vec![(65000, 1, 2)],
                }),
                ..Default::default()
            },
        ),
    ];
    let mut names = Vec::new();
    for (n, c, a) in conds {
        pt.add_statement(n, vec![c], None, a)
            .expect("add_statement");
        names.push(n.to_string());
    }
    pt.add_policy("p", names).expect("add_policy");
    pt.build_assignment(None, "a", dir, table::Disposition::Accept, vec!["p".into()])
        .expect("build_assignment")
}

impl Ctx {
    fn new(params: &Params) -> Ctx {
        let mut rpki = table::RpkiTable::new();
        rpki.insert(
            packet::IpNet::new(IpAddr::V4(Ipv4Addr::new(10, 0, 0, 0)), 8),
            Arc::new(table::Roa::new(
                24,
                65001,
                Arc::new(IpAddr::V4(Ipv4Addr::new(198, 51, 100, 1))),
            )),
        );
        Ctx {
            rep: Report::new("C17", params),
            codec: new_codec(false),
            codec_ap: new_codec(true),
            srcs: vec![
                mk_source(1, PeerRole::Ibgp, LOCAL_AS),
                mk_source(2, PeerRole::Ibgp, LOCAL_AS),
                mk_source(3, PeerRole::Ibgp, LOCAL_AS),
                mk_source(4, PeerRole::Ebgp, 65001),
            ],
            policy: build_policy(table::PolicyDirection::Import),
            export_policy: build_policy(table::PolicyDirection::Export),
            rpki,
        }
    }

    fn panic_violation(&mut self, stage: &str, p: &PanicInfo, witness: Json) {
        let sig = format!("C17/panic/{}:{}", p.location, panic_class(&p.message));
        self.rep.violation(
            &sig,
            &format!(
                "{} panicked at {}: {}",
                stage,
                p.location,
                trunc(p.message.clone())
            ),
            witness,
        );
    }
}

// ------------------------------------------------------------------ (a) round trip

/// Is `b` the same attribute content as `a`?  Strict equality first; then
/// equality modulo the flag bits that carry no content (extended-length and
/// the four unused low bits).  Returns (equal, note).
fn attr_same(a: &Attribute, b: &Attribute) -> (bool, &'static str) {
    if a == b {
        return (true, "strict");
    }
    if a.code() == b.code()
        && attr_bytes(a) == attr_bytes(b)
        && a.value().is_some() == b.value().is_some()
    {
        if (a.flags() ^ b.flags()) & 0xe0 == 0 {
            return (true, "flags-repr");
        }
        if (a.flags() ^ b.flags()) & 0xc0 == 0 {
            return (false, "partial-bit");
        }
        return (false, "flags");
    }
    (false, "value")
}

/// classify an EXT_COMMUNITY difference: returns the sub-signature
fn extcom_diff(orig: &[u8], back: &[u8]) -> String {
    if orig.len() != back.len() {
        return "length".into();
    }
    for (o, b) in orig.chunks(8).zip(back.chunks(8)) {
        if o != b {
            if o.len() == 8 && o[1..] == b[1..] && (o[0] ^ b[0]) == 0x40 {
                return "nontransitive-bit-lost".into();
            }
            return format!("{:02x}-{:02x}", o[0], o.get(1).copied().unwrap_or(0));
        }
    }
    "?".into()
}

fn roundtrip_attr(ctx: &mut Ctx, a: &Attribute, g: Option<&GenAttr>, origin: &str, wire_hex: &str) {
    ctx.rep.eval();
    let code = a.code();
    let label = attr_code_label(code);
    ctx.rep.count(&format!("rt:attr:{}", label));
    ctx.rep.nontrivial(fnv64(
        format!("attr|{}|{}|{}", code, a.flags(), hex(&attr_bytes(a))).as_bytes(),
    ));
    let sub = g.map(|g| g.sub.clone()).unwrap_or_default();
    let canon = g.map(|g| g.canon).unwrap_or(true);
    let wit = |api: &str, back: &str| {
        Json::obj(vec![
            ("origin", Json::s(origin)),
            ("internal", Json::s(attr_dbg(a))),
            ("wire_update_hex", Json::s(trunc(wire_hex.to_string()))),
            ("api", Json::s(trunc(api.to_string()))),
            ("back", Json::s(back)),
        ])
    };
    let api = match guard(|| attr_to_api(a)) {
        Ok(x) => x,
        Err(p) => {
            let w = wit("", "");
            ctx.panic_violation("attr_to_api", &p, w);
            return;
        }
    };
    let api_s = format!("{:?}", api);
    let back = match guard(|| attr_from_api(api.clone())) {
        Ok(x) => x,
        Err(p) => {
            let w = wit(&api_s, "");
            ctx.panic_violation("attr_from_api(attr_to_api(a))", &p, w);
            return;
        }
    };
    let mk_sig = |subsig: &str| {
        if subsig.is_empty() {
            format!("C17/roundtrip/attr/{}", label)
        } else {
            format!("C17/roundtrip/attr/{}/{}", label, subsig)
        }
    };
    match back {
        Err(e) => {
            if !canon {
                ctx.rep
                    .count(&format!("unjudged:noncanonical-input/attr/{}", label));
                return;
            }
            let w = wit(&api_s, &format!("Err({:?})", e));
            ctx.rep.violation(
                &mk_sig(&sub),
                &format!(
                    "attribute {} decoded from the wire converts to the API form but attr_from_api rejects that form",
                    label
                ),
                w,
            );
        }
        Ok(b) => {
            let (same, note) = attr_same(a, &b);
            if same {
                ctx.rep.count(&format!("rt:ok:{}", note));
                return;
            }
            if note == "partial-bit" {
                // the PARTIAL bit of a recognised attribute has no field in the API schema
                ctx.rep.count("unjudged:partial-bit-not-in-schema");
                if Attribute::canonical_flags(code).is_some() {
                    return;
                }
            }
            if !canon {
                ctx.rep
                    .count(&format!("unjudged:noncanonical-input/attr/{}", label));
                return;
            }
            let subsig = if code == Attribute::EXTENDED_COMMUNITY {
                extcom_diff(&attr_bytes(a), &attr_bytes(&b))
            } else {
                sub.clone()
            };
            let w = wit(&api_s, &attr_dbg(&b));
            ctx.rep.violation(
                &mk_sig(&subsig),
                &format!(
                    "attribute {} changes on attr_to_api -> attr_from_api ({})",
                    label, note
                ),
                w,
            );
        }
    }
}

fn nlri_dbg(n: &Nlri) -> String {
    trunc(format!("{:?}", n))
}

fn roundtrip_nlri(ctx: &mut Ctx, fam: Family, n: &Nlri, sub: &str, judged: bool, wire_hex: &str) {
    ctx.rep.eval();
    let fname = fam_name(fam);
    ctx.rep.count(&format!("rt:nlri:{}", fname));
    ctx.rep.nontrivial(fnv64(
        format!("nlri|{}|{}", fname, hex(&n.encode_to_bytes())).as_bytes(),
    ));
    let sig = if sub.is_empty() {
        format!("C17/roundtrip/nlri/{}", fname)
    } else {
        format!("C17/roundtrip/nlri/{}/{}", fname, sub)
    };
    let wit = |api: &str, back: &str| {
        Json::obj(vec![
            ("family", Json::s(fname.clone())),
            ("internal", Json::s(nlri_dbg(n))),
            ("wire_update_hex", Json::s(trunc(wire_hex.to_string()))),
            ("api", Json::s(trunc(api.to_string()))),
            ("back", Json::s(back)),
        ])
    };
    let api = match guard(|| nlri_to_api(n)) {
        Ok(x) => x,
        Err(p) => {
            let w = wit("", "");
            ctx.panic_violation("nlri_to_api", &p, w);
            return;
        }
    };
    let api_s = format!("{:?}", api);
    match guard(|| net_from_api(api.clone(), fam)) {
        Err(p) => {
            let w = wit(&api_s, "");
            ctx.panic_violation("net_from_api(nlri_to_api(n))", &p, w);
        }
        Ok(Ok(b)) if &b == n => ctx.rep.count("rt:ok:nlri"),
        Ok(r) => {
            if !judged {
                ctx.rep.count(&format!(
                    "unjudged:not-representable-in-schema/nlri/{}",
                    fname
                ));
                return;
            }
            let (what, back) = match r {
                Ok(b) => ("changes on nlri_to_api -> net_from_api", nlri_dbg(&b)),
                Err(e) => (
                    "is rejected by net_from_api after nlri_to_api",
                    format!("Err({:?})", e),
                ),
            };
            let w = wit(&api_s, &back);
            ctx.rep.violation(
                &sig,
                &format!("{} NLRI decoded from the wire {}", fname, what),
                w,
            );
        }
    }
}

/// one generated UPDATE: family + NLRI (+ path id) + base attrs + the generated attributes
fn part_a_case(ctx: &mut Ctx, r: &mut Rng, fam: Family, kind: &str) {
    let gens = gen_attr(kind, r);
    let mut wattrs = Vec::new();
    let has = |gens: &Vec<GenAttr>, c: u8| gens.iter().any(|g| g.w.code == c);
    for b in base_wattrs(r) {
        if !has(&gens, b.code) {
            wattrs.push(b);
        }
    }
    for g in &gens {
        let mut w = g.w.clone();
        if r.chance(1, 10) {
            w.force_ext = true;
        }
        wattrs.push(w);
    }
    let (n, nsub, njudged) = gen_nlri(fam, r);
    let addpath = r.chance(1, 3);
    let path_id = if addpath { rnd_u32(r) } else { 0 };
    let nh = gen_nh(fam, r);
    let res = if addpath {
        let mut c = std::mem::replace(&mut ctx.codec_ap, bgp::PeerCodec::new());
        let x = wire_nlri(&mut c, true, fam, &n, path_id, &nh, &wattrs);
        ctx.codec_ap = c;
        x
    } else {
        let mut c = std::mem::replace(&mut ctx.codec, bgp::PeerCodec::new());
        let x = wire_nlri(&mut c, false, fam, &n, path_id, &nh, &wattrs);
        ctx.codec = c;
        x
    };
    let (d, msg) = match res {
        Ok(x) => x,
        Err(e) => {
            ctx.rep.count("gen:wire-rejected");
            ctx.rep
                .count(&format!("gen:wire-rejected:{}:{}", fam_name(fam), kind));
            return;
        }
    };
    if d.n_err > 0 || d.entries.len() != 1 || d.family != fam {
        ctx.rep.count("gen:wire-attr-error");
        ctx.rep.count(&format!("gen:wire-attr-error:{}", kind));
        return;
    }
    ctx.rep.count(&format!("updates:{}", fam_name(fam)));
    let wire_hex = hex(&msg);
    if d.entries[0].nlri != n {
        ctx.rep.count("gen:decoded-nlri-differs-from-typed");
    }
    if addpath && d.entries[0].path_id != path_id {
        ctx.rep.count("gen:decoded-path-id-differs");
    }
    roundtrip_nlri(ctx, fam, &d.entries[0].nlri, &nsub, njudged, &wire_hex);
    for a in d.attrs.iter() {
        let g = gens.iter().find(|g| g.w.code == a.code());
        roundtrip_attr(ctx, a, g, "decoded-from-wire", &wire_hex);
        if let Some(g) = g {
            if let Some(name) = g.sub.strip_prefix("malformed-tail/") {
                // the wire decoder accepted the attribute and it went through the round trip
                ctx.rep.count(&format!("roundtrip:{}:wellformed-prefix+malformed-tail", name));
            }
        }
    }
    // next hop (NEXT_HOP attribute / MP_REACH-derived): the only API form is a
    // NextHop / MpReach attribute built from it
    if let Some(nhv) = d.nexthop {
        let bytes = match nhv {
            bgp::Nexthop::V4(a) => a.octets().to_vec(),
            bgp::Nexthop::V6(a) => a.octets().to_vec(),
            bgp::Nexthop::V6LinkLocal(a, _) => a.octets().to_vec(),
        };
        if let Some(a) = Attribute::new_with_bin(Attribute::NEXTHOP, bytes) {
            roundtrip_attr(
                ctx,
                &a,
                None,
                "NEXT_HOP/MP_REACH next hop decoded from the wire",
                &wire_hex,
            );
        }
        // MP_REACH attribute in the internal layout the daemon uses for API input
        if fam != Family::IPV4 {
            let mut v = Vec::new();
            v.extend_from_slice(&fam.afi().to_be_bytes());
            v.push(fam.safi());
            let nb = nhv.to_bytes();
            v.push(nb.len() as u8);
            v.extend_from_slice(&nb);
            v.push(0);
            if let Some(a) = Attribute::new_with_bin(Attribute::MP_REACH, v) {
                roundtrip_attr(
                    ctx,
                    &a,
                    None,
                    "MP_REACH (daemon-internal layout)",
                    &wire_hex,
                );
            }
        }
    }
    if ctx.rep.want_sample() && ctx.rep.evaluations % 211 == 5 {
        ctx.rep.sample(Json::obj(vec![
            ("part", Json::s("a")),
            ("family", Json::s(fam_name(fam))),
            ("attr_kind", Json::s(kind)),
            ("update_hex", Json::s(trunc(wire_hex))),
            ("nlri", Json::s(nlri_dbg(&d.entries[0].nlri))),
        ]));
    }
}

/// AS4_PATH / AS4_AGGREGATOR never survive wire decoding (discarded between NEW
/// speakers, merged for OLD ones); they can only be held after API input.  Round
/// trip of directly constructed values is evaluated but kept apart.
fn part_a_constructed(ctx: &mut Ctx, r: &mut Rng) {
    let segs = vec![(2u8, vec![65001u32, 4_200_000_001]), (1u8, vec![7, 8])];
    if let Some(a) = Attribute::new_with_bin(Attribute::AS4_PATH, as_path_bytes(&segs)) {
        roundtrip_attr(
            ctx,
            &a,
            None,
            "constructed (AS4_PATH cannot be obtained from the wire decoder)",
            "",
        );
    }
    let mut v = rnd_u32(r).to_be_bytes().to_vec();
    v.extend_from_slice(&rnd_v4(r).octets());
    if let Some(a) = Attribute::new_with_bin(Attribute::AS4_AGGREGATOR, v) {
        roundtrip_attr(
            ctx,
            &a,
            None,
            "constructed (AS4_AGGREGATOR cannot be obtained from the wire decoder)",
            "",
        );
    }
}

fn run_part_a(ctx: &mut Ctx, r: &mut Rng, rounds: u64) {
    for round in 0..rounds {
        if !ctx.rep.in_budget() {
            break;
        }
        for (fam, _) in FAMILIES.iter() {
            let kind = ATTR_KINDS[(round as usize + r.usize(ATTR_KINDS.len())) % ATTR_KINDS.len()];
            part_a_case(ctx, r, *fam, kind);
        }
        if round % 16 == 0 {
            part_a_constructed(ctx, r);
        }
    }
    // two-octet-AS session: AS_PATH / AGGREGATOR arrive in 2-byte form and are up-converted
    let mut c2 = new_codec(false);
    c2.two_byte_as = true;
    for _ in 0..rounds.min(200) {
        let mut ap = Vec::new();
        ap.push(2u8);
        let n = r.range(1, 5) as u8;
        ap.push(n);
        for _ in 0..n {
            ap.extend_from_slice(&rnd_u16(r).to_be_bytes());
        }
        let mut ag = rnd_u16(r).to_be_bytes().to_vec();
        ag.extend_from_slice(&rnd_v4(r).octets());
        let wattrs = vec![
            wa(Attribute::ORIGIN, vec![0]),
            wa(Attribute::AS_PATH, ap),
            wa(Attribute::AGGREGATOR, ag),
        ];
        let n = Nlri::V4(gen_v4net(r));
        if let Ok((d, msg)) = wire_nlri(
            &mut c2,
            false,
            Family::IPV4,
            &n,
            0,
            &Nh::V4(Ipv4Addr::new(10, 0, 0, 1)),
            &wattrs,
        ) {
            if d.n_err == 0 {
                ctx.rep.count("updates:two-byte-as");
                let h = hex(&msg);
                for a in d.attrs.iter() {
                    roundtrip_attr(ctx, a, None, "decoded-from-wire (2-octet AS session)", &h);
                }
            }
        }
    }
}

// ------------------------------------------------------------------ entry point

#[test]
fn run() {
    let params = Params::from_args_env();
    let mut ctx = Ctx::new(&params);
    ctx.rep.extra(
        "rule",
        Json::s("cases = (a) one internal attribute / NLRI decoded from a generated UPDATE, (b) one API attribute / NLRI message, (c) one add_path+list_path pair; non-trivial = (a) every decoded value, (b) messages the conversion ACCEPTED, (c) pairs whose add_path succeeded; distinct by hash of the value / message"),
    );
    let part = params.get("part").unwrap_or("all").to_string();
    let mut rng = Rng::new(params.seed ^ 0xC17);
    if part == "all" || part == "a" {
        let mut r = rng.fork();
        run_part_a(&mut ctx, &mut r, params.n(1500, 30_000));
    }
    if part == "all" || part == "b" || part == "b1" {
        let mut r = rng.fork();
        run_part_b_attrs(&mut ctx, &mut r, params.n(20_000, 150_000));
    }
    if part == "all" || part == "b" || part == "b2" {
        let mut r = rng.fork();
        run_part_b_nlri(&mut ctx, &mut r, params.n(15_000, 300_000));
    }
    if part == "all" || part == "c" {
        let mut r = rng.fork();
        run_part_c(&mut ctx, &mut r, params.n(8000, 150_000));
    }
    let _ = ctx.rep.finish();
}

// ------------------------------------------------------------------ (b) independent validator

/// The wire decoder's acceptance rules (RFC 4271 §4.3 / 1997 / 4360 / 4456 /
/// 8092 / 6793 and `Attribute::decode`'s canonical internal forms), written
/// from those rules.  Returns the rules the value breaks.
fn validate_attr(a: &Attribute) -> Vec<(&'static str, String)> {
    let mut bad: Vec<(&'static str, String)> = Vec::new();
    let code = a.code();
    let seg_check = |b: &[u8], as4: bool| -> Option<String> {
        let mut pos = 0usize;
        while pos < b.len() {
            if pos + 2 > b.len() {
                return Some("truncated segment header".into());
            }
            let t = b[pos];
            let n = b[pos + 1] as usize;
            if !(1..=4).contains(&t) {
                return Some(format!("segment type {}", t));
            }
            if n == 0 {
                return Some("zero-length segment (RFC 7606 7.2)".into());
            }
            pos += 2 + 4 * n;
            if pos > b.len() {
                return Some(format!("segment count {} overruns the attribute", n));
            }
        }
        None
    };
    match code {
        Attribute::ORIGIN => match a.value() {
            None => bad.push((
                "binary-valued",
                "ORIGIN carries a byte string, not a value".into(),
            )),
            Some(v) if v > 2 => bad.push(("origin-range", format!("ORIGIN {} > 2", v))),
            _ => {}
        },
        Attribute::MULTI_EXIT_DESC | Attribute::LOCAL_PREF | Attribute::ORIGINATOR_ID => {
            if a.value().is_none() {
                bad.push((
                    "binary-valued",
                    format!(
                        "attribute {} carries a byte string, not a 4-octet value",
                        code
                    ),
                ));
            }
        }
        _ => {
            let Some(b) = a.binary() else {
                bad.push((
                    "value-typed",
                    format!("attribute {} carries a value, not a byte string", code),
                ));
                return bad;
            };
            let len = b.len();
            if len > 65535 {
                bad.push((
                    "too-long",
                    format!("{} octets do not fit the 2-octet attribute length", len),
                ));
            }
            match code {
                Attribute::AS_PATH => {
                    if let Some(e) = seg_check(b, false) {
                        bad.push(("bad-segments", e));
                    }
                }
                Attribute::AS4_PATH => {
                    if len % 2 != 0 || len < 6 {
                        bad.push(("bad-length", format!("AS4_PATH length {}", len)));
                    } else if let Some(e) = seg_check(b, true) {
                        bad.push(("bad-segments", e));
                    }
                }
                Attribute::ATOMIC_AGGREGATE if len != 0 => bad.push(("bad-length", format!("ATOMIC_AGGREGATE length {}", len))),
                Attribute::AGGREGATOR | Attribute::AS4_AGGREGATOR if len != 8 => {
                    bad.push(("bad-length", format!("(AS4_)AGGREGATOR internal length {} != 8", len)))
                }
                Attribute::COMMUNITY | Attribute::CLUSTER_LIST | Attribute::EXTENDED_COMMUNITY | Attribute::LARGE_COMMUNITY
                    if len == 0 =>
                {
                    bad.push(("empty-list", format!("attribute {} with zero length (RFC 7606 7.8 / 7.10 / 7.14, RFC 8092 5)", code)))
                }
                Attribute::COMMUNITY | Attribute::CLUSTER_LIST if len % 4 != 0 => {
                    bad.push(("bad-length", format!("length {} not a multiple of 4", len)))
                }
                Attribute::EXTENDED_COMMUNITY if len % 8 != 0 => bad.push(("bad-length", format!("length {} not a multiple of 8", len))),
                Attribute::LARGE_COMMUNITY if len % 12 != 0 => bad.push(("bad-length", format!("length {} not a multiple of 12", len))),
                Attribute::NEXTHOP if !(len == 4 || len == 16 || len == 32) => {
                    bad.push(("bad-length", format!("NEXT_HOP length {} is no address", len)))
                }
                // MP_REACH (daemon-internal layout): its next-hop field is checked by the
                // only caller, GrpcService::local_path, which rejects a malformed one
                _ => {}
            }
        }
    }
    bad
}

// ------------------------------------------------------------------ (b) using an accepted value

fn export_ctx(role: PeerRole) -> PeerExportContext {
    PeerExportContext {
        role,
        local_asn: LOCAL_AS,
        local_addr: "192.0.2.254".parse().unwrap(),
        link_addr: None,
        confederation_id: if role == PeerRole::ConfedEbgp {
            65500
        } else {
            0
        },
    }
}

const ROLES: [(PeerRole, &str); 5] = [
    (PeerRole::Ebgp, "ebgp"),
    (PeerRole::RsClient, "rs-client"),
    (PeerRole::Ibgp, "ibgp"),
    (PeerRole::IbgpRrClient, "ibgp-rr-client"),
    (PeerRole::ConfedEbgp, "confed-ebgp"),
];

fn base_attrs() -> Vec<Attribute> {
    vec![
        Attribute::new_with_value(Attribute::ORIGIN, 0).unwrap(),
        Attribute::new_with_bin(Attribute::AS_PATH, as_path_bytes(&[(2, vec![65001])])).unwrap(),
    ]
}

/// what `GrpcService::local_path` does with the converted attributes
fn local_path_like(accepted: &[Attribute]) -> Vec<Attribute> {
    let mut v: Vec<Attribute> = Vec::new();
    for a in accepted {
        match a.code() {
            Attribute::MP_REACH
            | Attribute::NEXTHOP
            | Attribute::ORIGINATOR_ID
            | Attribute::CLUSTER_LIST
            | Attribute::MP_UNREACH => {}
            _ => v.push(a.clone()),
        }
    }
    if !v.iter().any(|a| a.code() == Attribute::ORIGIN) {
        v.push(Attribute::new_with_value(Attribute::ORIGIN, 0).unwrap());
    }
    if !v.iter().any(|a| a.code() == Attribute::AS_PATH) {
        v.push(Attribute::empty_as_path());
    }
    v
}

fn split_messages(buf: &[u8]) -> Vec<&[u8]> {
    let mut out = Vec::new();
    let mut pos = 0;
    while pos + 19 <= buf.len() {
        let l = u16::from_be_bytes([buf[pos + 16], buf[pos + 17]]) as usize;
        if l < 19 || pos + l > buf.len() {
            out.push(&buf[pos..]);
            break;
        }
        out.push(&buf[pos..pos + l]);
        pos += l;
    }
    out
}

struct UseResult {
    panics: Vec<(String, PanicInfo)>,
    /// Some(reason) when the direct wire encoding of the route is not accepted
    /// back by the decoder with the same NLRI / attributes
    wire: Option<String>,
}

/// Insert next to competing paths, run import policy, export for every role,
/// encode, display.  Every stage under its own guard.
fn use_value(
    ctx: &Ctx,
    fam: Family,
    nlri: &Nlri,
    nexthop: Option<bgp::Nexthop>,
    attrs: &Arc<Vec<Attribute>>,
    check_wire: bool,
) -> UseResult {
    let mut panics: Vec<(String, PanicInfo)> = Vec::new();
    let src_a = ctx.srcs[0].clone();
    let src_b = ctx.srcs[1].clone();
    let src_c = ctx.srcs[2].clone();
    let src_e = ctx.srcs[3].clone();
    let base = Arc::new(base_attrs());

    // 1. best-path comparator: vs. a plain path, then vs. itself from another
    //    peer (ties on every step, so every step is evaluated)
    let mut change: Option<table::NlriChange> = None;
    match guard(|| {
        let mut t = table::Table::new(0);
        let _ = t.insert(
            src_a.clone(),
            fam,
            nlri.clone(),
            0,
            nexthop,
            base.clone(),
            None,
            false,
            false,
            None,
            1,
        );
        let r1 = t.insert(
            src_b.clone(),
            fam,
            nlri.clone(),
            0,
            nexthop,
            attrs.clone(),
            None,
            false,
            false,
            None,
            2,
        );
        let r2 = t.insert(
            src_c.clone(),
            fam,
            nlri.clone(),
            0,
            nexthop,
            attrs.clone(),
            None,
            false,
            false,
            None,
            3,
        );
        let c = match r2 {
            table::InsertResult::Changed(c) => Some(c),
            _ => match r1 {
                table::InsertResult::Changed(c) => Some(c),
                _ => None,
            },
        };
        if let Some(c) = &c {
            let _ = c.ecmp_paths().len();
        }
        let _ = t.collect_loc_rib_paths(&fam).len();
        c
    }) {
        Ok(c) => change = c,
        Err(p) => panics.push(("table-insert".into(), p)),
    }

    // 2. import policy with every condition kind
    if let Err(p) = guard(|| {
        let mut nh = nexthop;
        table::apply_import(&ctx.policy, Some(&ctx.rpki), &src_e, nlri, attrs, &mut nh)
    }) {
        panics.push(("apply-import".into(), p));
    }
    // list_path validates every listed path against the ROA table
    if let Err(p) = guard(|| ctx.rpki.validate(&src_e, nlri, attrs).is_some()) {
        panics.push(("rpki-validate".into(), p));
    }

    // 3./4. export for every role and encode what would be sent
    let synthetic = table::NlriChange {
        family: fam,
        net: nlri.clone(),
        dest_id: 1,
        best_changed: true,
        any_changed: true,
        replaced_path_id: None,
        current_paths: Arc::new(vec![table::Path {
            local_path_id: 1,
            source: src_e.clone(),
            nexthop,
            attr: attrs.clone(),
        }]),
    };
    for (role, rname) in ROLES.iter() {
        let ectx = export_ctx(*role);
        if let Err(p) = guard(|| ectx.export_attrs(attrs).len()) {
            panics.push((format!("export_attrs/{}", rname), p));
        }
        let cluster = if *role == PeerRole::IbgpRrClient {
            Some(Ipv4Addr::new(9, 9, 9, 9))
        } else {
            None
        };
        for (cname, ch) in [("table", change.as_ref()), ("single", Some(&synthetic))] {
            let Some(ch) = ch else { continue };
            for pol in [false, true] {
                let msgs = match guard(|| {
                    let mut em = ExportMap::default();
                    let mut pending = crate::peer_tx::PendingTx::new(false);
                    process_nlri_change(
                        ch,
                        1,
                        "198.51.100.9".parse().unwrap(),
                        &mut em,
                        &mut pending,
                        &ectx,
                        if pol { Some(&*ctx.export_policy) } else { None },
                        cluster,
                        Some(&ctx.rpki),
                        None,
                        None,
                    );
                    pending.drain_messages(fam)
                }) {
                    Ok(m) => m,
                    Err(p) => {
                        panics.push((format!("process_nlri_change/{}", rname), p));
                        continue;
                    }
                };
                for two_byte in [false, true] {
                    for m in msgs.iter() {
                        if let Err(p) = guard(|| {
                            let mut c = new_codec(false);
                            c.two_byte_as = two_byte;
                            let mut buf = bytes::BytesMut::new();
                            let _ = c.encode_to(m, &mut buf);
                            buf.len()
                        }) {
                            panics.push((
                                format!(
                                    "encode_to/{}{}",
                                    rname,
                                    if two_byte { "/2-octet-as" } else { "" }
                                ),
                                p,
                            ));
                        }
                    }
                }
            }
        }
    }

    // 5. display (list_path: attr_to_api + optional binary form)
    for a in attrs.iter() {
        if let Err(p) = guard(|| attr_to_api(a)) {
            panics.push(("show/attr_to_api".into(), p));
        }
        if let Err(p) = guard(|| a.encode_to_bytes().len()) {
            panics.push(("show/encode_to_bytes".into(), p));
        }
    }
    if let Err(p) = guard(|| {
        let _ = nlri_to_api(nlri);
        let _ = nlri.encode_to_bytes();
        format!("{}", nlri).len()
    }) {
        panics.push(("show/nlri".into(), p));
    }

    // 6. the route as the wire would carry it: does the decoder take it back unchanged?
    let mut wire = None;
    if check_wire && panics.is_empty() {
        let msg = bgp::Message::Update(bgp::Update::Reach {
            family: fam,
            entries: vec![PathNlri {
                path_id: 0,
                nlri: nlri.clone(),
            }],
            nexthop,
            attr: attrs.clone(),
        });
        match guard(|| {
            let mut c = new_codec(false);
            let mut buf = bytes::BytesMut::new();
            let _ = c.encode_to(&msg, &mut buf);
            buf.to_vec()
        }) {
            Err(p) => panics.push(("encode_to/direct".into(), p)),
            Ok(buf) => {
                let mut c = new_codec(false);
                let parts = split_messages(&buf);
                if parts.len() != 1 {
                    wire = Some(format!("encoder produced {} frames", parts.len()));
                } else {
                    match decode_update(&mut c, parts[0]) {
                        Err(e) => wire = Some(format!("decoder: {}", e)),
                        Ok(d) => {
                            if d.n_err > 0 {
                                wire = Some("decoder puts an attribute into error_attrs".into());
                            } else if d.family != fam || d.entries.len() != 1 {
                                wire = Some("decoder sees a different family / NLRI count".into());
                            } else if &d.entries[0].nlri != nlri {
                                wire = Some(format!(
                                    "decoder reads the NLRI back as {}",
                                    nlri_dbg(&d.entries[0].nlri)
                                ));
                            } else {
                                for a in attrs.iter() {
                                    if matches!(
                                        a.code(),
                                        Attribute::AS4_PATH | Attribute::AS4_AGGREGATOR
                                    ) {
                                        continue; // discarded between 4-octet speakers by design
                                    }
                                    match d.attrs.iter().find(|x| x.code() == a.code()) {
                                        None => {
                                            wire = Some(format!(
                                                "attribute {} does not come back",
                                                a.code()
                                            ));
                                            break;
                                        }
                                        Some(x) => {
                                            if !attr_same(a, x).0
                                                && attr_same(a, x).1 != "partial-bit"
                                            {
                                                wire = Some(format!(
                                                    "attribute {} comes back as {}",
                                                    a.code(),
                                                    attr_dbg(x)
                                                ));
                                                break;
                                            }
                                        }
                                    }
                                }
                            }
                        }
                    }
                }
            }
        }
    }
    UseResult { panics, wire }
}

// ------------------------------------------------------------------ (b) API message generators

fn api_attr(a: api::attribute::Attr) -> api::Attribute {
    api::Attribute { attr: Some(a) }
}

fn api_unknown(t: u32, flags: u32, value: Vec<u8>) -> api::Attribute {
    api_attr(api::attribute::Attr::Unknown(api::UnknownAttribute {
        flags,
        r#type: t,
        value,
    }))
}

fn api_origin(v: u32) -> api::Attribute {
    api_attr(api::attribute::Attr::Origin(api::OriginAttribute {
        origin: v,
    }))
}

fn api_as_path(segs: Vec<(i32, Vec<u32>)>) -> api::Attribute {
    api_attr(api::attribute::Attr::AsPath(api::AsPathAttribute {
        segments: segs
            .into_iter()
            .map(|(t, numbers)| api::AsSegment { r#type: t, numbers })
            .collect(),
    }))
}

fn api_next_hop(s: &str) -> api::Attribute {
    api_attr(api::attribute::Attr::NextHop(api::NextHopAttribute {
        next_hop: s.to_string(),
    }))
}

fn api_mp_reach(fam: Option<Family>, nhs: Vec<String>) -> api::Attribute {
    api_attr(api::attribute::Attr::MpReach(api::MpReachNlriAttribute {
        family: fam.map(family_to_api),
        next_hops: nhs,
        nlris: vec![],
    }))
}

fn bad_addr(r: &mut Rng) -> String {
    match r.below(9) {
        0 => String::new(),
        1 => "garbage".into(),
        2 => "1.2.3.4/24".into(),
        3 => "256.1.1.1".into(),
        4 => "1.2.3".into(),
        5 => "::g".into(),
        6 => "x".repeat(5000),
        7 => " 1.2.3.4".into(),
        _ => "2001:db8::1".into(),
    }
}

fn some_addr(r: &mut Rng) -> String {
    match r.below(4) {
        0 => bad_addr(r),
        1 => rnd_v6(r).to_string(),
        _ => rnd_v4(r).to_string(),
    }
}

/// small, hand-picked messages first: the first witness of a signature is the one kept
fn directed_api_attrs() -> Vec<api::Attribute> {
    let mut v = Vec::new();
    for t in [1u32, 4, 5, 9] {
        v.push(api_unknown(t, 0x40, vec![]));
        v.push(api_unknown(t, 0x40, vec![0, 0, 0, 1]));
    }
    v.push(api_unknown(257, 0x40, vec![0])); // 257 as u8 == 1
    v.push(api_unknown(2, 0x40, vec![9, 1, 0, 0, 0, 1]));
    v.push(api_unknown(2, 0x40, vec![2, 5, 0, 0, 0, 1]));
    v.push(api_unknown(2, 0x40, vec![2]));
    v.push(api_unknown(6, 0x40, vec![1]));
    v.push(api_unknown(7, 0xc0, vec![1, 2, 3]));
    v.push(api_unknown(7, 0xc0, vec![0, 1, 10, 0, 0, 1]));
    v.push(api_unknown(8, 0xc0, vec![1, 2, 3]));
    v.push(api_unknown(10, 0x80, vec![1]));
    v.push(api_unknown(16, 0xc0, vec![1; 7]));
    v.push(api_unknown(32, 0xc0, vec![1; 5]));
    v.push(api_unknown(17, 0xc0, vec![2, 0]));
    v.push(api_unknown(17, 0xc0, vec![7, 1, 0, 0, 0, 1]));
    v.push(api_unknown(18, 0xc0, vec![1]));
    v.push(api_unknown(3, 0x40, vec![1]));
    v.push(api_unknown(14, 0x80, vec![]));
    v.push(api_unknown(14, 0x80, vec![0, 1, 1, 9, 1, 2, 3, 4, 0]));
    v.push(api_unknown(15, 0x80, vec![0, 1]));
    v.push(api_unknown(23, 0xc0, vec![0, 15, 0xff]));
    v.push(api_unknown(26, 0x80, vec![1, 0]));
    v.push(api_unknown(29, 0x80, vec![4, 2]));
    v.push(api_unknown(40, 0xc0, vec![5, 0]));
    v.push(api_unknown(0, 0xc0, vec![1]));
    v.push(api_unknown(200, 0xc0, vec![1]));
    v.push(api_unknown(u32::MAX, 0xc0, vec![1]));
    v.push(api::Attribute { attr: None });
    for o in [3u32, 255, 256, u32::MAX] {
        v.push(api_origin(o));
    }
    v.push(api_as_path(vec![(0, vec![65001])]));
    v.push(api_as_path(vec![(5, vec![65001])]));
    v.push(api_as_path(vec![(258, vec![65001])]));
    v.push(api_as_path(vec![(-1, vec![65001])]));
    v.push(api_as_path(vec![(2, vec![])]));
    v.push(api_as_path(vec![(2, vec![65001]), (1, vec![])]));
    v.push(api_as_path(vec![(
        2,
        (0..256).map(|i| 65000 + i).collect(),
    )]));
    v.push(api_as_path(vec![(
        2,
        (0..300).map(|i| 65000 + i).collect(),
    )]));
    v.push(api_as_path(vec![
        (2, (0..255).map(|i| 65000 + i).collect()),
        (2, vec![1]),
    ]));
    v.push(api_as_path(vec![
        (2, (0..200).map(|i| 65000 + i).collect()),
        (2, (0..200).map(|i| 65000 + i).collect()),
    ]));
    for s in ["", "garbage", "1.2.3.4/24", "1.2.3.4", "2001:db8::1"] {
        v.push(api_next_hop(s));
    }
    v.push(api_mp_reach(None, vec!["1.2.3.4".into()]));
    v.push(api_mp_reach(Some(Family::IPV6), vec![]));
    v.push(api_mp_reach(Some(Family::IPV6), vec!["garbage".into()]));
    v.push(api_mp_reach(Some(Family::IPV6), vec!["2001:db8::1".into()]));
    v.push(api_mp_reach(Some(Family::IPV4_FLOWSPEC), vec![]));
    v.push(api_attr(api::attribute::Attr::MpReach(
        api::MpReachNlriAttribute {
            family: Some(api::Family {
                afi: 70000,
                safi: 300,
            }),
            next_hops: vec!["1.2.3.4".into()],
            nlris: vec![],
        },
    )));
    v.push(api_attr(api::attribute::Attr::Communities(
        api::CommunitiesAttribute {
            communities: vec![1; 16384],
        },
    )));
    v.push(api_attr(api::attribute::Attr::LargeCommunities(
        api::LargeCommunitiesAttribute {
            communities: vec![
                api::LargeCommunity {
                    global_admin: 1,
                    local_data1: 2,
                    local_data2: 3
                };
                5462
            ],
        },
    )));
    v.push(api_attr(api::attribute::Attr::Aggregator(
        api::AggregatorAttribute {
            asn: u32::MAX,
            address: "garbage".into(),
        },
    )));
    v.push(api_attr(api::attribute::Attr::OriginatorId(
        api::OriginatorIdAttribute { id: "".into() },
    )));
    v.push(api_attr(api::attribute::Attr::ClusterList(
        api::ClusterListAttribute {
            ids: vec!["1.1.1.1".into(), "x".into()],
        },
    )));
    v
}

fn gen_api_extcom(r: &mut Rng) -> api::ExtendedCommunity {
    use api::extended_community::Extcom as E;
    let big = |r: &mut Rng| {
        if r.bool() {
            rnd_u32(r)
        } else {
            r.below(300) as u32
        }
    };
    let e = match r.below(16) {
        0 => None,
        1 => Some(E::TwoOctetAsSpecific(api::TwoOctetAsSpecificExtended {
            is_transitive: r.bool(),
            sub_type: big(r),
            asn: big(r),
            local_admin: rnd_u32(r),
        })),
        2 => Some(E::Ipv4AddressSpecific(api::IPv4AddressSpecificExtended {
            is_transitive: r.bool(),
            sub_type: big(r),
            address: some_addr(r),
            local_admin: big(r),
        })),
        3 => Some(E::FourOctetAsSpecific(api::FourOctetAsSpecificExtended {
            is_transitive: r.bool(),
            sub_type: big(r),
            asn: rnd_u32(r),
            local_admin: big(r),
        })),
        4 => Some(E::Mup(api::MupExtended {
            sub_type: big(r),
            segment_id2: big(r),
            segment_id4: rnd_u32(r),
        })),
        5 => Some(E::Unknown(api::UnknownExtended {
            r#type: big(r),
            value: {
                let n = *r.pick(&[0usize, 7, 8, 8, 8, 9, 16]);
                r.bytes(n)
            },
        })),
        6 => Some(E::TrafficRate(api::TrafficRateExtended {
            asn: big(r),
            rate: f32::from_bits(r.next_u32()),
        })),
        7 => Some(E::TrafficAction(api::TrafficActionExtended {
            terminal: r.bool(),
            sample: r.bool(),
        })),
        8 => Some(E::RedirectTwoOctetAsSpecific(
            api::RedirectTwoOctetAsSpecificExtended {
                asn: big(r),
                local_admin: rnd_u32(r),
            },
        )),
        9 => Some(E::TrafficRemark(api::TrafficRemarkExtended {
            dscp: big(r),
        })),
        10 => Some(E::RedirectIpv4AddressSpecific(
            api::RedirectIPv4AddressSpecificExtended {
                address: some_addr(r),
                local_admin: big(r),
            },
        )),
        11 => Some(E::RedirectFourOctetAsSpecific(
            api::RedirectFourOctetAsSpecificExtended {
                asn: rnd_u32(r),
                local_admin: big(r),
            },
        )),
        12 => Some(E::Color(api::ColorExtended { color: rnd_u32(r) })),
        13 => Some(E::Encap(api::EncapExtended {
            tunnel_type: big(r),
        })),
        _ => Some(E::Unknown(api::UnknownExtended {
            r#type: r.below(256) as u32,
            value: r.bytes(8),
        })),
    };
    api::ExtendedCommunity { extcom: e }
}

fn gen_api_tunnel(r: &mut Rng) -> api::Attribute {
    use api::tunnel_encap_tlv::tlv::Tlv as T;
    let big = |r: &mut Rng| {
        if r.bool() {
            rnd_u32(r)
        } else {
            r.below(300) as u32
        }
    };
    let mut tlvs = Vec::new();
    for _ in 0..r.range(0, 3) {
        let mut subs = Vec::new();
        for _ in 0..r.range(0, 6) {
            let t = match r.below(10) {
                0 => None,
                1 => Some(T::SrPreference(api::TunnelEncapSubTlvsrPreference {
                    flags: big(r),
                    preference: rnd_u32(r),
                })),
                2 => Some(T::SrBindingSid(api::TunnelEncapSubTlvsrBindingSid {
                    bsid: match r.below(3) {
                        0 => None,
                        1 => Some(api::tunnel_encap_sub_tlvsr_binding_sid::Bsid::SrBindingSid(
                            api::SrBindingSid {
                                s_flag: r.bool(),
                                i_flag: r.bool(),
                                sid: {
                                    let n = r.below(8) as usize;
                                    r.bytes(n)
                                },
                            },
                        )),
                        _ => Some(
                            api::tunnel_encap_sub_tlvsr_binding_sid::Bsid::Srv6BindingSid(
                                api::SRv6BindingSid {
                                    s_flag: r.bool(),
                                    i_flag: r.bool(),
                                    b_flag: r.bool(),
                                    sid: {
                                        let n = *r.pick(&[0usize, 4, 16, 16, 17]);
                                        r.bytes(n)
                                    },
                                    endpoint_behavior_structure: if r.bool() {
                                        Some(api::SRv6EndPointBehavior {
                                            behavior: r.next_u32() as i32,
                                            block_len: big(r),
                                            node_len: big(r),
                                            func_len: big(r),
                                            arg_len: big(r),
                                        })
                                    } else {
                                        None
                                    },
                                },
                            ),
                        ),
                    },
                })),
                3 => Some(T::SrEnlp(api::TunnelEncapSubTlvsrenlp {
                    flags: big(r),
                    enlp: r.next_u32() as i32,
                })),
                4 => Some(T::SrPriority(api::TunnelEncapSubTlvsrPriority {
                    priority: big(r),
                })),
                5 => Some(T::SrCandidatePathName(
                    api::TunnelEncapSubTlvsrCandidatePathName {
                        candidate_path_name: if r.chance(1, 6) {
                            "n".repeat(70000)
                        } else {
                            "name".into()
                        },
                    },
                )),
                6 => Some(T::SrSegmentList(api::TunnelEncapSubTlvsrSegmentList {
                    weight: if r.bool() {
                        Some(api::SrWeight {
                            flags: big(r),
                            weight: rnd_u32(r),
                        })
                    } else {
                        None
                    },
                    segments: (0..{
                        let hi = if r.chance(1, 10) { 80 } else { 4 };
                        r.range(0, hi)
                    })
                        .map(|_| api::tunnel_encap_sub_tlvsr_segment_list::Segment {
                            segment: match r.below(3) {
                                0 => None,
                                1 => Some(
                                    api::tunnel_encap_sub_tlvsr_segment_list::segment::Segment::A(
                                        api::SegmentTypeA {
                                            flags: if r.bool() {
                                                Some(api::SegmentFlags {
                                                    v_flag: r.bool(),
                                                    a_flag: r.bool(),
                                                    s_flag: r.bool(),
                                                    b_flag: r.bool(),
                                                })
                                            } else {
                                                None
                                            },
                                            label: rnd_u32(r),
                                        },
                                    ),
                                ),
                                _ => Some(
                                    api::tunnel_encap_sub_tlvsr_segment_list::segment::Segment::B(
                                        api::SegmentTypeB {
                                            flags: None,
                                            sid: {
                                                let n = *r.pick(&[0usize, 16, 16, 3]);
                                                r.bytes(n)
                                            },
                                            endpoint_behavior_structure: None,
                                        },
                                    ),
                                ),
                            },
                        })
                        .collect(),
                })),
                7 => Some(T::Unknown(api::TunnelEncapSubTlvUnknown {
                    r#type: *r.pick(&[130u32, 1, 300]),
                    value: {
                        let n = r.below(300) as usize;
                        r.bytes(n)
                    },
                })),
                8 => Some(T::Color(api::TunnelEncapSubTlvColor { color: rnd_u32(r) })),
                _ => Some(T::UdpDestPort(api::TunnelEncapSubTlvudpDestPort {
                    port: big(r),
                })),
            };
            subs.push(api::tunnel_encap_tlv::Tlv { tlv: t });
        }
        tlvs.push(api::TunnelEncapTlv {
            r#type: *r.pick(&[15u32, 15, 15, 8, 0, 65536 + 15, u32::MAX]),
            tlvs: subs,
        });
    }
    api_attr(api::attribute::Attr::TunnelEncap(
        api::TunnelEncapAttribute { tlvs },
    ))
}

fn gen_api_prefix_sid(r: &mut Rng) -> api::Attribute {
    let big = |r: &mut Rng| {
        if r.bool() {
            rnd_u32(r)
        } else {
            r.below(300) as u32
        }
    };
    let mut tlvs = Vec::new();
    for _ in 0..r.range(0, 3) {
        let mut subs = std::collections::HashMap::new();
        for k in 0..r.range(0, 2) {
            let mut subsub = std::collections::HashMap::new();
            if r.bool() {
                subsub.insert(
                    *r.pick(&[1u32, 7]),
                    api::SRv6SubSubTlVs {
                        tlvs: vec![api::SRv6SubSubTlv {
                            tlv: if r.chance(1, 6) {
                                None
                            } else {
                                Some(api::s_rv6_sub_sub_tlv::Tlv::Structure(
                                    api::SRv6StructureSubSubTlv {
                                        locator_block_length: big(r),
                                        locator_node_length: big(r),
                                        function_length: big(r),
                                        argument_length: big(r),
                                        transposition_length: big(r),
                                        transposition_offset: big(r),
                                    },
                                ))
                            },
                        }],
                    },
                );
            }
            subs.insert(
                *r.pick(&[1u32, 2, 1000]) + k as u32,
                api::SRv6SubTlVs {
                    tlvs: vec![api::SRv6SubTlv {
                        tlv: if r.chance(1, 6) {
                            None
                        } else {
                            Some(api::s_rv6_sub_tlv::Tlv::Information(
                                api::SRv6InformationSubTlv {
                                    sid: {
                                        let n = *r.pick(&[16usize, 16, 16, 0, 15]);
                                        r.bytes(n)
                                    },
                                    flags: if r.bool() {
                                        Some(api::SRv6SidFlags { flag_1: r.bool() })
                                    } else {
                                        None
                                    },
                                    endpoint_behavior: big(r),
                                    sub_sub_tlvs: subsub,
                                },
                            ))
                        },
                    }],
                },
            );
        }
        let t = match r.below(5) {
            0 => None,
            1 | 2 => Some(api::prefix_sid::tlv::Tlv::L3Service(
                api::SRv6L3ServiceTlv { sub_tlvs: subs },
            )),
            _ => Some(api::prefix_sid::tlv::Tlv::L2Service(
                api::SRv6L2ServiceTlv { sub_tlvs: subs },
            )),
        };
        tlvs.push(api::prefix_sid::Tlv { tlv: t });
    }
    api_attr(api::attribute::Attr::PrefixSid(api::PrefixSid { tlvs }))
}

fn gen_api_ls(r: &mut Rng) -> api::Attribute {
    let big = |r: &mut Rng| {
        if r.bool() {
            rnd_u32(r)
        } else {
            r.below(300) as u32
        }
    };
    let node = if r.bool() {
        Some(api::LsAttributeNode {
            name: if r.chance(1, 8) {
                "n".repeat(70000)
            } else {
                "node".into()
            },
            flags: if r.bool() {
                Some(api::LsNodeFlags {
                    overload: r.bool(),
                    attached: r.bool(),
                    external: r.bool(),
                    abr: r.bool(),
                    router: r.bool(),
                    v6: r.bool(),
                })
            } else {
                None
            },
            local_router_id: some_addr(r),
            local_router_id_v6: some_addr(r),
            isis_area: {
                let n = r.below(20) as usize;
                r.bytes(n)
            },
            opaque: {
                let n = r.below(20) as usize;
                r.bytes(n)
            },
            sr_capabilities: if r.bool() {
                Some(api::LsSrCapabilities {
                    ipv4_supported: r.bool(),
                    ipv6_supported: r.bool(),
                    ranges: (0..r.range(0, 3))
                        .map(|_| api::LsSrRange {
                            begin: rnd_u32(r),
                            end: rnd_u32(r),
                        })
                        .collect(),
                })
            } else {
                None
            },
            sr_algorithms: {
                let n = r.below(5) as usize;
                r.bytes(n)
            },
            sr_local_block: if r.bool() {
                Some(api::LsSrLocalBlock {
                    ranges: (0..r.range(0, 3))
                        .map(|_| api::LsSrRange {
                            begin: rnd_u32(r),
                            end: rnd_u32(r),
                        })
                        .collect(),
                })
            } else {
                None
            },
            flex_algo_defs: vec![],
        })
    } else {
        None
    };
    let link = if r.bool() {
        Some(api::LsAttributeLink {
            name: "link".into(),
            local_router_id: some_addr(r),
            local_router_id_v6: some_addr(r),
            remote_router_id: some_addr(r),
            remote_router_id_v6: some_addr(r),
            admin_group: rnd_u32(r),
            default_te_metric: rnd_u32(r),
            igp_metric: rnd_u32(r),
            opaque: {
                let n = r.below(20) as usize;
                r.bytes(n)
            },
            bandwidth: f32::from_bits(r.next_u32()),
            reservable_bandwidth: f32::from_bits(r.next_u32()),
            unreserved_bandwidth: (0..*r.pick(&[0usize, 8, 8, 3, 20]))
                .map(|_| f32::from_bits(r.next_u32()))
                .collect(),
            sr_adjacency_sid: rnd_u32(r),
            srlgs: (0..r.below(4)).map(|_| rnd_u32(r)).collect(),
            srv6_end_x_sid: if r.bool() {
                Some(api::LsSrv6EndXsid {
                    endpoint_behavior: big(r),
                    flags: big(r),
                    algorithm: big(r),
                    weight: big(r),
                    reserved: big(r),
                    sids: (0..r.below(3)).map(|_| some_addr(r)).collect(),
                    srv6_sid_structure: if r.bool() {
                        Some(api::LsSrv6SidStructure {
                            local_block: big(r),
                            local_node: big(r),
                            local_func: big(r),
                            local_arg: big(r),
                        })
                    } else {
                        None
                    },
                })
            } else {
                None
            },
            unidirectional_link_delay_anomalous: r.bool(),
            unidirectional_link_delay: rnd_u32(r),
            min_max_unidirectional_link_delay_anomalous: r.bool(),
            min_unidirectional_link_delay: rnd_u32(r),
            max_unidirectional_link_delay: rnd_u32(r),
            unidirectional_delay_variation: rnd_u32(r),
        })
    } else {
        None
    };
    let prefix = if r.bool() {
        Some(api::LsAttributePrefix {
            igp_flags: if r.bool() {
                Some(api::LsIgpFlags {
                    down: r.bool(),
                    no_unicast: r.bool(),
                    local_address: r.bool(),
                    propagate_nssa: r.bool(),
                })
            } else {
                None
            },
            opaque: {
                let n = r.below(20) as usize;
                r.bytes(n)
            },
            sr_prefix_sid: rnd_u32(r),
            sr_prefix_sids: (0..r.below(3))
                .map(|_| api::LsAttributePrefixSid {
                    algorithm: big(r),
                    flags: big(r),
                    sid: rnd_u32(r),
                })
                .collect(),
            fad_prefix_metrics: vec![],
        })
    } else {
        None
    };
    let peer = |r: &mut Rng| {
        if r.bool() {
            Some(api::LsBgpPeerSegmentSid {
                flags: if r.bool() {
                    Some(api::LsBgpPeerSegmentSidFlags {
                        value: r.bool(),
                        local: r.bool(),
                        backup: r.bool(),
                        persistent: r.bool(),
                    })
                } else {
                    None
                },
                weight: big(r),
                sid: rnd_u32(r),
            })
        } else {
            None
        }
    };
    let bgp_peer_segment = if r.bool() {
        Some(api::LsAttributeBgpPeerSegment {
            bgp_peer_node_sid: peer(r),
            bgp_peer_adjacency_sid: peer(r),
            bgp_peer_set_sid: peer(r),
        })
    } else {
        None
    };
    let srv6_sid = if r.bool() {
        Some(api::LsAttributeSrv6Sid {
            srv6_sid_structure: None,
            srv6_endpoint_behavior: None,
            srv6_bgp_peer_node_sid: if r.bool() {
                Some(api::LsSrv6BgpPeerNodeSid {
                    flags: big(r),
                    weight: big(r),
                    peer_as: rnd_u32(r),
                    peer_bgp_id: some_addr(r),
                })
            } else {
                None
            },
        })
    } else {
        None
    };
    api_attr(api::attribute::Attr::Ls(api::LsAttribute {
        node,
        link,
        prefix,
        bgp_peer_segment,
        srv6_sid,
    }))
}

fn gen_api_attr(r: &mut Rng) -> api::Attribute {
    use api::attribute::Attr as A;
    match r.below(22) {
        0 | 1 | 2 => {
            let t = match r.below(4) {
                0 => *r.pick(&[
                    1u32, 2, 3, 4, 5, 6, 7, 8, 9, 10, 14, 15, 16, 17, 18, 23, 26, 29, 32, 40,
                ]),
                1 => 256 + *r.pick(&[1u32, 2, 4, 5, 9]),
                2 => r.below(256) as u32,
                _ => rnd_u32(r),
            };
            let n = match r.below(8) {
                0 => 0,
                1 => 1,
                2 => 4,
                3 => 8,
                4 => 12,
                5 => 300,
                _ => r.below(40) as usize,
            };
            api_unknown(t, rnd_u32(r), r.bytes(n))
        }
        3 => api_origin(if r.bool() {
            r.below(4) as u32
        } else {
            rnd_u32(r)
        }),
        4 | 5 => {
            let nseg = r.range(0, 4);
            let mut segs = Vec::new();
            for _ in 0..nseg {
                let t = match r.below(6) {
                    0 => *r.pick(&[0i32, 5, 255, 256 + 2, -1, i32::MAX]),
                    _ => r.range(1, 4) as i32,
                };
                let n = match r.below(10) {
                    0 => 0,
                    1 => 255,
                    2 => 256,
                    3 => 300,
                    _ => r.range(1, 5) as usize,
                };
                segs.push((t, (0..n).map(|_| rnd_u32(r)).collect()));
            }
            api_as_path(segs)
        }
        6 => api_next_hop(&some_addr(r)),
        7 => api_attr(A::MultiExitDisc(api::MultiExitDiscAttribute {
            med: rnd_u32(r),
        })),
        8 => api_attr(A::LocalPref(api::LocalPrefAttribute {
            local_pref: rnd_u32(r),
        })),
        9 => api_attr(A::AtomicAggregate(api::AtomicAggregateAttribute {})),
        10 => api_attr(A::Aggregator(api::AggregatorAttribute {
            asn: rnd_u32(r),
            address: some_addr(r),
        })),
        11 => {
            let n = if r.chance(1, 30) {
                16384 + r.below(3) as usize
            } else {
                r.below(6) as usize
            };
            api_attr(A::Communities(api::CommunitiesAttribute {
                communities: (0..n).map(|_| rnd_u32(r)).collect(),
            }))
        }
        12 => api_attr(A::OriginatorId(api::OriginatorIdAttribute {
            id: some_addr(r),
        })),
        13 => api_attr(A::ClusterList(api::ClusterListAttribute {
            ids: (0..r.below(4)).map(|_| some_addr(r)).collect(),
        })),
        14 => {
            let n = if r.chance(1, 30) {
                5462
            } else {
                r.below(4) as usize
            };
            api_attr(A::LargeCommunities(api::LargeCommunitiesAttribute {
                communities: (0..n)
                    .map(|_| api::LargeCommunity {
                        global_admin: rnd_u32(r),
                        local_data1: rnd_u32(r),
                        local_data2: rnd_u32(r),
                    })
                    .collect(),
            }))
        }
        15 | 16 => {
            let n = if r.chance(1, 40) {
                8192
            } else {
                r.range(0, 4) as usize
            };
            api_attr(A::ExtendedCommunities(api::ExtendedCommunitiesAttribute {
                communities: (0..n).map(|_| gen_api_extcom(r)).collect(),
            }))
        }
        17 => {
            let fam = match r.below(4) {
                0 => None,
                1 => Some(api::Family {
                    afi: rnd_u32(r) as i32,
                    safi: rnd_u32(r) as i32,
                }),
                _ => Some(family_to_api(FAMILIES[r.usize(FAMILIES.len())].0)),
            };
            api_attr(A::MpReach(api::MpReachNlriAttribute {
                family: fam,
                next_hops: (0..r.below(3)).map(|_| some_addr(r)).collect(),
                nlris: vec![],
            }))
        }
        18 => gen_api_tunnel(r),
        19 => gen_api_prefix_sid(r),
        20 => gen_api_ls(r),
        _ => match r.below(5) {
            0 => api::Attribute { attr: None },
            1 => api_attr(A::As4Path(api::As4PathAttribute { segments: vec![] })),
            2 => api_attr(A::Aigp(api::AigpAttribute { tlvs: vec![] })),
            3 => api_attr(A::MpUnreach(api::MpUnreachNlriAttribute {
                family: None,
                nlris: vec![],
            })),
            _ => api_attr(A::As4Aggregator(api::As4AggregatorAttribute {
                asn: 1,
                address: "x".into(),
            })),
        },
    }
}

fn api_variant_name(a: &api::Attribute) -> String {
    let s = format!("{:?}", a.attr);
    let s = s.strip_prefix("Some(").unwrap_or(&s);
    s.split(|c| c == '(' || c == ' ')
        .next()
        .unwrap_or("?")
        .to_string()
}

// ------------------------------------------------------------------ (b) driver for attributes

fn part_b_attr(ctx: &mut Ctx, m: api::Attribute) {
    ctx.rep.eval();
    let variant = api_variant_name(&m);
    let m_s = trunc(format!("{:?}", m));
    ctx.rep.count(&format!("b:attr-in:{}", variant));
    let via_unknown = matches!(m.attr, Some(api::attribute::Attr::Unknown(_)));
    let res = guard(|| attr_from_api(m.clone()));
    let a = match res {
        Err(p) => {
            let w = Json::obj(vec![("api", Json::s(m_s))]);
            ctx.panic_violation("attr_from_api", &p, w);
            return;
        }
        Ok(Err(_)) => {
            ctx.rep.count("b:attr-rejected");
            return;
        }
        Ok(Ok(a)) => a,
    };
    ctx.rep.count("b:attr-accepted");
    ctx.rep.count(&format!("b:attr-accepted:{}", variant));
    ctx.rep.nontrivial(fnv64(m_s.as_bytes()));
    let code = a.code();
    let bad = validate_attr(&a);
    let wire_valid = bad.is_empty();
    if via_unknown
        && Attribute::canonical_flags(code).is_some()
        && matches!(code, 1 | 2 | 4 | 5 | 9)
    {
        ctx.rep.count("b:unknown-with-wellknown-code-accepted");
    }
    if wire_valid {
        ctx.rep.count("b:attr-accepted-wire-valid");
    }
    // use it the way add_path would (local_path drops some codes before the table)
    let attrs = Arc::new(local_path_like(&[a.clone()]));
    let reaches_table = attrs.iter().any(|x| x == &a);
    let big = a.binary().map(|b| b.len() > 3500).unwrap_or(false);
    let nlri = Nlri::V4(bgp::Ipv4Net {
        addr: Ipv4Addr::new(10, 1, 0, 0),
        mask: 16,
    });
    let nh = Some(bgp::Nexthop::V4(Ipv4Addr::new(10, 0, 0, 1)));
    let ur = if reaches_table {
        ctx.rep.count("b:attr-used");
        use_value(ctx, Family::IPV4, &nlri, nh, &attrs, wire_valid && !big)
    } else {
        ctx.rep.count("b:attr-dropped-by-local_path(not used)");
        UseResult {
            panics: vec![],
            wire: None,
        }
    };
    let consequences: Vec<String> = {
        let mut v: Vec<String> = Vec::new();
        for (stage, p) in ur.panics.iter() {
            let s = format!(
                "{} panics at {} ({})",
                stage.split('/').next().unwrap_or(""),
                p.location,
                panic_class(&p.message)
            );
            if !v.contains(&s) {
                v.push(s);
            }
        }
        v
    };
    for (stage, p) in ur.panics.iter() {
        ctx.rep.count(&format!(
            "b:use-panic:{}",
            stage.split('/').next().unwrap_or("")
        ));
    }
    // A value that breaks a wire rule is reported under that rule (the root
    // cause); the crashes it leads to are its consequences and go into the
    // witness.  Only crashes of values the validator finds wire-valid get their
    // own `unsafe-accept` signature.
    for (rule, detail) in bad.iter() {
        let sig = if *rule == "too-long" {
            "C17/invariant/any/too-long".to_string()
        } else if *rule == "empty-list" {
            "C17/invariant/any/empty-list".to_string()
        } else if via_unknown {
            format!("C17/invariant/unknown-variant/{}", rule)
        } else {
            format!("C17/invariant/{}/{}", code, rule)
        };
        if !consequences.is_empty() {
            ctx.rep.count("b:invariant-violation-that-crashes-later");
        }
        ctx.rep.violation(
            &sig,
            &format!(
                "attr_from_api accepts a {} attribute the wire decoder would reject: {}{}",
                if via_unknown {
                    "well-known-code `Unknown`"
                } else {
                    "typed"
                },
                detail,
                if consequences.is_empty() {
                    String::new()
                } else {
                    format!("; used like add_path uses it: {}", consequences.join(", "))
                }
            ),
            Json::obj(vec![
                ("api", Json::s(m_s.clone())),
                ("accepted_as", Json::s(attr_dbg(&a))),
                ("rule", Json::s(*rule)),
                ("detail", Json::s(detail.clone())),
                ("consequences", Json::strs(consequences.clone())),
            ]),
        );
    }
    if wire_valid {
        if let Some((stage, p)) = ur.panics.first() {
            let sig = format!("C17/unsafe-accept/{}", p.location);
            ctx.rep.violation(
                &sig,
                &format!(
                    "a value accepted by attr_from_api (and valid by the wire decoder's rules) panics in {} at {} ({})",
                    stage,
                    p.location,
                    trunc(p.message.clone())
                ),
                Json::obj(vec![
                    ("api", Json::s(m_s.clone())),
                    ("accepted_as", Json::s(attr_dbg(&a))),
                    ("stage", Json::s(stage.clone())),
                    ("panic", Json::s(trunc(p.message.clone()))),
                    ("wire_valid", Json::Bool(true)),
                    ("all_panics", Json::strs(consequences.clone())),
                ]),
            );
        }
    }
    if let Some(why) = ur.wire {
        let sig = if via_unknown {
            "C17/invariant/unknown-variant/wire-rejects".to_string()
        } else {
            format!("C17/invariant/{}/wire-rejects", code)
        };
        ctx.rep.violation(
            &sig,
            &format!(
                "a value accepted by attr_from_api is not accepted back by the wire decoder: {}",
                trunc(why.clone())
            ),
            Json::obj(vec![
                ("api", Json::s(m_s.clone())),
                ("accepted_as", Json::s(attr_dbg(&a))),
                ("wire", Json::s(trunc(why))),
            ]),
        );
    }
    if ctx.rep.want_sample() && ctx.rep.evaluations % 97 == 3 {
        ctx.rep.sample(Json::obj(vec![
            ("part", Json::s("b")),
            ("api", Json::s(m_s)),
            ("accepted_as", Json::s(attr_dbg(&a))),
        ]));
    }
}

fn run_part_b_attrs(ctx: &mut Ctx, r: &mut Rng, n: u64) {
    for m in directed_api_attrs() {
        part_b_attr(ctx, m);
    }
    for _ in 0..n {
        if !ctx.rep.in_budget() {
            break;
        }
        let m = gen_api_attr(r);
        part_b_attr(ctx, m);
    }
}

// ------------------------------------------------------------------ (b) NLRI totality

fn mutate_rd(rd: &mut Option<api::RouteDistinguisher>, r: &mut Rng) {
    use api::route_distinguisher::Rd;
    *rd = match r.below(6) {
        0 => None,
        1 => Some(api::RouteDistinguisher { rd: None }),
        2 => Some(api::RouteDistinguisher {
            rd: Some(Rd::TwoOctetAsn(api::RouteDistinguisherTwoOctetAsn {
                admin: rnd_u32(r),
                assigned: rnd_u32(r),
            })),
        }),
        3 => Some(api::RouteDistinguisher {
            rd: Some(Rd::IpAddress(api::RouteDistinguisherIpAddress {
                admin: some_addr(r),
                assigned: rnd_u32(r),
            })),
        }),
        4 => Some(api::RouteDistinguisher {
            rd: Some(Rd::FourOctetAsn(api::RouteDistinguisherFourOctetAsn {
                admin: rnd_u32(r),
                assigned: rnd_u32(r),
            })),
        }),
        _ => return,
    };
}

fn weird_len(r: &mut Rng) -> u32 {
    *r.pick(&[
        0u32,
        1,
        24,
        32,
        33,
        40,
        64,
        128,
        129,
        200,
        255,
        256,
        256 + 24,
        65536 + 8,
        u32::MAX,
    ])
}

fn mutate_rules(rules: &mut Vec<api::FlowSpecRule>, r: &mut Rng) {
    use api::flow_spec_rule::Rule;
    match r.below(8) {
        0 => rules.clear(),
        1 => rules.push(api::FlowSpecRule { rule: None }),
        2 => rules.push(api::FlowSpecRule {
            rule: Some(Rule::Mac(api::FlowSpecMac {
                r#type: 15,
                address: "aa:bb:cc:dd:ee:ff".into(),
            })),
        }),
        3 => rules.push(api::FlowSpecRule {
            rule: Some(Rule::Component(api::FlowSpecComponent {
                r#type: *r.pick(&[0u32, 3, 13, 14, 255, 256 + 3]),
                items: vec![api::FlowSpecComponentItem { op: 0x81, value: 6 }],
            })),
        }),
        _ => {
            if rules.is_empty() {
                return;
            }
            let i = r.usize(rules.len());
            match rules[i].rule.as_mut() {
                Some(Rule::IpPrefix(p)) => match r.below(4) {
                    0 => p.prefix_len = weird_len(r),
                    1 => p.prefix = some_addr(r),
                    2 => p.offset = weird_len(r),
                    _ => p.r#type = *r.pick(&[0u32, 1, 2, 3, 257]),
                },
                Some(Rule::Component(c)) => match r.below(5) {
                    0 => c.items.clear(),
                    1 => {
                        for it in c.items.iter_mut() {
                            it.op &= !0x80; // no end-of-list bit
                        }
                    }
                    2 => {
                        if let Some(it) = c.items.first_mut() {
                            it.op |= 0x80; // end-of-list bit on a non-final item
                        }
                        c.items
                            .push(api::FlowSpecComponentItem { op: 0x81, value: 7 });
                    }
                    3 => {
                        if let Some(it) = c.items.last_mut() {
                            it.op =
                                *r.pick(&[0x30u32 | 0x81, 0x100 | 0x81, 0xffff_ff81, 0x08 | 0x81]);
                        }
                    }
                    _ => {
                        c.items = (0..300)
                            .map(|_| api::FlowSpecComponentItem {
                                op: 0x01,
                                value: u64::MAX,
                            })
                            .collect();
                        if let Some(it) = c.items.last_mut() {
                            it.op = 0x81;
                        }
                    }
                },
                _ => {}
            }
        }
    }
}

fn mutate_esi(e: &mut Option<api::EthernetSegmentIdentifier>, r: &mut Rng) {
    *e = match r.below(4) {
        0 => None,
        1 => Some(api::EthernetSegmentIdentifier {
            r#type: rnd_u32(r),
            value: r.bytes(9),
        }),
        2 => Some(api::EthernetSegmentIdentifier {
            r#type: 0,
            value: {
                let n = *r.pick(&[0usize, 8, 10]);
                r.bytes(n)
            },
        }),
        _ => return,
    };
}

fn mutate_node(nd: &mut Option<api::LsNodeDescriptor>, r: &mut Rng) {
    match r.below(5) {
        0 => *nd = None,
        1 => {
            if let Some(n) = nd.as_mut() {
                n.igp_router_id = match r.below(5) {
                    0 => "zz".into(),
                    1 => "0000.0000.0000.00.00".into(),
                    2 => "1.2.3.4".into(),
                    3 => "000g.0000.0000".into(),
                    _ => "x".repeat(300),
                }
            }
        }
        2 => {
            if let Some(n) = nd.as_mut() {
                n.bgp_router_id = some_addr(r);
            }
        }
        _ => {}
    }
}

/// one random field-level mutation of a valid API NLRI
fn mutate_api_nlri(n: &mut api::Nlri, r: &mut Rng) {
    use api::nlri::Nlri as N;
    let Some(inner) = n.nlri.as_mut() else { return };
    match inner {
        N::Prefix(p) => match r.below(3) {
            0 => p.prefix_len = weird_len(r),
            1 => p.prefix = some_addr(r),
            _ => p.prefix = format!("{}/8", p.prefix),
        },
        N::LabeledPrefix(p) => match r.below(4) {
            0 => p.prefix_len = weird_len(r),
            1 => p.prefix = some_addr(r),
            2 => p.labels.clear(),
            _ => {
                p.labels = (0..*r.pick(&[1usize, 2, 12, 90]))
                    .map(|_| rnd_u32(r))
                    .collect()
            }
        },
        N::LabeledVpnIpPrefix(p) => match r.below(5) {
            0 => p.prefix_len = weird_len(r),
            1 => p.prefix = some_addr(r),
            2 => p.labels.clear(),
            3 => {
                p.labels = (0..*r.pick(&[1usize, 2, 12, 90]))
                    .map(|_| rnd_u32(r))
                    .collect()
            }
            _ => mutate_rd(&mut p.rd, r),
        },
        N::FlowSpec(f) => mutate_rules(&mut f.rules, r),
        N::VpnFlowSpec(f) => {
            if r.bool() {
                mutate_rules(&mut f.rules, r)
            } else {
                mutate_rd(&mut f.rd, r)
            }
        }
        N::EvpnEthernetAd(e) => match r.below(4) {
            0 => mutate_rd(&mut e.rd, r),
            1 => mutate_esi(&mut e.esi, r),
            2 => e.label = *r.pick(&[1u32 << 24, u32::MAX, (1 << 24) - 1]),
            _ => e.ethernet_tag = rnd_u32(r),
        },
        N::EvpnMacadv(e) => match r.below(6) {
            0 => mutate_rd(&mut e.rd, r),
            1 => mutate_esi(&mut e.esi, r),
            2 => {
                e.mac_address = match r.below(5) {
                    0 => String::new(),
                    1 => "aa:bb:cc:dd:ee".into(),
                    2 => "aa:bb:cc:dd:ee:fff".into(),
                    3 => "aa-bb-cc-dd-ee-ff".into(),
                    _ => "+1:bb:cc:dd:ee:ff".into(),
                }
            }
            3 => e.ip_address = some_addr(r),
            4 => e.labels.clear(),
            _ => {
                e.labels = (0..*r.pick(&[1usize, 2, 3, 40]))
                    .map(|_| *r.pick(&[5u32, 1 << 24, u32::MAX]))
                    .collect()
            }
        },
        N::EvpnMulticast(e) => match r.below(2) {
            0 => mutate_rd(&mut e.rd, r),
            _ => e.ip_address = some_addr(r),
        },
        N::EvpnEthernetSegment(e) => match r.below(3) {
            0 => mutate_rd(&mut e.rd, r),
            1 => mutate_esi(&mut e.esi, r),
            _ => e.ip_address = some_addr(r),
        },
        N::EvpnIpPrefix(e) => match r.below(6) {
            0 => mutate_rd(&mut e.rd, r),
            1 => mutate_esi(&mut e.esi, r),
            2 => e.ip_prefix = some_addr(r),
            3 => e.ip_prefix_len = weird_len(r),
            4 => e.gw_address = some_addr(r),
            _ => e.label = *r.pick(&[1u32 << 24, u32::MAX]),
        },
        N::RouteTargetMembership(m) => match r.below(3) {
            0 => m.asn = rnd_u32(r),
            1 => m.rt = Some(api::RouteTarget { rt: None }),
            _ => {
                m.rt = Some(api::RouteTarget {
                    rt: Some(api::route_target::Rt::TwoOctetAsSpecific(
                        api::TwoOctetAsSpecificExtended {
                            is_transitive: r.bool(),
                            sub_type: *r.pick(&[2u32, 3, 258]),
                            asn: rnd_u32(r),
                            local_admin: rnd_u32(r),
                        },
                    )),
                })
            }
        },
        N::SrPolicy(s) => match r.below(3) {
            0 => {
                let k = *r.pick(&[0usize, 3, 4, 5, 16, 17, 32]);
                s.endpoint = r.bytes(k)
            }
            1 => s.length = weird_len(r),
            _ => s.color = rnd_u32(r),
        },
        N::MupInterworkSegmentDiscovery(m) => match r.below(2) {
            0 => mutate_rd(&mut m.rd, r),
            _ => m.prefix = format!("{}/{}", some_addr(r), weird_len(r)),
        },
        N::MupDirectSegmentDiscovery(m) => match r.below(2) {
            0 => mutate_rd(&mut m.rd, r),
            _ => m.address = some_addr(r),
        },
        N::MupType1SessionTransformed(m) => match r.below(6) {
            0 => mutate_rd(&mut m.rd, r),
            1 => m.prefix = format!("{}/{}", some_addr(r), weird_len(r)),
            2 => m.qfi = weird_len(r),
            3 => m.endpoint_address = some_addr(r),
            4 => {
                m.source_address = some_addr(r);
                m.source_address_length = weird_len(r);
            }
            _ => m.endpoint_address_length = weird_len(r),
        },
        N::MupType2SessionTransformed(m) => match r.below(4) {
            0 => mutate_rd(&mut m.rd, r),
            1 => m.endpoint_address = some_addr(r),
            2 => m.endpoint_address_length = weird_len(r),
            _ => m.teid = rnd_u32(r),
        },
        N::LsAddrPrefix(l) => match r.below(6) {
            0 => l.r#type = *r.pick(&[0i32, 1, 2, 3, 4, 5, 6, 99, -1]),
            1 => l.protocol_id = *r.pick(&[0i32, 7, 8, 255, 256, -1]),
            2 => l.nlri = None,
            3 => l.length = rnd_u32(r),
            _ => {
                use api::ls_addr_prefix::ls_nlri::Nlri as L;
                if let Some(x) = l.nlri.as_mut().and_then(|x| x.nlri.as_mut()) {
                    match x {
                        L::Node(n) => mutate_node(&mut n.local_node, r),
                        L::Link(n) => {
                            if r.bool() {
                                mutate_node(&mut n.local_node, r)
                            } else if r.bool() {
                                mutate_node(&mut n.remote_node, r)
                            } else if let Some(d) = n.link_descriptor.as_mut() {
                                d.interface_addr_ipv4 = some_addr(r);
                                d.neighbor_addr_ipv6 = some_addr(r);
                            }
                        }
                        L::PrefixV4(n) => {
                            if r.bool() {
                                mutate_node(&mut n.local_node, r)
                            } else if let Some(d) = n.prefix_descriptor.as_mut() {
                                d.ip_reachability =
                                    vec![format!("{}/{}", some_addr(r), weird_len(r)), "x".into()];
                                d.ospf_route_type = *r.pick(&[0i32, 6, 7, 256 + 1, -1]);
                            }
                        }
                        L::PrefixV6(n) => {
                            if r.bool() {
                                mutate_node(&mut n.local_node, r)
                            } else if let Some(d) = n.prefix_descriptor.as_mut() {
                                d.ip_reachability =
                                    vec![format!("{}/{}", some_addr(r), weird_len(r))];
                            }
                        }
                        L::Srv6Sid(n) => {
                            if r.bool() {
                                mutate_node(&mut n.local_node, r)
                            } else {
                                n.srv6_sid_information = Some(api::LsSrv6SidInformation {
                                    sids: vec![some_addr(r), some_addr(r)],
                                });
                                n.multi_topo_id = Some(api::LsMultiTopologyIdentifier {
                                    multi_topo_ids: vec![rnd_u32(r)],
                                });
                            }
                        }
                    }
                }
            }
        },
        _ => {}
    }
}

/// explicit wire rules for NLRIs (what each family's decoder refuses)
fn host_bytes(octets: &[u8], mask: u8) -> bool {
    let n = (mask as usize).div_ceil(8);
    n < octets.len() && octets[n..].iter().any(|b| *b != 0)
}

fn host_rule(bad: &mut Vec<(&'static str, String)>, what: &str, octets: &[u8], mask: u8) {
    if (mask as usize) <= octets.len() * 8 && host_bytes(octets, mask) {
        bad.push((
            "host-bytes-beyond-mask",
            format!("{} keeps address octets beyond the prefix length {} (the wire never carries them; the value aliases the masked prefix)", what, mask),
        ));
    }
}

fn validate_nlri(fam: Family, n: &Nlri) -> Vec<(&'static str, String)> {
    let mut bad: Vec<(&'static str, String)> = Vec::new();
    if !nlri_variant_families(n).contains(&fam) {
        bad.push((
            "family-mismatch",
            format!(
                "an NLRI of another family is accepted for {}",
                fam_name(fam)
            ),
        ));
        return bad;
    }
    let ops_ok = |ops: &Vec<packet::flowspec::Op>| -> Option<String> {
        if ops.is_empty() {
            return Some("component without operators".into());
        }
        for (i, op) in ops.iter().enumerate() {
            let last = i == ops.len() - 1;
            if op.bits & 0x30 != 0 {
                return Some(format!(
                    "operator byte {:#04x} carries length bits",
                    op.bits
                ));
            }
            if last != (op.bits & 0x80 != 0) {
                return Some("end-of-list bit not exactly on the last operator".into());
            }
        }
        None
    };
    let mut fs4 = |comps: &Vec<packet::flowspec::FlowspecV4Component>,
                   bad: &mut Vec<(&'static str, String)>| {
        use packet::flowspec::FlowspecV4Component as C;
        for c in comps {
            match c {
                C::DstPrefix(p) | C::SrcPrefix(p) => {
                    if p.mask > 32 {
                        bad.push((
                            "mask-range",
                            format!("flowspec IPv4 prefix length {}", p.mask),
                        ));
                    }
                    host_rule(bad, "flowspec IPv4 prefix", &p.addr.octets(), p.mask);
                }
                C::Protocol(o)
                | C::Port(o)
                | C::DstPort(o)
                | C::SrcPort(o)
                | C::IcmpType(o)
                | C::IcmpCode(o)
                | C::TcpFlags(o)
                | C::PacketLen(o)
                | C::Dscp(o)
                | C::Fragment(o) => {
                    if let Some(e) = ops_ok(o) {
                        bad.push(("flowspec-operators", e));
                    }
                }
            }
        }
    };
    let mut fs6 = |comps: &Vec<packet::flowspec::FlowspecV6Component>,
                   bad: &mut Vec<(&'static str, String)>| {
        use packet::flowspec::FlowspecV6Component as C;
        for c in comps {
            match c {
                C::DstPrefix { prefix, .. } | C::SrcPrefix { prefix, .. } => {
                    if prefix.mask > 128 {
                        bad.push((
                            "mask-range",
                            format!("flowspec IPv6 prefix length {}", prefix.mask),
                        ));
                    }
                    host_rule(
                        bad,
                        "flowspec IPv6 prefix",
                        &prefix.addr.octets(),
                        prefix.mask,
                    );
                }
                C::NextHeader(o)
                | C::Port(o)
                | C::DstPort(o)
                | C::SrcPort(o)
                | C::IcmpType(o)
                | C::IcmpCode(o)
                | C::TcpFlags(o)
                | C::PacketLen(o)
                | C::Dscp(o)
                | C::Fragment(o)
                | C::FlowLabel(o) => {
                    if let Some(e) = ops_ok(o) {
                        bad.push(("flowspec-operators", e));
                    }
                }
            }
        }
    };
    match n {
        Nlri::V4(p) => {
            if p.mask > 32 {
                bad.push(("mask-range", format!("IPv4 prefix length {}", p.mask)));
            }
            host_rule(&mut bad, "IPv4 prefix", &p.addr.octets(), p.mask);
        }
        Nlri::V6(p) => {
            if p.mask > 128 {
                bad.push(("mask-range", format!("IPv6 prefix length {}", p.mask)));
            }
            host_rule(&mut bad, "IPv6 prefix", &p.addr.octets(), p.mask);
        }
        Nlri::LabeledV4(l) => {
            if l.prefix.mask > 32 {
                bad.push((
                    "mask-range",
                    format!("labeled IPv4 prefix length {}", l.prefix.mask),
                ));
            }
            host_rule(
                &mut bad,
                "labeled IPv4 prefix",
                &l.prefix.addr.octets(),
                l.prefix.mask,
            );
            if l.labels.labels().len() * 24 + 0 + l.prefix.mask as usize > 255 {
                bad.push((
                    "nlri-length-overflow",
                    format!(
                        "{} labels do not fit the one-octet NLRI bit length",
                        l.labels.labels().len()
                    ),
                ));
            }
            if l.labels.labels().is_empty() {
                bad.push(("empty-label-stack", "labeled NLRI without a label".into()));
            }
        }
        Nlri::LabeledV6(l) => {
            if l.prefix.mask > 128 {
                bad.push((
                    "mask-range",
                    format!("labeled IPv6 prefix length {}", l.prefix.mask),
                ));
            }
            host_rule(
                &mut bad,
                "labeled IPv6 prefix",
                &l.prefix.addr.octets(),
                l.prefix.mask,
            );
            if l.labels.labels().len() * 24 + 0 + l.prefix.mask as usize > 255 {
                bad.push((
                    "nlri-length-overflow",
                    format!(
                        "{} labels do not fit the one-octet NLRI bit length",
                        l.labels.labels().len()
                    ),
                ));
            }
            if l.labels.labels().is_empty() {
                bad.push(("empty-label-stack", "labeled NLRI without a label".into()));
            }
        }
        Nlri::VpnV4(l) => {
            if l.prefix.mask > 32 {
                bad.push((
                    "mask-range",
                    format!("VPNv4 prefix length {}", l.prefix.mask),
                ));
            }
            host_rule(
                &mut bad,
                "VPNv4 prefix",
                &l.prefix.addr.octets(),
                l.prefix.mask,
            );
            if l.labels.labels().len() * 24 + 64 + l.prefix.mask as usize > 255 {
                bad.push((
                    "nlri-length-overflow",
                    format!(
                        "{} labels do not fit the one-octet NLRI bit length",
                        l.labels.labels().len()
                    ),
                ));
            }
            if l.labels.labels().is_empty() {
                bad.push(("empty-label-stack", "VPN NLRI without a label".into()));
            }
        }
        Nlri::VpnV6(l) => {
            if l.prefix.mask > 128 {
                bad.push((
                    "mask-range",
                    format!("VPNv6 prefix length {}", l.prefix.mask),
                ));
            }
            host_rule(
                &mut bad,
                "VPNv6 prefix",
                &l.prefix.addr.octets(),
                l.prefix.mask,
            );
            if l.labels.labels().len() * 24 + 64 + l.prefix.mask as usize > 255 {
                bad.push((
                    "nlri-length-overflow",
                    format!(
                        "{} labels do not fit the one-octet NLRI bit length",
                        l.labels.labels().len()
                    ),
                ));
            }
            if l.labels.labels().is_empty() {
                bad.push(("empty-label-stack", "VPN NLRI without a label".into()));
            }
        }
        Nlri::FlowspecV4(f) => fs4(&f.components, &mut bad),
        Nlri::FlowspecVpnV4(f) => fs4(&f.components, &mut bad),
        Nlri::FlowspecV6(f) => fs6(&f.components, &mut bad),
        Nlri::FlowspecVpnV6(f) => fs6(&f.components, &mut bad),
        Nlri::Mup(m) => {
            use packet::mup::MupNlri as M;
            let oct = |a: &IpAddr| match a {
                IpAddr::V4(x) => x.octets().to_vec(),
                IpAddr::V6(x) => x.octets().to_vec(),
            };
            let v6 = fam == Family::IPV6_MUP;
            let maxbits: u8 = if v6 { 128 } else { 32 };
            let mut af = |a: &IpAddr, what: &str, bad: &mut Vec<(&'static str, String)>| {
                if a.is_ipv6() != v6 {
                    bad.push((
                        "address-family-mismatch",
                        format!("MUP {} {} does not belong to {}", what, a, fam_name(fam)),
                    ));
                }
            };
            match m {
                M::InterworkSegmentDiscovery(x) => {
                    af(&x.prefix_addr, "prefix", &mut bad);
                    if x.prefix_len > maxbits {
                        bad.push(("mask-range", format!("MUP prefix length {}", x.prefix_len)));
                    }
                    host_rule(
                        &mut bad,
                        "MUP ISD prefix",
                        &oct(&x.prefix_addr),
                        x.prefix_len,
                    )
                }
                M::DirectSegmentDiscovery(x) => af(&x.address, "address", &mut bad),
                M::Type1SessionTransformed(x) => {
                    af(&x.prefix_addr, "prefix", &mut bad);
                    af(&x.endpoint_address, "endpoint", &mut bad);
                    if let Some(sa) = &x.source_address {
                        af(sa, "source", &mut bad);
                    }
                    if x.prefix_len > maxbits {
                        bad.push(("mask-range", format!("MUP prefix length {}", x.prefix_len)));
                    }
                    host_rule(
                        &mut bad,
                        "MUP T1ST prefix",
                        &oct(&x.prefix_addr),
                        x.prefix_len,
                    )
                }
                M::Type2SessionTransformed(x) => {
                    af(&x.endpoint_address, "endpoint", &mut bad);
                    if x.endpoint_address_length < maxbits
                        || x.endpoint_address_length > maxbits + 32
                    {
                        bad.push((
                            "mup-endpoint-length",
                            format!(
                                "MUP T2ST endpoint address length {}",
                                x.endpoint_address_length
                            ),
                        ));
                    } else {
                        let teid_bytes = ((x.endpoint_address_length - maxbits) as u32).div_ceil(8);
                        let carried = if teid_bytes == 0 {
                            0
                        } else {
                            u32::MAX << (32 - 8 * teid_bytes)
                        };
                        if x.teid & !carried != 0 {
                            bad.push(("mup-endpoint-length", format!("MUP T2ST TEID {:#x} has bits outside the {} TEID octets its length announces", x.teid, teid_bytes)));
                        }
                    }
                }
            }
        }
        Nlri::Evpn(e) => {
            use packet::evpn::EvpnNlri as E;
            let chk = |l: u32, bad: &mut Vec<(&'static str, String)>| {
                if l >= 1 << 24 {
                    bad.push((
                        "label-range",
                        format!("EVPN label {} does not fit 3 octets", l),
                    ));
                }
            };
            match e {
                E::EthernetAutoDiscovery(x) => chk(x.label, &mut bad),
                E::MacIpAdvertisement(x) => {
                    chk(x.label1, &mut bad);
                    if let Some(l) = x.label2 {
                        chk(l, &mut bad);
                    }
                }
                E::EthernetIpPrefix(x) => {
                    chk(x.label, &mut bad);
                    if x.ip_prefix.is_ipv6() != x.gateway_ip.is_ipv6() {
                        bad.push((
                            "address-family-mismatch",
                            format!(
                                "EVPN type-5 prefix {} with gateway {}",
                                x.ip_prefix, x.gateway_ip
                            ),
                        ));
                    }
                }
                _ => {}
            }
        }
        _ => {}
    }
    if bad.is_empty() && is_flowspec(fam) {
        if let Ok(b) = guard(|| n.encode_to_bytes()) {
            // 2-octet flowspec length prefix: 0xf000 | 12-bit length
            if b.len() > 2 + 4095 {
                bad.push((
                    "nlri-length-overflow",
                    format!(
                        "flowspec NLRI of {} octets does not fit the 12-bit length",
                        b.len() - 2
                    ),
                ));
            }
        }
    }
    bad
}

fn nh_for(fam: Family) -> Option<bgp::Nexthop> {
    if is_flowspec(fam) {
        None
    } else if is_v6_family(fam) {
        Some(bgp::Nexthop::V6("2001:db8::1".parse().unwrap()))
    } else {
        Some(bgp::Nexthop::V4(Ipv4Addr::new(10, 0, 0, 1)))
    }
}

fn part_b_nlri(ctx: &mut Ctx, m: api::Nlri, fam: Family, how: &str) {
    ctx.rep.eval();
    let m_s = trunc(format!("{:?}", m));
    let fname = fam_name(fam);
    ctx.rep.count(&format!(
        "b:nlri-in:{}",
        how.split('/').next().unwrap_or("")
    ));
    let n = match guard(|| net_from_api(m.clone(), fam)) {
        Err(p) => {
            let w = Json::obj(vec![("api", Json::s(m_s)), ("family", Json::s(fname))]);
            ctx.panic_violation("net_from_api", &p, w);
            return;
        }
        Ok(Err(_)) => {
            ctx.rep.count("b:nlri-rejected");
            if let Some(k) = how.strip_prefix("boundary/") {
                ctx.rep.count(&format!(
                    "b:boundary:rejected:{}",
                    k.split(':').next().unwrap_or("")
                ));
            }
            return;
        }
        Ok(Ok(n)) => n,
    };
    ctx.rep.count("b:nlri-accepted");
    ctx.rep.count(&format!("b:nlri-accepted:{}", fname));
    if let Some(k) = how.strip_prefix("boundary/") {
        ctx.rep.count(&format!(
            "b:boundary:accepted:{}",
            k.split(':').next().unwrap_or("")
        ));
    }
    ctx.rep
        .nontrivial(fnv64(format!("{}|{}", fname, m_s).as_bytes()));
    let bad = validate_nlri(fam, &n);
    let wire_valid = bad.is_empty();
    let attrs = Arc::new(base_attrs());
    let ur = use_value(ctx, fam, &n, nh_for(fam), &attrs, wire_valid);
    if how.starts_with("boundary/") && wire_valid && ur.panics.is_empty() && ur.wire.is_none() {
        // encoded by encode_to / encode_to_bytes under guard and decoded back equal
        ctx.rep
            .count("b:boundary:accepted-encoded-and-decoded-equal");
    }
    let consequences: Vec<String> = {
        let mut v: Vec<String> = Vec::new();
        for (stage, p) in ur.panics.iter() {
            let s = format!(
                "{} panics at {} ({})",
                stage.split('/').next().unwrap_or(""),
                p.location,
                panic_class(&p.message)
            );
            if !v.contains(&s) {
                v.push(s);
            }
        }
        v
    };
    for (stage, _) in ur.panics.iter() {
        ctx.rep.count(&format!(
            "b:use-panic:{}",
            stage.split('/').next().unwrap_or("")
        ));
    }
    let wit = |extra: Vec<(&str, Json)>| {
        let mut v = vec![
            ("api", Json::s(m_s.clone())),
            ("family", Json::s(fname.clone())),
            ("accepted_as", Json::s(nlri_dbg(&n))),
            ("consequences", Json::strs(consequences.clone())),
        ];
        v.extend(extra);
        Json::obj(v)
    };
    for (rule, detail) in bad.iter() {
        if !consequences.is_empty() {
            ctx.rep.count("b:invariant-violation-that-crashes-later");
        }
        ctx.rep.violation(
            &format!("C17/invariant/nlri/{}", rule),
            &format!(
                "net_from_api accepts an NLRI the wire decoder would reject: {}{}",
                detail,
                if consequences.is_empty() {
                    String::new()
                } else {
                    format!("; used like add_path uses it: {}", consequences.join(", "))
                }
            ),
            wit(vec![("rule", Json::s(*rule))]),
        );
    }
    if wire_valid {
        if let Some((stage, p)) = ur.panics.first() {
            ctx.rep.violation(
                &format!("C17/unsafe-accept/{}", p.location),
                &format!(
                    "an NLRI accepted by net_from_api panics in {} at {} ({})",
                    stage,
                    p.location,
                    trunc(p.message.clone())
                ),
                wit(vec![("stage", Json::s(stage.clone()))]),
            );
        } else if let Some(why) = ur.wire {
            // written onto the wire, the decoder does not give the same NLRI back
            ctx.rep.violation(
                &format!("C17/invariant/nlri/wire-rejects/{}", fname),
                &format!(
                    "an NLRI accepted by net_from_api is not a value the wire decoder produces: {}",
                    trunc(why.clone())
                ),
                wit(vec![("wire", Json::s(trunc(why)))]),
            );
        }
    }
}

fn run_part_b_nlri(ctx: &mut Ctx, r: &mut Rng, n: u64) {
    // directed
    let pfx = |s: &str, l: u32| api::Nlri {
        nlri: Some(api::nlri::Nlri::Prefix(api::IpAddressPrefix {
            prefix: s.into(),
            prefix_len: l,
        })),
    };
    run_part_b_boundary(ctx);
    part_b_nlri(ctx, api::Nlri { nlri: None }, Family::IPV4, "directed");
    part_b_nlri(ctx, pfx("10.0.0.0", 33), Family::IPV4, "directed");
    part_b_nlri(ctx, pfx("10.0.0.0", 256 + 8), Family::IPV4, "directed");
    part_b_nlri(ctx, pfx("2001:db8::", 32), Family::IPV4, "directed");
    part_b_nlri(ctx, pfx("10.0.0.0", 8), Family::IPV6, "directed");
    part_b_nlri(ctx, pfx("10.0.0.0", 8), Family::IPV4_VPN, "directed");
    part_b_nlri(ctx, pfx("", 0), Family::IPV4, "directed");
    part_b_nlri(
        ctx,
        api::Nlri {
            nlri: Some(api::nlri::Nlri::LabeledPrefix(
                api::LabeledIpAddressPrefix {
                    labels: vec![100],
                    prefix_len: 40,
                    prefix: "10.0.0.0".into(),
                },
            )),
        },
        Family::IPV4_MPLS,
        "directed",
    );
    part_b_nlri(
        ctx,
        api::Nlri {
            nlri: Some(api::nlri::Nlri::LabeledPrefix(
                api::LabeledIpAddressPrefix {
                    labels: vec![],
                    prefix_len: 8,
                    prefix: "10.0.0.0".into(),
                },
            )),
        },
        Family::IPV4_MPLS,
        "directed",
    );
    for i in 0..n {
        if !ctx.rep.in_budget() {
            break;
        }
        let fam = FAMILIES[(i as usize) % FAMILIES.len()].0;
        let (typed, _, _) = gen_nlri(fam, r);
        let mut m = match guard(|| nlri_to_api(&typed)) {
            Ok(m) => m,
            Err(_) => continue,
        };
        let how = match r.below(8) {
            0 => {
                // unchanged message, wrong family
                let other = FAMILIES[r.usize(FAMILIES.len())].0;
                part_b_nlri(ctx, m, other, "other-family");
                continue;
            }
            1 => "valid",
            _ => {
                for _ in 0..r.range(1, 2) {
                    mutate_api_nlri(&mut m, r);
                }
                "mutated"
            }
        };
        part_b_nlri(ctx, m, fam, how);
    }
}

// ------------------------------------------------------------------ (c) store and show

fn make_service() -> GrpcService {
    // same construction as the repo's own test helper (event::tests::make_grpc_service)
    let (active_conn_tx, _) = mpsc::unbounded_channel();
    let (tx, _rx) = mpsc::unbounded_channel();
    let (bfd_tx, _bfd_rx) = mpsc::unbounded_channel();
    let mut g = Global::new(tx, bfd_tx);
    g.asn = 65001;
    g.router_id = Ipv4Addr::new(1, 0, 0, 1);
    GrpcService::new(
        Arc::new(tokio::sync::Notify::new()),
        active_conn_tx,
        Arc::new(tokio::sync::RwLock::new(g)),
        Arc::new(TableManager::new(1)),
    )
}

fn attr_key(a: &api::Attribute) -> String {
    format!("{:?}", a)
}

fn api_attr_code(a: &api::Attribute) -> String {
    api_variant_name(a)
}

/// Does the API form survive attr_from_api -> attr_to_api unchanged?  Only such
/// attributes are submitted in part (c), so that a difference there is caused by
/// local_path / the table / list_path and not by a conversion loss that part (a)
/// already reports.
fn api_attr_stable(a: &api::Attribute) -> bool {
    match guard(|| attr_from_api(a.clone()).ok().map(|x| attr_to_api(&x))) {
        Ok(Some(b)) => &b == a,
        _ => false,
    }
}

struct ScCase {
    fam: Family,
    path: api::Path,
    /// textual next hop submitted (None for flowspec)
    nh: Option<String>,
    expect_attrs: Vec<api::Attribute>,
    desc: String,
}

fn build_sc_case(ctx: &mut Ctx, r: &mut Rng, fam: Family) -> Option<ScCase> {
    // a wire-decoded route of that family with a few generated attributes
    let mut gens: Vec<GenAttr> = Vec::new();
    let kinds = [
        "med",
        "local_pref",
        "community",
        "extcom",
        "large",
        "aggregator",
        "atomic",
        "aigp",
        "as_path",
        "origin",
        "originator",
        "cluster",
    ];
    let nk = r.range(0, 4);
    for _ in 0..nk {
        let k = *r.pick(&kinds);
        for g in gen_attr(k, r) {
            if !gens.iter().any(|x| x.w.code == g.w.code) {
                gens.push(g);
            }
        }
    }
    let mut wattrs = Vec::new();
    for b in base_wattrs(r) {
        if !gens.iter().any(|g| g.w.code == b.code) {
            wattrs.push(b);
        }
    }
    for g in &gens {
        wattrs.push(g.w.clone());
    }
    let (n, _, njudged) = gen_nlri(fam, r);
    let nh = gen_nh(fam, r);
    let mut c = std::mem::replace(&mut ctx.codec, bgp::PeerCodec::new());
    let res = wire_nlri(&mut c, false, fam, &n, 0, &nh, &wattrs);
    ctx.codec = c;
    let (d, _msg) = res.ok()?;
    if d.n_err > 0 || d.entries.len() != 1 {
        return None;
    }
    let nlri = d.entries[0].nlri.clone();
    let api_nlri = guard(|| nlri_to_api(&nlri)).ok()?;
    // the NLRI must be one that converts back (else part (a) reports it)
    match guard(|| net_from_api(api_nlri.clone(), fam)) {
        Ok(Ok(b)) if b == nlri => {}
        _ => {
            ctx.rep
                .count("c:skip-nlri-not-roundtripping(reported by part a)");
            return None;
        }
    }
    let omit_origin = r.chance(1, 4);
    let omit_as_path = r.chance(1, 4);
    let mut pattrs: Vec<api::Attribute> = Vec::new();
    let mut expect: Vec<api::Attribute> = Vec::new();
    for a in d.attrs.iter() {
        if (a.code() == Attribute::ORIGIN && omit_origin)
            || (a.code() == Attribute::AS_PATH && omit_as_path)
        {
            continue;
        }
        let m = guard(|| attr_to_api(a)).ok()?;
        if !api_attr_stable(&m) {
            ctx.rep.count("c:skip-attr-not-stable(reported by part a)");
            continue;
        }
        let dropped = matches!(a.code(), Attribute::ORIGINATOR_ID | Attribute::CLUSTER_LIST);
        if !dropped {
            expect.push(m.clone());
        } else {
            ctx.rep.count("c:submitted-rr-attr(documented drop)");
        }
        pattrs.push(m);
    }
    if omit_origin {
        expect.push(api_origin(0));
        ctx.rep.count("c:origin-defaulted");
    }
    if omit_as_path {
        expect.push(api_as_path(vec![]));
        ctx.rep.count("c:as-path-defaulted");
    }
    if r.chance(1, 8) {
        // the only API form attr_from_api turns into an MP_UNREACH attribute (the typed
        // MpUnreach variant is "not implemented" and rejected, which is a safe answer)
        let mut v = fam.afi().to_be_bytes().to_vec();
        v.push(fam.safi());
        pattrs.push(api_unknown(15, 0x80, v));
        ctx.rep.count("c:submitted-mp-unreach(documented drop)");
    }
    // next hop
    let nh_s = d.nexthop.map(|x| x.addr().to_string());
    if let Some(s) = &nh_s {
        if fam == Family::IPV4 && r.chance(2, 3) && !s.contains(':') {
            pattrs.push(api_next_hop(s));
        } else {
            pattrs.push(api_mp_reach(Some(fam), vec![s.clone()]));
        }
    } else if r.bool() {
        pattrs.push(api_mp_reach(Some(fam), vec![]));
    }
    r.shuffle(&mut pattrs);
    let identifier = if r.chance(1, 2) { rnd_u32(r) } else { 0 };
    let path = api::Path {
        nlri: Some(api_nlri),
        pattrs,
        family: Some(family_to_api(fam)),
        identifier,
        ..Default::default()
    };
    Some(ScCase {
        fam,
        desc: trunc(format!("{:?}", path)),
        path,
        nh: nh_s,
        expect_attrs: expect,
    })
}

fn list_global(
    rt: &tokio::runtime::Runtime,
    svc: &GrpcService,
    fam: Family,
) -> Result<Vec<api::Destination>, String> {
    list_global_opt(rt, svc, fam, false)
}

/// `binary`: also ask for `nlri_binary`, which makes the real handler run the NLRI wire encoder
fn list_global_opt(
    rt: &tokio::runtime::Runtime,
    svc: &GrpcService,
    fam: Family,
    binary: bool,
) -> Result<Vec<api::Destination>, String> {
    rt.block_on(async {
        let req = tonic::Request::new(api::ListPathRequest {
            table_type: api::TableType::Global as i32,
            family: Some(family_to_api(fam)),
            enable_nlri_binary: binary,
            ..Default::default()
        });
        let resp = svc
            .list_path(req)
            .await
            .map_err(|e| format!("list_path status {:?}: {}", e.code(), e.message()))?;
        let mut stream = resp.into_inner();
        let mut out = Vec::new();
        while let Some(item) = stream.next().await {
            match item {
                Ok(r) => {
                    if let Some(d) = r.destination {
                        out.push(d);
                    }
                }
                Err(e) => return Err(format!("stream status {:?}", e.code())),
            }
        }
        Ok(out)
    })
}

fn part_c_case(
    ctx: &mut Ctx,
    rt: &tokio::runtime::Runtime,
    svc: &GrpcService,
    case: ScCase,
) -> bool {
    ctx.rep.eval();
    let fname = fam_name(case.fam);
    ctx.rep.count(&format!("c:submitted:{}", fname));
    let wit = |extra: Vec<(&str, Json)>| {
        let mut v = vec![
            ("family", Json::s(fname.clone())),
            ("submitted", Json::s(case.desc.clone())),
        ];
        v.extend(extra);
        Json::obj(v)
    };
    let path = case.path.clone();
    let added = guard(|| {
        rt.block_on(async {
            svc.add_path(tonic::Request::new(api::AddPathRequest {
                table_type: api::TableType::Global as i32,
                vrf_id: String::new(),
                path: Some(path),
            }))
            .await
        })
    });
    let uuid = match added {
        Err(p) => {
            let w = wit(vec![]);
            ctx.panic_violation("GrpcService::add_path", &p, w);
            return false;
        }
        Ok(Err(st)) => {
            ctx.rep.violation(
                &format!("C17/store-show/{}/rejected", fname),
                &format!(
                    "add_path rejects a path made of values that convert individually: {:?} {}",
                    st.code(),
                    st.message()
                ),
                wit(vec![]),
            );
            return true;
        }
        Ok(Ok(resp)) => resp.into_inner().uuid,
    };
    ctx.rep.count("c:added");
    ctx.rep.nontrivial(fnv64(case.desc.as_bytes()));
    let listed = match guard(|| list_global(rt, svc, case.fam)) {
        Err(p) => {
            let w = wit(vec![]);
            ctx.panic_violation("GrpcService::list_path", &p, w);
            return false;
        }
        Ok(Err(e)) => {
            ctx.rep.violation(
                &format!("C17/store-show/{}/list-error", fname),
                &e,
                wit(vec![]),
            );
            return false;
        }
        Ok(Ok(l)) => l,
    };
    let paths: Vec<&api::Path> = listed.iter().flat_map(|d| d.paths.iter()).collect();
    if paths.len() != 1 {
        ctx.rep.violation(
            &format!("C17/store-show/{}/path-count", fname),
            &format!(
                "after one add_path on an empty table list_path shows {} paths",
                paths.len()
            ),
            wit(vec![("listed", Json::s(trunc(format!("{:?}", listed))))]),
        );
    } else {
        let lp = paths[0];
        let listed_s = trunc(format!("{:?}", lp));
        if lp.nlri != case.path.nlri {
            ctx.rep.violation(
                &format!("C17/store-show/{}/nlri", fname),
                "the listed NLRI differs from the submitted one",
                wit(vec![("listed", Json::s(listed_s.clone()))]),
            );
        }
        if lp.identifier != case.path.identifier {
            ctx.rep.violation(
                &format!("C17/store-show/{}/identifier", fname),
                &format!(
                    "submitted path identifier {} is listed as {}",
                    case.path.identifier, lp.identifier
                ),
                wit(vec![("listed", Json::s(listed_s.clone()))]),
            );
        }
        if lp.family != case.path.family {
            ctx.rep.violation(
                &format!("C17/store-show/{}/family", fname),
                "the listed family differs from the submitted one",
                wit(vec![("listed", Json::s(listed_s.clone()))]),
            );
        }
        // attributes as multisets, next-hop carriers apart
        let is_nh = |a: &api::Attribute| {
            matches!(
                a.attr,
                Some(api::attribute::Attr::NextHop(_)) | Some(api::attribute::Attr::MpReach(_))
            )
        };
        let mut got: Vec<String> = lp
            .pattrs
            .iter()
            .filter(|a| !is_nh(a))
            .map(attr_key)
            .collect();
        let mut want: Vec<String> = case.expect_attrs.iter().map(attr_key).collect();
        got.sort();
        want.sort();
        if got != want {
            let missing: Vec<&api::Attribute> = case
                .expect_attrs
                .iter()
                .filter(|a| !got.contains(&attr_key(a)))
                .collect();
            let extra: Vec<&api::Attribute> = lp
                .pattrs
                .iter()
                .filter(|a| !is_nh(a) && !want.contains(&attr_key(a)))
                .collect();
            let which = missing
                .first()
                .or(extra.first())
                .map(|a| api_attr_code(a))
                .unwrap_or_default();
            let kind = if !missing.is_empty() && extra.iter().any(|e| api_attr_code(e) == which) {
                "changed"
            } else if !missing.is_empty() {
                "missing"
            } else {
                "extra"
            };
            ctx.rep.violation(
                &format!("C17/store-show/{}/attrs/{}-{}", fname, which, kind),
                &format!("listed attributes differ from the submitted ones (modulo documented defaults / drops): {} {}", which, kind),
                wit(vec![
                    ("listed", Json::s(listed_s.clone())),
                    ("missing", Json::s(trunc(format!("{:?}", missing)))),
                    ("extra", Json::s(trunc(format!("{:?}", extra)))),
                ]),
            );
        }
        match &case.nh {
            Some(nh) => {
                let shown = lp.pattrs.iter().any(|a| match &a.attr {
                    Some(api::attribute::Attr::NextHop(n)) => &n.next_hop == nh,
                    Some(api::attribute::Attr::MpReach(m)) => m.next_hops.iter().any(|x| x == nh),
                    _ => false,
                });
                ctx.rep.count("c:nexthop-checked");
                if !shown {
                    let any = lp.pattrs.iter().any(|a| is_nh(a));
                    ctx.rep.violation(
                        &format!(
                            "C17/store-show/{}/nexthop-{}",
                            if case.fam == Family::IPV4 { "ipv4" } else { "mp-families" },
                            if any { "changed" } else { "missing" }
                        ),
                        &format!("the submitted next hop {} is not shown by list_path (neither NEXT_HOP nor MP_REACH carries it)", nh),
                        wit(vec![("listed", Json::s(listed_s.clone()))]),
                    );
                }
            }
            None => {}
        }
    }
    // remove it again so that the next case starts from an empty table
    let del = guard(|| {
        rt.block_on(async {
            svc.delete_path(tonic::Request::new(api::DeletePathRequest {
                uuid,
                ..Default::default()
            }))
            .await
        })
    });
    match del {
        Ok(Ok(_)) => match guard(|| list_global(rt, svc, case.fam)) {
            Ok(Ok(l)) if l.is_empty() => true,
            _ => {
                ctx.rep.count("c:delete-left-something(new service)");
                false
            }
        },
        _ => false,
    }
}

fn run_part_c(ctx: &mut Ctx, r: &mut Rng, n: u64) {
    let rt = match tokio::runtime::Builder::new_current_thread()
        .enable_all()
        .build()
    {
        Ok(rt) => rt,
        Err(e) => {
            ctx.rep
                .inconclusive(&format!("cannot build a tokio runtime: {}", e));
            return;
        }
    };
    run_part_c_boundary(ctx, &rt);
    run_part_c_nexthop(ctx, &rt, r);
    let mut svc = make_service();
    for i in 0..n {
        if !ctx.rep.in_budget() {
            break;
        }
        // IPv4 / IPv6 / VPN / EVPN / flowspec twice as often as the rest
        let fam = if i % 2 == 0 {
            *r.pick(&[
                Family::IPV4,
                Family::IPV6,
                Family::IPV4_VPN,
                Family::IPV6_VPN,
                Family::L2VPN_EVPN,
                Family::IPV4_FLOWSPEC,
                Family::IPV6_FLOWSPEC,
                Family::IPV4_FLOWSPEC_VPN,
            ])
        } else {
            FAMILIES[r.usize(FAMILIES.len())].0
        };
        let Some(case) = build_sc_case(ctx, r, fam) else {
            ctx.rep.count("c:case-not-built");
            continue;
        };
        if !part_c_case(ctx, &rt, &svc, case) {
            svc = make_service();
        }
    }
}

// ------------------------------------------------------------------ NLRIs at and around their size limits

fn b_rd() -> Option<api::RouteDistinguisher> {
    Some(api::RouteDistinguisher {
        rd: Some(api::route_distinguisher::Rd::TwoOctetAsn(
            api::RouteDistinguisherTwoOctetAsn {
                admin: 65000,
                assigned: 1,
            },
        )),
    })
}

/// address string with only the ceil(len/8) leading octets set (the canonical form)
fn b_addr(v6: bool, len: u32) -> String {
    let n = (len as usize).div_ceil(8);
    if v6 {
        let mut o = Ipv6Addr::from(0x2001_0db8_85a3_08d3_1319_8a2e_0370_7344u128).octets();
        if n < 16 {
            o[n..].fill(0);
        }
        Ipv6Addr::from(o).to_string()
    } else {
        let mut o = [10u8, 129, 66, 35];
        if n < 4 {
            o[n..].fill(0);
        }
        Ipv4Addr::from(o).to_string()
    }
}

fn b_labels(n: u32) -> Vec<u32> {
    (0..n).map(|i| 16 + i).collect()
}

fn b_flowspec_rules(body_len: usize) -> Vec<api::FlowSpecRule> {
    // one Port component: 1 type octet + operators of 2 octets (value <= 0xff) or 3 (value <= 0xffff)
    let payload = body_len.saturating_sub(1);
    let (n2, n3) = if payload % 2 == 0 {
        (payload / 2, 0)
    } else {
        (payload.saturating_sub(3) / 2, 1)
    };
    let mut items: Vec<api::FlowSpecComponentItem> = Vec::new();
    for _ in 0..n3 {
        items.push(api::FlowSpecComponentItem {
            op: 0x01,
            value: 1000,
        });
    }
    for i in 0..n2 {
        items.push(api::FlowSpecComponentItem {
            op: 0x01,
            value: (i % 200) as u64,
        });
    }
    if let Some(l) = items.last_mut() {
        l.op |= 0x80;
    }
    vec![api::FlowSpecRule {
        rule: Some(api::flow_spec_rule::Rule::Component(
            api::FlowSpecComponent { r#type: 4, items },
        )),
    }]
}

/// (API NLRI, family, "kind:target") — every NLRI kind whose length lives in one octet
/// (or 12 bits for flowspec) at its limit, one step below / above it, and one label
/// (24 bits) below / above it; plus the largest prefix lengths and field values.
fn boundary_api_nlris() -> Vec<(api::Nlri, Family, String)> {
    use api::nlri::Nlri as N;
    let mut out: Vec<(api::Nlri, Family, String)> = Vec::new();
    let targets: [u32; 8] = [255 - 24, 254, 255, 256, 257, 256 + 24, 255 - 48, 256 + 48];
    for (kind, fam, v6, extra, vpn) in [
        ("vpn4", Family::IPV4_VPN, false, 64u32, true),
        ("vpn6", Family::IPV6_VPN, true, 64u32, true),
        ("lu4", Family::IPV4_MPLS, false, 0u32, false),
        ("lu6", Family::IPV6_MPLS, true, 0u32, false),
    ] {
        let maxlen: u32 = if v6 { 128 } else { 32 };
        let mut combos: Vec<(u32, u32, String)> = Vec::new();
        // every (depth, length) pair that encodes to a target bit length
        for t in targets {
            for l in 1..=11u32 {
                let fixed = 24 * l + extra;
                if t >= fixed && t - fixed <= maxlen {
                    combos.push((l, t - fixed, format!("bits={}", t)));
                }
            }
        }
        // depth 1..=11 with the shortest / longest / just-too-long prefix
        for l in 1..=11u32 {
            for len in [0, maxlen - 1, maxlen, maxlen + 1] {
                combos.push((
                    l,
                    len,
                    if len > maxlen {
                        "len>max".into()
                    } else {
                        "grid".into()
                    },
                ));
            }
        }
        combos.push((0, maxlen, "no-label".into()));
        combos.push((12, 0, "grid".into()));
        for (l, len, tag) in combos {
            let m = if vpn {
                N::LabeledVpnIpPrefix(api::LabeledVpnipAddressPrefix {
                    labels: b_labels(l),
                    rd: b_rd(),
                    prefix_len: len,
                    prefix: b_addr(v6, len.min(maxlen)),
                })
            } else {
                N::LabeledPrefix(api::LabeledIpAddressPrefix {
                    labels: b_labels(l),
                    prefix_len: len,
                    prefix: b_addr(v6, len.min(maxlen)),
                })
            };
            out.push((
                api::Nlri { nlri: Some(m) },
                fam,
                format!("{}:{}", kind, tag),
            ));
        }
    }
    // plain prefixes
    for (fam, v6) in [
        (Family::IPV4, false),
        (Family::IPV6, true),
        (Family::IPV4_MC, false),
        (Family::IPV6_MC, true),
    ] {
        let maxlen: u32 = if v6 { 128 } else { 32 };
        for len in [0, maxlen - 1, maxlen, maxlen + 1, 255, 256] {
            out.push((
                api::Nlri {
                    nlri: Some(N::Prefix(api::IpAddressPrefix {
                        prefix_len: len,
                        prefix: b_addr(v6, len.min(maxlen)),
                    })),
                },
                fam,
                format!(
                    "prefix:len={}",
                    if len > maxlen {
                        "over".to_string()
                    } else {
                        "in".to_string()
                    }
                ),
            ));
        }
    }
    // flowspec: the 1-octet / 2-octet length switch at 240 and the 12-bit limit 4095
    for (kind, fam, vpn) in [
        ("fs4", Family::IPV4_FLOWSPEC, false),
        ("fs6", Family::IPV6_FLOWSPEC, false),
        ("fsvpn4", Family::IPV4_FLOWSPEC_VPN, true),
        ("fsvpn6", Family::IPV6_FLOWSPEC_VPN, true),
    ] {
        for t in [
            237usize, 238, 239, 240, 241, 242, 243, 4092, 4093, 4094, 4095, 4096, 4097, 4098, 4200,
        ] {
            // for the VPN flavours the RD (8 octets) is part of the NLRI body
            let body = if vpn { t.saturating_sub(8) } else { t };
            let rules = b_flowspec_rules(body);
            let m = if vpn {
                N::VpnFlowSpec(api::VpnFlowSpecNlri { rd: b_rd(), rules })
            } else {
                N::FlowSpec(api::FlowSpecNlri { rules })
            };
            out.push((
                api::Nlri { nlri: Some(m) },
                fam,
                format!("{}:len={}", kind, t),
            ));
        }
    }
    // EVPN: longest routes and field limits
    let esi = || {
        Some(api::EthernetSegmentIdentifier {
            r#type: 0,
            value: vec![1, 2, 3, 4, 5, 6, 7, 8, 9],
        })
    };
    for (l1, l2, tag) in [
        (0x00ff_ffffu32, 0x00ff_ffffu32, "label=max"),
        (0x0100_0000, 5, "label=over"),
        (5, 0x0100_0000, "label=over"),
    ] {
        for ip in ["", "192.0.2.1", "2001:db8::1"] {
            out.push((
                api::Nlri {
                    nlri: Some(N::EvpnMacadv(api::EvpnmacipAdvertisementRoute {
                        rd: b_rd(),
                        esi: esi(),
                        ethernet_tag: u32::MAX,
                        mac_address: "ff:ff:ff:ff:ff:ff".into(),
                        ip_address: ip.into(),
                        labels: vec![l1, l2],
                    })),
                },
                Family::L2VPN_EVPN,
                format!("evpn:{}", tag),
            ));
        }
    }
    for (v6, len) in [
        (false, 0u32),
        (false, 32),
        (false, 33),
        (true, 128),
        (true, 129),
        (true, 255),
        (false, 128),
    ] {
        let maxlen = if v6 { 128 } else { 32 };
        out.push((
            api::Nlri {
                nlri: Some(N::EvpnIpPrefix(api::EvpnipPrefixRoute {
                    rd: b_rd(),
                    esi: esi(),
                    ethernet_tag: u32::MAX,
                    ip_prefix: b_addr(v6, 128),
                    ip_prefix_len: len,
                    gw_address: if v6 {
                        "2001:db8::fe".into()
                    } else {
                        "192.0.2.254".into()
                    },
                    label: 0x00ff_ffff,
                })),
            },
            Family::L2VPN_EVPN,
            format!(
                "evpn:type5-len={}",
                if len > maxlen { "over" } else { "in" }
            ),
        ));
    }
    for label in [0x00ff_ffffu32, 0x0100_0000] {
        out.push((
            api::Nlri {
                nlri: Some(N::EvpnEthernetAd(api::EvpnEthernetAutoDiscoveryRoute {
                    rd: b_rd(),
                    esi: esi(),
                    ethernet_tag: u32::MAX,
                    label,
                })),
            },
            Family::L2VPN_EVPN,
            format!(
                "evpn:{}",
                if label > 0x00ff_ffff {
                    "label=over"
                } else {
                    "label=max"
                }
            ),
        ));
    }
    // MUP: prefix lengths and the T2ST endpoint length (address + 0..=32 TEID bits)
    for (fam, v6) in [(Family::IPV4_MUP, false), (Family::IPV6_MUP, true)] {
        let maxlen: u32 = if v6 { 128 } else { 32 };
        let ep = if v6 { "2001:db8::2" } else { "192.0.2.2" };
        for len in [0, maxlen - 1, maxlen, maxlen + 1, 255] {
            let tag = format!(
                "mup:prefix-len={}",
                if len > maxlen { "over" } else { "in" }
            );
            out.push((
                api::Nlri {
                    nlri: Some(N::MupInterworkSegmentDiscovery(
                        api::MupInterworkSegmentDiscoveryRoute {
                            rd: b_rd(),
                            prefix: format!("{}/{}", b_addr(v6, len.min(maxlen)), len),
                        },
                    )),
                },
                fam,
                tag.clone(),
            ));
            #[allow(deprecated)]
            out.push((
                api::Nlri {
                    nlri: Some(N::MupType1SessionTransformed(
                        api::MupType1SessionTransformedRoute {
                            rd: b_rd(),
                            prefix_length: 0,
                            prefix: format!("{}/{}", b_addr(v6, len.min(maxlen)), len),
                            teid: u32::MAX,
                            qfi: 255,
                            endpoint_address_length: maxlen,
                            endpoint_address: ep.into(),
                            source_address_length: maxlen,
                            source_address: ep.into(),
                        },
                    )),
                },
                fam,
                tag,
            ));
        }
        for extra in [0u32, 8, 24, 31, 32, 33, 64] {
            let (len, teid) = (
                maxlen + extra,
                if extra == 0 {
                    0
                } else {
                    u32::MAX << (32 - 8 * extra.min(32).div_ceil(8))
                },
            );
            out.push((
                api::Nlri {
                    nlri: Some(N::MupType2SessionTransformed(
                        api::MupType2SessionTransformedRoute {
                            rd: b_rd(),
                            endpoint_address_length: len,
                            endpoint_address: ep.into(),
                            teid,
                        },
                    )),
                },
                fam,
                format!("mup:t2st-len={}", if extra > 32 { "over" } else { "in" }),
            ));
        }
        out.push((
            api::Nlri {
                nlri: Some(N::MupType2SessionTransformed(
                    api::MupType2SessionTransformedRoute {
                        rd: b_rd(),
                        endpoint_address_length: maxlen - 1,
                        endpoint_address: ep.into(),
                        teid: 0,
                    },
                )),
            },
            fam,
            "mup:t2st-len=under".into(),
        ));
    }
    out
}

fn run_part_b_boundary(ctx: &mut Ctx) {
    for (m, fam, tag) in boundary_api_nlris() {
        ctx.rep.count(&format!("b:boundary-in:{}", tag));
        ctx.rep.count(&format!(
            "b:boundary-in-kind:{}",
            tag.split(':').next().unwrap_or("")
        ));
        part_b_nlri(ctx, m, fam, &format!("boundary/{}", tag));
    }
}

/// The same limit cases through the real add_path / list_path(with nlri_binary) / delete_path.
fn run_part_c_boundary(ctx: &mut Ctx, rt: &tokio::runtime::Runtime) {
    let mut svc = make_service();
    for (m, fam, tag) in boundary_api_nlris() {
        ctx.rep.eval();
        let fname = fam_name(fam);
        let kind = tag.split(':').next().unwrap_or("").to_string();
        ctx.rep.count(&format!("c:boundary-in-kind:{}", kind));
        let mut pattrs = vec![api_origin(0)];
        if fam == Family::IPV4 {
            pattrs.push(api_next_hop("192.0.2.1"));
        } else if !is_flowspec(fam) {
            pattrs.push(api_mp_reach(
                Some(fam),
                vec![if is_v6_family(fam) {
                    "2001:db8::1".into()
                } else {
                    "192.0.2.1".into()
                }],
            ));
        }
        let path = api::Path {
            nlri: Some(m.clone()),
            pattrs,
            family: Some(family_to_api(fam)),
            ..Default::default()
        };
        let desc = trunc(format!("{:?}", path));
        let wit = |extra: Vec<(&str, Json)>| {
            let mut v = vec![
                ("family", Json::s(fname.clone())),
                ("limit_case", Json::s(tag.clone())),
                ("submitted", Json::s(desc.clone())),
            ];
            v.extend(extra);
            Json::obj(v)
        };
        let added = guard(|| {
            rt.block_on(async {
                svc.add_path(tonic::Request::new(api::AddPathRequest {
                    table_type: api::TableType::Global as i32,
                    vrf_id: String::new(),
                    path: Some(path),
                }))
                .await
            })
        });
        let uuid = match added {
            Err(p) => {
                let w = wit(vec![]);
                ctx.panic_violation("GrpcService::add_path", &p, w);
                svc = make_service();
                continue;
            }
            Ok(Err(_)) => {
                ctx.rep.count(&format!("c:boundary:rejected:{}", kind));
                continue;
            }
            Ok(Ok(r)) => r.into_inner().uuid,
        };
        ctx.rep.count(&format!("c:boundary:stored:{}", kind));
        ctx.rep.nontrivial(fnv64(desc.as_bytes()));
        // what was stored must be a value the wire can carry
        let internal = match guard(|| net_from_api(m.clone(), fam)) {
            Ok(Ok(n)) => Some(n),
            _ => None,
        };
        if let Some(n) = &internal {
            for (rule, detail) in validate_nlri(fam, n) {
                ctx.rep.violation(
                    &format!(
                        "C17/store-show/{}/unrepresentable-nlri-stored/{}",
                        fname, rule
                    ),
                    &format!("add_path stores an NLRI the wire cannot carry: {}", detail),
                    wit(vec![("stored_as", Json::s(nlri_dbg(n)))]),
                );
            }
        }
        let mut ok = true;
        match guard(|| list_global_opt(rt, &svc, fam, true)) {
            Err(p) => {
                let w = wit(vec![]);
                ctx.panic_violation("GrpcService::list_path(enable_nlri_binary)", &p, w);
                svc = make_service();
                continue;
            }
            Ok(Err(e)) => {
                ctx.rep.violation(
                    &format!("C17/store-show/{}/list-error", fname),
                    &e,
                    wit(vec![]),
                );
                ok = false;
            }
            Ok(Ok(l)) => {
                let paths: Vec<&api::Path> = l.iter().flat_map(|d| d.paths.iter()).collect();
                if paths.len() != 1 {
                    ctx.rep.violation(
                        &format!("C17/store-show/{}/path-count", fname),
                        &format!(
                            "after one add_path on an empty table list_path shows {} paths",
                            paths.len()
                        ),
                        wit(vec![]),
                    );
                    ok = false;
                } else {
                    let lp = paths[0];
                    if lp.nlri.as_ref() != Some(&m) {
                        ctx.rep.violation(
                            &format!("C17/store-show/{}/nlri", fname),
                            "the listed NLRI differs from the submitted (canonical) one",
                            wit(vec![("listed", Json::s(trunc(format!("{:?}", lp.nlri))))]),
                        );
                    }
                    // nlri_binary is the wire form: the decoder must give the stored value back
                    if let Some(n) = &internal {
                        let msg = build_update(
                            fam,
                            &Nh::None,
                            &lp.nlri_binary,
                            &base_wattrs(&mut Rng::new(1)),
                        );
                        let msg = if fam == Family::IPV4 {
                            build_update(
                                fam,
                                &Nh::V4(Ipv4Addr::new(192, 0, 2, 1)),
                                &lp.nlri_binary,
                                &base_wattrs(&mut Rng::new(1)),
                            )
                        } else if is_flowspec(fam) {
                            msg
                        } else {
                            build_update(
                                fam,
                                &Nh::V6("2001:db8::1".parse().unwrap()),
                                &lp.nlri_binary,
                                &base_wattrs(&mut Rng::new(1)),
                            )
                        };
                        let mut c = new_codec(false);
                        match decode_update(&mut c, &msg) {
                            Ok(d)
                                if d.n_err == 0
                                    && d.entries.len() == 1
                                    && &d.entries[0].nlri == n =>
                            {
                                ctx.rep.count("c:boundary:nlri-binary-decodes-equal");
                            }
                            other => {
                                let why = match other {
                                    Ok(d) => format!(
                                        "decodes to {} entries / {:?}",
                                        d.entries.len(),
                                        d.entries.first().map(|e| nlri_dbg(&e.nlri))
                                    ),
                                    Err(e) => e,
                                };
                                ctx.rep.violation(
                                    &format!("C17/store-show/{}/nlri-binary", fname),
                                    &format!("the wire form shown by list_path does not decode to the stored NLRI: {}", trunc(why)),
                                    wit(vec![("nlri_binary", Json::s(trunc(hex(&lp.nlri_binary))))]),
                                );
                            }
                        }
                    }
                }
            }
        }
        let del = guard(|| {
            rt.block_on(async {
                svc.delete_path(tonic::Request::new(api::DeletePathRequest {
                    uuid,
                    ..Default::default()
                }))
                .await
            })
        });
        if !ok || !matches!(del, Ok(Ok(_))) {
            svc = make_service();
        }
    }
}

// ------------------------------------------------------------------ next-hop carriers of an API path (MP_REACH / NEXT_HOP)

fn family_group(f: Family) -> &'static str {
    match f {
        Family::IPV4 | Family::IPV6 => "unicast",
        Family::IPV4_MC | Family::IPV6_MC => "multicast",
        Family::IPV4_MPLS | Family::IPV6_MPLS => "labeled",
        Family::IPV4_VPN | Family::IPV6_VPN => "vpn",
        Family::L2VPN_EVPN => "evpn",
        Family::IPV4_FLOWSPEC | Family::IPV6_FLOWSPEC => "flowspec",
        Family::IPV4_FLOWSPEC_VPN | Family::IPV6_FLOWSPEC_VPN => "flowspec-vpn",
        Family::LS => "ls",
        Family::IPV4_SRPOLICY | Family::IPV6_SRPOLICY => "sr-policy",
        Family::IPV4_MUP | Family::IPV6_MUP => "mup",
        Family::RTC => "rtc",
        _ => "other",
    }
}

/// Ask the real UPDATE parser: is an MP_REACH_NLRI of `fam` whose next-hop field is the
/// one in `mp` (daemon-internal layout [AFI:2][SAFI:1][NH_LEN:1][next hop][reserved:1])
/// followed by `nlri` an acceptable announcement, and with which next hop?
fn wire_accepts_mp_reach(
    fam: Family,
    mp: &[u8],
    nlri: &[u8],
) -> Result<Option<bgp::Nexthop>, String> {
    if mp.len() < 4 {
        return Err("MP_REACH value shorter than AFI/SAFI/next-hop length".into());
    }
    // Only the next-hop field is taken from the API attribute (that is all local_path
    // reads); AFI/SAFI are the path's family, the reserved octet and the NLRI are ours.
    let nh_len = mp[3] as usize;
    if mp.len() < 4 + nh_len {
        return Err(format!(
            "next hop truncated: length {} but {} octets follow",
            nh_len,
            mp.len() - 4
        ));
    }
    let mut v = Vec::new();
    v.extend_from_slice(&fam.afi().to_be_bytes());
    v.push(fam.safi());
    v.extend_from_slice(&mp[3..4 + nh_len]);
    v.push(0);
    v.extend_from_slice(nlri);
    let mut pa = Vec::new();
    for a in base_wattrs(&mut Rng::new(7)) {
        put_attr(&mut pa, &a);
    }
    let mut m = wa(Attribute::MP_REACH, v);
    m.force_ext = true;
    put_attr(&mut pa, &m);
    let mut msg = vec![0xffu8; 16];
    msg.extend_from_slice(&((19 + 4 + pa.len()) as u16).to_be_bytes());
    msg.push(2);
    msg.extend_from_slice(&0u16.to_be_bytes());
    msg.extend_from_slice(&(pa.len() as u16).to_be_bytes());
    msg.extend_from_slice(&pa);
    let mut codec = new_codec(false);
    let parsed = match guard(|| codec.parse_message(&msg)) {
        Err(p) => return Err(format!("parser panics at {}", p.location)),
        Ok(Err(n)) => {
            return Err(format!(
                "NOTIFICATION {}/{}",
                n.notification_code(),
                n.notification_subcode()
            ));
        }
        Ok(Ok(m)) => m,
    };
    let msgs: Vec<bgp::Message> = match packet::validate_message(parsed, false) {
        Err(n) => {
            return Err(format!(
                "NOTIFICATION {}/{}",
                n.notification_code(),
                n.notification_subcode()
            ));
        }
        Ok(it) => it.collect(),
    };
    for m in msgs {
        if let bgp::Message::Update(bgp::Update::Reach {
            family,
            nexthop,
            entries,
            ..
        }) = m
        {
            if family == fam && !entries.is_empty() {
                return Ok(nexthop);
            }
        }
    }
    Err("the UPDATE is not an announcement for the family (treated as withdraw / ignored)".into())
}

const NH4: &str = "192.0.2.1";
const NH6: &str = "2001:db8::1";
const NHLL: &str = "fe80::1";

/// (label, next-hop carrying attributes in submission order)
fn nexthop_forms(fam: Family) -> Vec<(String, Vec<api::Attribute>)> {
    let raw = |tail: &[u8]| {
        let mut v = fam.afi().to_be_bytes().to_vec();
        v.push(fam.safi());
        v.extend_from_slice(tail);
        api_unknown(14, 0x80, v)
    };
    let s = |x: &str| x.to_string();
    let other = if fam == Family::IPV6 {
        Family::IPV4_VPN
    } else {
        Family::IPV6
    };
    let v4 = [192u8, 0, 2, 1];
    let v6 = "2001:db8::1".parse::<Ipv6Addr>().unwrap().octets();
    let ll = "fe80::1".parse::<Ipv6Addr>().unwrap().octets();
    let cat =
        |parts: &[&[u8]]| -> Vec<u8> { parts.iter().flat_map(|p| p.iter().copied()).collect() };
    let mut f: Vec<(String, Vec<api::Attribute>)> = vec![
        (s("none"), vec![]),
        (s("mp/0"), vec![api_mp_reach(Some(fam), vec![])]),
        (s("mp/1-v4"), vec![api_mp_reach(Some(fam), vec![s(NH4)])]),
        (s("mp/1-v6"), vec![api_mp_reach(Some(fam), vec![s(NH6)])]),
        (
            s("mp/2-v6+ll"),
            vec![api_mp_reach(Some(fam), vec![s(NH6), s(NHLL)])],
        ),
        (
            s("mp/2-v4+v4"),
            vec![api_mp_reach(Some(fam), vec![s(NH4), s("192.0.2.2")])],
        ),
        (
            s("mp/2-v4+v6"),
            vec![api_mp_reach(Some(fam), vec![s(NH4), s(NH6)])],
        ),
        (
            s("mp/bad-garbage"),
            vec![api_mp_reach(Some(fam), vec![s("garbage")])],
        ),
        (
            s("mp/bad-empty-string"),
            vec![api_mp_reach(Some(fam), vec![s("")])],
        ),
        (
            s("mp/bad-cidr"),
            vec![api_mp_reach(Some(fam), vec![s("192.0.2.1/32")])],
        ),
        (
            s("mp/bad-then-good"),
            vec![api_mp_reach(Some(fam), vec![s("garbage"), s(NH4)])],
        ),
        (s("mp/family-none"), vec![api_mp_reach(None, vec![s(NH4)])]),
        (
            s("mp/inner-flowspec4-0"),
            vec![api_mp_reach(Some(Family::IPV4_FLOWSPEC), vec![])],
        ),
        (
            s("mp/inner-flowspec6vpn-0"),
            vec![api_mp_reach(Some(Family::IPV6_FLOWSPEC_VPN), vec![])],
        ),
        (
            s("mp/inner-other-1"),
            vec![api_mp_reach(Some(other), vec![s(NH4)])],
        ),
        (s("raw/nhlen0"), vec![raw(&[0, 0])]),
        (s("raw/nhlen0-no-reserved"), vec![raw(&[0])]),
        (s("raw/nhlen0-trailing"), vec![raw(&[0, 0, 1, 2, 3])]),
        (s("raw/nhlen3"), vec![raw(&[3, 1, 2, 3, 0])]),
        (s("raw/nhlen4"), vec![raw(&cat(&[&[4], &v4, &[0]]))]),
        (s("raw/nhlen4-truncated"), vec![raw(&[4, 192, 0, 0])]),
        (s("raw/nhlen5"), vec![raw(&cat(&[&[5], &v4, &[9, 0]]))]),
        (
            s("raw/nhlen12-rd"),
            vec![raw(&cat(&[&[12], &[0u8; 8], &v4, &[0]]))],
        ),
        (s("raw/nhlen16"), vec![raw(&cat(&[&[16], &v6, &[0]]))]),
        (
            s("raw/nhlen24-rd"),
            vec![raw(&cat(&[&[24], &[0u8; 8], &v6, &[0]]))],
        ),
        (s("raw/nhlen32"), vec![raw(&cat(&[&[32], &v6, &ll, &[0]]))]),
        (
            s("raw/nhlen32-ll-zero"),
            vec![raw(&cat(&[&[32], &v6, &[0u8; 16], &[0]]))],
        ),
        (s("raw/nhlen255"), vec![raw(&cat(&[&[255], &v6, &[0]]))]),
        (s("raw/short"), vec![api_unknown(14, 0x80, vec![0])]),
        (s("raw/empty"), vec![api_unknown(14, 0x80, vec![])]),
        (s("nh/v4"), vec![api_next_hop(NH4)]),
        (s("nh/v6"), vec![api_next_hop(NH6)]),
        (s("nh/empty"), vec![api_next_hop("")]),
        (s("nh/garbage"), vec![api_next_hop("garbage")]),
        (
            s("nh-v4+mp/inner-flowspec4-0"),
            vec![
                api_next_hop(NH4),
                api_mp_reach(Some(Family::IPV4_FLOWSPEC), vec![]),
            ],
        ),
        (
            s("mp/inner-flowspec4-0+nh-v4"),
            vec![
                api_mp_reach(Some(Family::IPV4_FLOWSPEC), vec![]),
                api_next_hop(NH4),
            ],
        ),
        (
            s("mp/1-v4+raw/nhlen0"),
            vec![api_mp_reach(Some(fam), vec![s(NH4)]), raw(&[0, 0])],
        ),
    ];
    f.retain(|(_, v)| v.len() <= 2);
    f
}

fn run_part_c_nexthop(ctx: &mut Ctx, rt: &tokio::runtime::Runtime, r: &mut Rng) {
    let mut svc = make_service();
    for (fam, fname) in FAMILIES.iter() {
        let fam = *fam;
        let group = family_group(fam);
        // a valid NLRI of the family, in its canonical API form
        let (api_nlri, internal) = {
            let mut found = None;
            for _ in 0..20 {
                let (typed, _, judged) = gen_nlri(fam, r);
                if !judged {
                    continue;
                }
                let mut c = new_codec(false);
                if let Ok((d, _)) = wire_nlri(
                    &mut c,
                    false,
                    fam,
                    &typed,
                    0,
                    &gen_nh(fam, r),
                    &base_wattrs(r),
                ) {
                    if d.entries.len() == 1 {
                        let n = d.entries[0].nlri.clone();
                        if let Ok(m) = guard(|| nlri_to_api(&n)) {
                            if matches!(guard(|| net_from_api(m.clone(), fam)), Ok(Ok(ref b)) if b == &n)
                            {
                                found = Some((m, n));
                                break;
                            }
                        }
                    }
                }
            }
            match found {
                Some(x) => x,
                None => {
                    ctx.rep.count("c:nexthop:no-nlri-for-family");
                    continue;
                }
            }
        };
        let nlri_bytes = internal.encode_to_bytes();
        for (label, carriers) in nexthop_forms(fam) {
            ctx.rep.eval();
            ctx.rep.count(&format!("c:nexthop-in:{}", group));
            ctx.rep.count(&format!("c:nexthop-form:{}", label));
            let mut pattrs = vec![api_origin(0)];
            pattrs.extend(carriers.iter().cloned());
            let path = api::Path {
                nlri: Some(api_nlri.clone()),
                pattrs,
                family: Some(family_to_api(fam)),
                ..Default::default()
            };
            let desc = trunc(format!("{:?}", path));
            let wit = |extra: Vec<(&str, Json)>| {
                let mut v = vec![
                    ("family", Json::s(fname.to_string())),
                    ("next_hop_form", Json::s(label.clone())),
                    ("submitted", Json::s(desc.clone())),
                ];
                v.extend(extra);
                Json::obj(v)
            };
            // what the wire parser says about every MP_REACH the client supplied
            let mut wire_refusal: Option<(bool, String, String)> = None; // (nh_len == 0, reason, bytes)
            let mut wire_nexthop: Option<Option<bgp::Nexthop>> = None;
            let mut n_mp = 0;
            for c in carriers.iter() {
                if let Ok(Ok(a)) = guard(|| attr_from_api(c.clone())) {
                    if a.code() == Attribute::MP_REACH {
                        n_mp += 1;
                        let b = a.binary().cloned().unwrap_or_default();
                        match wire_accepts_mp_reach(fam, &b, &nlri_bytes) {
                            Ok(nh) => wire_nexthop = Some(nh),
                            Err(e) => {
                                if wire_refusal.is_none() {
                                    wire_refusal =
                                        Some((b.get(3).copied().unwrap_or(0) == 0, e, hex(&b)));
                                }
                            }
                        }
                    }
                }
            }
            let added = guard(|| {
                rt.block_on(async {
                    svc.add_path(tonic::Request::new(api::AddPathRequest {
                        table_type: api::TableType::Global as i32,
                        vrf_id: String::new(),
                        path: Some(path),
                    }))
                    .await
                })
            });
            let uuid = match added {
                Err(p) => {
                    let w = wit(vec![]);
                    ctx.panic_violation("GrpcService::add_path", &p, w);
                    svc = make_service();
                    continue;
                }
                Ok(Err(_)) => {
                    ctx.rep.count("c:nexthop:rejected");
                    if wire_refusal.is_some() {
                        ctx.rep.count("c:nexthop:wire-refuses-and-api-refuses");
                    } else if n_mp > 0 {
                        ctx.rep.count("c:nexthop:api-stricter-than-wire(allowed)");
                    }
                    continue;
                }
                Ok(Ok(resp)) => resp.into_inner().uuid,
            };
            ctx.rep.count("c:nexthop:accepted");
            ctx.rep.count(&format!("c:nexthop:accepted:{}", group));
            ctx.rep.nontrivial(fnv64(desc.as_bytes()));
            let changes = svc.tables.collect_loc_rib_paths(fam);
            let stored: Option<Option<bgp::Nexthop>> = changes
                .iter()
                .find(|c| c.net == internal)
                .and_then(|c| c.current_paths.first().map(|p| p.nexthop));
            let mut healthy = true;
            match stored {
                None => {
                    ctx.rep.violation(
                        &format!("C17/store-show/{}/path-count", fname),
                        "add_path succeeded but the path is not in the Loc-RIB",
                        wit(vec![]),
                    );
                    healthy = false;
                }
                Some(stored_nh) => {
                    // (2) accepted through the API => the parser accepts the same MP_REACH
                    if let Some((zero, why, bytes)) = &wire_refusal {
                        ctx.rep.violation(
                            &format!("C17/invariant/mp-reach/{}/{}", if *zero { "nexthop-missing" } else { "nexthop-malformed" }, group),
                            &format!(
                                "add_path accepts a path whose MP_REACH_NLRI the UPDATE parser refuses for this family ({}); it is stored with next hop {:?}",
                                why, stored_nh
                            ),
                            wit(vec![("mp_reach_internal_hex", Json::s(bytes.clone())), ("parser", Json::s(why.clone())), ("stored_nexthop", Json::s(format!("{:?}", stored_nh)))]),
                        );
                    } else if let (Some(w), 1) = (wire_nexthop, carriers.len()) {
                        if n_mp == 1 {
                            ctx.rep.count("c:nexthop:accepted-and-parser-accepts");
                            if w != stored_nh {
                                ctx.rep.violation(
                                    &format!("C17/invariant/mp-reach/nexthop-differs/{}", group),
                                    &format!("the next hop stored from an MP_REACH_NLRI ({:?}) is not the one the UPDATE parser reads from it ({:?})", stored_nh, w),
                                    wit(vec![]),
                                );
                            }
                        }
                    }
                    if carriers.is_empty() {
                        // no next hop supplied: documented "fill in self on export", not judged
                        ctx.rep.count(
                            "unjudged:path-without-any-next-hop-attribute(self next hop on export)",
                        );
                    }
                    // (c) both next hops of a global + link-local pair are shown back
                    if label == "mp/2-v6+ll" {
                        if let Ok(Ok(l)) = guard(|| list_global(rt, &svc, fam)) {
                            let shown: Vec<String> = l
                                .iter()
                                .flat_map(|d| d.paths.iter())
                                .flat_map(|p| p.pattrs.iter())
                                .flat_map(|a| match &a.attr {
                                    Some(api::attribute::Attr::MpReach(m)) => m.next_hops.clone(),
                                    Some(api::attribute::Attr::NextHop(n)) => {
                                        vec![n.next_hop.clone()]
                                    }
                                    _ => vec![],
                                })
                                .collect();
                            ctx.rep.count("c:nexthop:global+link-local-checked");
                            if !(shown.iter().any(|x| x == NH6) && shown.iter().any(|x| x == NHLL))
                            {
                                ctx.rep.violation(
                                    "C17/store-show/mp-families/link-local-nexthop-dropped",
                                    &format!("MP_REACH next_hops [{}, {}] (global + link-local, the form list_path itself shows for a learned path) is listed as {:?}", NH6, NHLL, shown),
                                    wit(vec![("stored_nexthop", Json::s(format!("{:?}", stored_nh)))]),
                                );
                            }
                        }
                    }
                    // (3) use after accept: what a peer of every role would be sent must decode
                    // An IPv4-unicast route with an IPv6 next hop is accepted by the parser as
                    // well (RFC 8950 form); whether it can be sent to a peer depends on the
                    // extended-next-hop capability of that session, which is not this property.
                    let rfc8950 = fam == Family::IPV4
                        && matches!(
                            stored_nh,
                            Some(bgp::Nexthop::V6(_)) | Some(bgp::Nexthop::V6LinkLocal(..))
                        );
                    if rfc8950 {
                        ctx.rep.count("unjudged:ipv4-unicast-with-ipv6-next-hop(export needs RFC 8950 on the session)");
                    }
                    for (role, rname) in ROLES.iter() {
                        if rfc8950 {
                            break;
                        }
                        let ectx = export_ctx(*role);
                        for ch in changes.iter().filter(|c| c.net == internal) {
                            let frames = guard(|| {
                                let mut em = ExportMap::default();
                                let mut pending = crate::peer_tx::PendingTx::new(false);
                                process_nlri_change(
                                    ch,
                                    1,
                                    "198.51.100.9".parse().unwrap(),
                                    &mut em,
                                    &mut pending,
                                    &ectx,
                                    None,
                                    None,
                                    None,
                                    None,
                                    None,
                                );
                                let mut out: Vec<Vec<u8>> = Vec::new();
                                for m in pending.drain_messages(fam) {
                                    let mut c = new_codec(false);
                                    let mut buf = bytes::BytesMut::new();
                                    let _ = c.encode_to(&m, &mut buf);
                                    out.push(buf.to_vec());
                                }
                                out
                            });
                            match frames {
                                Err(p) => {
                                    ctx.rep.violation(
                                        &format!("C17/unsafe-accept/{}", p.location),
                                        &format!("a path accepted by add_path panics when exported / encoded for a {} peer at {} ({})", rname, p.location, trunc(p.message.clone())),
                                        wit(vec![]),
                                    );
                                }
                                Ok(frames) => {
                                    if frames.is_empty() {
                                        ctx.rep.count("c:nexthop:not-exported-to-role");
                                    }
                                    for buf in frames {
                                        for part in split_messages(&buf) {
                                            let mut c = new_codec(false);
                                            match decode_update(&mut c, part) {
                                                Ok(d)
                                                    if d.n_err == 0
                                                        && d.entries
                                                            .iter()
                                                            .any(|e| e.nlri == internal)
                                                        && (d.nexthop.is_some()
                                                            || is_flowspec(fam)) =>
                                                {
                                                    ctx.rep.count("c:nexthop:exported-and-decoded");
                                                }
                                                other => {
                                                    let why = match other {
                                                        Ok(d) => format!(
                                                            "decoded with {} attribute errors, next hop {:?}, {} NLRIs",
                                                            d.n_err,
                                                            d.nexthop,
                                                            d.entries.len()
                                                        ),
                                                        Err(e) => e,
                                                    };
                                                    ctx.rep.violation(
                                                        &format!("C17/invariant/mp-reach/export-not-decodable/{}", group),
                                                        &format!("the UPDATE a {} peer would be sent for an accepted path is refused by the UPDATE parser: {}", rname, why),
                                                        wit(vec![("update_hex", Json::s(trunc(hex(part))))]),
                                                    );
                                                }
                                            }
                                        }
                                    }
                                }
                            }
                        }
                    }
                }
            }
            let del = guard(|| {
                rt.block_on(async {
                    svc.delete_path(tonic::Request::new(api::DeletePathRequest {
                        uuid,
                        ..Default::default()
                    }))
                    .await
                })
            });
            if !healthy
                || !matches!(del, Ok(Ok(_)))
                || !svc.tables.collect_loc_rib_paths(fam).is_empty()
            {
                svc = make_service();
            }
        }
    }
}

// ------------------------------------------------------------------ nested TLVs: k >= 1 well-formed TLVs + a malformed tail

/// A malformed tail for a TLV sequence whose header is `type_octets` of type followed by
/// `len_octets` of length: an over-long length, a truncated header, or a lone octet.
fn malformed_tail(r: &mut Rng, type_octets: usize, len_octets: usize, t: &[u8]) -> Vec<u8> {
    let mut out = t[..type_octets].to_vec();
    match r.below(3) {
        0 => {
            // length runs past the end of the value
            let body = r.range(0, 4) as usize;
            let claimed = body as u32 + 1 + r.below(40) as u32;
            if len_octets == 2 {
                out.extend_from_slice(&(claimed as u16).to_be_bytes());
            } else {
                out.push(claimed as u8);
            }
            out.extend_from_slice(&r.bytes(body));
        }
        1 => {
            // header cut inside the length field (only possible with a 2-octet length) or right after the type
            if len_octets == 2 && r.bool() {
                out.push(0);
            }
        }
        _ => {
            out.truncate(1); // a lone trailing octet
        }
    }
    out
}

/// For every attribute with nested TLVs and a raw / verbatim display: a value the UPDATE
/// decoder accepts (these attributes are opaque to it) made of well-formed TLVs followed
/// by a malformed tail.  attr_to_api -> attr_from_api must give the identical bytes.
fn gen_malformed_tail(r: &mut Rng) -> GenAttr {
    match r.below(6) {
        0 | 1 => {
            // TUNNEL_ENCAP, tunnel type other than SR policy: tail inside the tunnel value or after the tunnel TLVs
            let t = *r.pick(&[8u16, 1, 2, 7, 11, 100]);
            let mut val = Vec::new();
            for _ in 0..r.range(1, 3) {
                let st = *r.pick(&[1u8, 4, 6, 8, 130]);
                let n = r.range(0, 6) as usize;
                val.extend_from_slice(&sub_tlv_te(st, &r.bytes(n)));
            }
            if r.chance(2, 3) {
                let st = *r.pick(&[1u8, 4, 200]);
                val.extend_from_slice(&malformed_tail(r, 1, if st >= 128 { 2 } else { 1 }, &[st]));
                ga(Attribute::TUNNEL_ENCAP, tlv16(t, &val), true, "malformed-tail/tunnel-encap")
            } else {
                let mut v = tlv16(t, &val);
                v.extend_from_slice(&malformed_tail(r, 2, 2, &[0, 8]));
                ga(Attribute::TUNNEL_ENCAP, v, true, "malformed-tail/tunnel-encap-outer")
            }
        }
        2 => {
            // SR policy tunnel (type 15): typed sub-TLVs, then a malformed one
            let mut val = gen_sr_policy_body(r);
            if val.is_empty() {
                val = sub_tlv_te(12, &[0, 0, 0, 0, 0, 100]);
            }
            let st = *r.pick(&[13u8, 128, 15]);
            val.extend_from_slice(&malformed_tail(r, 1, if st >= 128 { 2 } else { 1 }, &[st]));
            ga(Attribute::TUNNEL_ENCAP, tlv16(15, &val), true, "malformed-tail/tunnel-encap-sr-policy")
        }
        3 => {
            let mut v = gen_prefix_sid(r).w.val;
            let t = *r.pick(&[1u8, 3, 5, 9]);
            v.extend_from_slice(&malformed_tail(r, 1, 2, &[t]));
            ga(Attribute::PREFIX_SID, v, true, "malformed-tail/prefix-sid")
        }
        4 => {
            let mut v = gen_ls_attr(r).w.val;
            let t = (*r.pick(&[1095u16, 1026, 1088, 9999])).to_be_bytes();
            v.extend_from_slice(&malformed_tail(r, 2, 2, &t));
            ga(Attribute::LS, v, true, "malformed-tail/bgp-ls")
        }
        _ => {
            let mut v = vec![1u8, 0, 11];
            v.extend_from_slice(&r.next_u64().to_be_bytes());
            v.extend_from_slice(&malformed_tail(r, 1, 2, &[1]));
            ga(Attribute::AIGP, v, true, "malformed-tail/aigp")
        }
    }
}
