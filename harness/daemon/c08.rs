//! C08 — Hold and keepalive timing follows the negotiated value, and zero
//! disables it.
//!
//! Workload: the real `crate::fsm::PeerFsm` is taken through OpenSent →
//! OpenConfirm → Established by *timed* input sequences (advance virtual time
//! by Δ, OPEN / KEEPALIVE / UPDATE / ROUTE-REFRESH arrival, update sent) for
//! every pair of hold times in {0,3,9,90,65535}².  Its `SetHoldTimer` /
//! `SetKeepaliveTimer` / `SessionDown` outputs are interpreted by `VDriver`, a
//! virtual-time transcription of what `PeerSession::apply_outputs`, `flush_tx`
//! and `run_select` (daemon/src/event/mod.rs) do with them — the trusted base
//! of this monitor:
//!
//!   * `holdtime_futures` / `keepalive_futures` each hold ONE `tokio::time::sleep`;
//!     initially `sleep(Duration::new(u64::MAX, 0))` (never);
//!   * `Set*Timer(n)` replaces it by `sleep(Duration::from_secs(n))`, i.e. the
//!     deadline becomes now+n (n = 0 fires at the next select; an n so large that
//!     Instant::now()+n overflows is tokio's far future = never);
//!   * `select_biased!` polls hold expiry before keepalive expiry before the
//!     socket; an expiry feeds `Input::HoldTimerExpired` / `KeepaliveTimerExpired`
//!     and applies the outputs; a `FuturesUnordered` whose only sleep completed
//!     yields `None` once more at the next select (the `_ =` pattern takes it as
//!     another expiry) and is skipped afterwards (`is_terminated`);
//!   * `flush_tx` feeds `Input::UpdateSent` and interprets only
//!     `SetKeepaliveTimer` of its outputs.
//!
//! Oracle: written from the statement — negotiated = min(local, remote),
//! keepalive = negotiated / 3; the hold deadline is (time of the last KEEPALIVE /
//! UPDATE received, or of the OPEN exchange) + negotiated and moves on nothing
//! else; the session dies of hold expiry exactly at that deadline; negotiated 0
//! ⇒ after the OPEN exchange neither deadline is finite and no timer ever ends
//! the session.
use crate::fsm::{Input, Output, PeerFsm, PeerFsmOutput, Role, SessionDownReason, State};
use crate::verif_common::*;
use fnv::FnvHashMap;
use rustybgp_packet::bgp::{self, Capability, Family, HoldTime};
use std::collections::BTreeMap;

const LOCAL_AS: u32 = 65001;
const REMOTE_AS: u32 = 65002;
const HOLDS: [u16; 5] = [0, 3, 9, 90, 65535];

// ------------------------------------------------------------------ virtual-time driver (trusted base)

#[derive(Clone, Copy, PartialEq, Eq, Debug)]
enum Timer {
    /// one pending sleep; None = far future (never)
    At(Option<u64>),
    /// the sleep completed and was taken: the empty FuturesUnordered yields None at the next select
    Drained,
    /// FuturesUnordered terminated: skipped by select until replaced
    Dead,
}

impl Timer {
    fn finite(self) -> bool {
        matches!(self, Timer::At(Some(_)) | Timer::Drained)
    }
    fn deadline(self) -> Option<u64> {
        match self {
            Timer::At(d) => d,
            _ => None,
        }
    }
}

/// `tokio::time::sleep(Duration::from_secs(n))` armed at `now`: the deadline is
/// now+n; when `Instant::now() + n` overflows tokio substitutes its far future
/// (that is how the initial `Duration::new(u64::MAX, 0)` sleeps never fire).
/// The std Instant overflows from n ≈ 2^63 s on; anything ≥ 2^62 s (10^11
/// years) is treated as never here.
fn deadline_of(now: u64, n: u64) -> Option<u64> {
    if n >= 1 << 62 {
        None
    } else {
        Some(now.saturating_add(n))
    }
}

#[derive(Clone, Copy, PartialEq, Eq, Debug)]
enum Fire {
    Hold,
    Keepalive,
}

#[derive(Clone, Copy, Debug)]
struct VDriver {
    now: u64,
    hold: Timer,
    ka: Timer,
}

impl VDriver {
    fn new() -> VDriver {
        VDriver {
            now: 0,
            hold: Timer::At(None),
            ka: Timer::At(None),
        }
    }
    /// apply_outputs: returns true when the step terminates the session
    fn apply_outputs(&mut self, outs: &[PeerFsmOutput]) -> bool {
        let mut down = false;
        for o in outs {
            match o {
                PeerFsmOutput::Connection(_, Output::SetKeepaliveTimer(s)) => {
                    self.ka = Timer::At(deadline_of(self.now, *s));
                }
                PeerFsmOutput::Connection(_, Output::SetHoldTimer(s)) => {
                    self.hold = Timer::At(deadline_of(self.now, *s));
                }
                PeerFsmOutput::Connection(_, Output::SessionDown(..)) => down = true,
                PeerFsmOutput::CloseConnection => down = true,
                _ => {}
            }
        }
        down
    }
    /// flush_tx after Input::UpdateSent: only SetKeepaliveTimer is looked at
    fn apply_update_sent(&mut self, outs: &[PeerFsmOutput]) {
        for o in outs {
            if let PeerFsmOutput::Connection(_, Output::SetKeepaliveTimer(s)) = o {
                self.ka = Timer::At(deadline_of(self.now, *s));
            }
        }
    }
    /// the timer arms of one select_biased! iteration at the current instant
    fn poll(&mut self) -> Option<Fire> {
        match self.hold {
            Timer::At(Some(t)) if t <= self.now => {
                self.hold = Timer::Drained;
                return Some(Fire::Hold);
            }
            Timer::Drained => {
                self.hold = Timer::Dead;
                return Some(Fire::Hold);
            }
            _ => {}
        }
        match self.ka {
            Timer::At(Some(t)) if t <= self.now => {
                self.ka = Timer::Drained;
                Some(Fire::Keepalive)
            }
            Timer::Drained => {
                self.ka = Timer::Dead;
                Some(Fire::Keepalive)
            }
            _ => None,
        }
    }
    fn next_wake(&self) -> Option<u64> {
        match (self.hold.deadline(), self.ka.deadline()) {
            (Some(a), Some(b)) => Some(a.min(b)),
            (a, b) => a.or(b),
        }
    }
}

// ------------------------------------------------------------------ events

#[derive(Clone, Copy, PartialEq, Eq, Debug)]
enum Ev {
    Adv(u64),
    Open,
    Ka,
    Upd,
    Rr,
    UpdSent,
}

#[derive(Clone, Copy, PartialEq, Eq, Debug)]
enum Kind {
    HoldFire,
    KaFire,
    Open,
    Ka,
    Upd,
    Rr,
    UpdSent,
}

impl Kind {
    fn label(self) -> &'static str {
        match self {
            Kind::HoldFire => "hold-timer-expiry",
            Kind::KaFire => "keepalive-timer-expiry",
            Kind::Open => "open",
            Kind::Ka => "keepalive",
            Kind::Upd => "update",
            Kind::Rr => "route-refresh",
            Kind::UpdSent => "update-sent",
        }
    }
}

fn ev_str(e: Ev) -> String {
    match e {
        Ev::Adv(d) => format!("advance({})", d),
        Ev::Open => "rx-open".into(),
        Ev::Ka => "rx-keepalive".into(),
        Ev::Upd => "rx-update".into(),
        Ev::Rr => "rx-route-refresh".into(),
        Ev::UpdSent => "update-sent".into(),
    }
}

struct Pair {
    local: u16,
    remote: u16,
    role: Role,
    open: bgp::Message,
}

impl Pair {
    fn new(local: u16, remote: u16, role: Role) -> Pair {
        Pair {
            local,
            remote,
            role,
            open: bgp::Message::Open(bgp::Open {
                as_number: REMOTE_AS,
                holdtime: HoldTime::new(remote).expect("hold time 0 or >= 3"),
                router_id: 0x0a00_0002,
                capability: vec![
                    Capability::MultiProtocol(Family::IPV4),
                    Capability::FourOctetAsNumber(REMOTE_AS),
                    Capability::RouteRefresh,
                ],
            }),
        }
    }
    fn fsm(&self) -> PeerFsm {
        PeerFsm::new(
            0x0a00_0001,
            LOCAL_AS,
            vec![
                Capability::MultiProtocol(Family::IPV4),
                Capability::FourOctetAsNumber(LOCAL_AS),
                Capability::RouteRefresh,
            ],
            self.local as u64,
            REMOTE_AS,
            FnvHashMap::default(),
        )
    }
    fn name(&self) -> String {
        format!(
            "local={} remote={} role={:?}",
            self.local, self.remote, self.role
        )
    }
    /// the time steps worth taking for this pair
    fn deltas(&self) -> Vec<u64> {
        let h = self.local.min(self.remote) as u64;
        let mut v = if h == 0 {
            vec![1, 30, 240, 100_000]
        } else {
            let k = h / 3;
            vec![1, k, h - 1, h, h + 1]
        };
        v.sort();
        v.dedup();
        v
    }
}

// ------------------------------------------------------------------ oracle (from the statement)

struct Oracle {
    local: u64,
    remote: u64,
    exchanged: bool,
    h: u64,
    k: u64,
    /// when the session must die of hold expiry; None = never
    hold_deadline: Option<u64>,
    last_ka_tx: u64,
    last_tx: u64,
    /// which input last armed the hold timer (names the cause of a timer-caused end)
    hold_armed_by: &'static str,
}

struct Finding {
    sig: String,
    what: String,
}

#[derive(Default)]
struct Tally {
    m: BTreeMap<&'static str, u64>,
}
impl Tally {
    fn add(&mut self, k: &'static str) {
        *self.m.entry(k).or_insert(0) += 1;
    }
    fn flush(&mut self, rep: &mut Report) {
        for (k, v) in std::mem::take(&mut self.m) {
            rep.count_n(k, v);
        }
    }
}

struct Facts {
    down: Option<&'static str>,
    set_hold: Vec<u64>,
    set_ka: Vec<u64>,
    sent_keepalive: bool,
    established_remote_hold: Option<u16>,
}

fn facts(outs: &[PeerFsmOutput]) -> Facts {
    let mut f = Facts {
        down: None,
        set_hold: Vec::new(),
        set_ka: Vec::new(),
        sent_keepalive: false,
        established_remote_hold: None,
    };
    for o in outs {
        match o {
            PeerFsmOutput::Connection(_, Output::SetHoldTimer(n)) => f.set_hold.push(*n),
            PeerFsmOutput::Connection(_, Output::SetKeepaliveTimer(n)) => f.set_ka.push(*n),
            PeerFsmOutput::Connection(_, Output::SendMessage(bgp::Message::Keepalive)) => {
                f.sent_keepalive = true
            }
            PeerFsmOutput::Connection(
                _,
                Output::SessionEstablished {
                    remote_holdtime, ..
                },
            ) => f.established_remote_hold = Some(*remote_holdtime),
            PeerFsmOutput::Connection(_, Output::SessionDown(reason, _)) => {
                f.down = Some(match reason {
                    SessionDownReason::HoldTimerExpired => "hold-timer-expired",
                    SessionDownReason::RemoteNotification(_) => "remote-notification",
                    SessionDownReason::LocalNotification(_) => "local-notification",
                    SessionDownReason::FsmError => "fsm-error",
                    SessionDownReason::AdminShutdown => "admin-shutdown",
                    SessionDownReason::IoError => "io-error",
                })
            }
            PeerFsmOutput::CloseConnection => f.down = Some("close-connection"),
            _ => {}
        }
    }
    f
}

impl Oracle {
    fn new(p: &Pair) -> Oracle {
        Oracle {
            local: p.local as u64,
            remote: p.remote as u64,
            exchanged: false,
            h: 0,
            k: 0,
            hold_deadline: None,
            last_ka_tx: 0,
            last_tx: 0,
            hold_armed_by: "connect",
        }
    }

    /// Judge one input (a message, update-sent, or a timer expiry delivered by the driver).
    #[allow(clippy::too_many_arguments)]
    fn judge(
        &mut self,
        kind: Kind,
        st_before: State,
        st_after: State,
        f: &Facts,
        before: &VDriver,
        after: &VDriver,
        t: &mut Tally,
        out: &mut Vec<Finding>,
    ) {
        let now = after.now;
        let lab = kind.label();
        let mut fail = |sig: String, what: String| out.push(Finding { sig, what });
        let armed_by = self.hold_armed_by;
        if !f.set_hold.is_empty() {
            self.hold_armed_by = lab;
        }

        if !self.exchanged {
            if kind == Kind::Open && st_before == State::OpenSent && st_after == State::OpenConfirm
            {
                // the OPEN exchange completes here
                self.exchanged = true;
                self.h = self.local.min(self.remote);
                self.k = self.h / 3;
                self.last_ka_tx = now;
                self.last_tx = now;
                if self.h > 0 {
                    t.add("clause:negotiated:open-exchange-nonzero");
                    self.hold_deadline = Some(now + self.h);
                    if after.hold != Timer::At(Some(now + self.h)) {
                        fail(
                            "C08/negotiated/hold-timer-after-open".into(),
                            format!(
                                "after the OPEN exchange at t={} the hold timer is {:?}, expected t+min({},{})={}",
                                now,
                                after.hold,
                                self.local,
                                self.remote,
                                now + self.h
                            ),
                        );
                        self.hold_deadline = after.hold.deadline();
                    }
                    if after.ka != Timer::At(Some(now + self.k)) {
                        fail(
                            "C08/negotiated/keepalive-timer-after-open".into(),
                            format!(
                                "after the OPEN exchange at t={} the keepalive timer is {:?}, expected t+{}/3={}",
                                now,
                                after.ka,
                                self.h,
                                now + self.k
                            ),
                        );
                        self.resync_ka(after);
                    }
                } else {
                    t.add("clause:zero-disables:open-exchange-zero");
                    self.hold_deadline = None;
                    if after.hold.finite() {
                        if let Some(n) = f.set_hold.last() {
                            fail(
                                format!(
                                    "C08/zero-disables/{}/open",
                                    if *n == 0 {
                                        "set-hold-timer-0"
                                    } else {
                                        "set-hold-timer"
                                    }
                                ),
                                format!(
                                    "negotiated hold time 0 but the OPEN step armed the hold timer with {}",
                                    n
                                ),
                            );
                        } else {
                            fail(
                                "C08/zero-disables/initial-hold-timer-still-armed".into(),
                                format!(
                                    "negotiated hold time 0 (local {}, remote {}) but the OpenSent hold timer keeps running after the OPEN exchange: {:?} at t={}",
                                    self.local, self.remote, after.hold, now
                                ),
                            );
                        }
                    }
                    if after.ka.finite() {
                        fail(
                            format!(
                                "C08/zero-disables/{}/open",
                                if f.set_ka.last() == Some(&0) {
                                    "set-keepalive-timer-0"
                                } else {
                                    "set-keepalive-timer"
                                }
                            ),
                            format!(
                                "negotiated hold time 0 but the keepalive timer is {:?} after the OPEN exchange",
                                after.ka
                            ),
                        );
                    }
                }
            } else {
                // OpenSent: the statement says nothing about timing before the exchange
                if matches!(kind, Kind::HoldFire | Kind::KaFire) {
                    t.add("unjudged:timer-expiry-before-open-exchange");
                } else {
                    t.add("step:before-open-exchange");
                }
            }
            return;
        }

        let alive_after = f.down.is_none();
        if kind == Kind::Ka && st_before == State::OpenConfirm && st_after == State::Established {
            t.add("reach:established");
            if f.established_remote_hold != Some(self.remote as u16) {
                fail(
                    "C08/negotiated/session-established-remote-holdtime".into(),
                    format!(
                        "SessionEstablished.remote_holdtime = {:?}, the remote advertised {}",
                        f.established_remote_hold, self.remote
                    ),
                );
            }
        }

        if self.h == 0 {
            // ---- zero-disables
            t.add("clause:zero-disables:step");
            for n in &f.set_hold {
                if deadline_of(now, *n).is_some() {
                    fail(
                        format!(
                            "C08/zero-disables/{}/{}",
                            if *n == 0 {
                                "set-hold-timer-0"
                            } else {
                                "set-hold-timer"
                            },
                            lab
                        ),
                        format!(
                            "negotiated hold time 0 but {} armed the hold timer with {} s (the driver turns it into sleep({}))",
                            lab, n, n
                        ),
                    );
                }
            }
            for n in &f.set_ka {
                if deadline_of(now, *n).is_some() {
                    fail(
                        format!(
                            "C08/zero-disables/{}/{}",
                            if *n == 0 {
                                "set-keepalive-timer-0"
                            } else {
                                "set-keepalive-timer"
                            },
                            lab
                        ),
                        format!(
                            "negotiated hold time 0 but {} armed the keepalive timer with {} s",
                            lab, n
                        ),
                    );
                }
            }
            match kind {
                Kind::HoldFire | Kind::KaFire => {
                    t.add("zero:timer-fired");
                    if !alive_after {
                        fail(
                            if kind == Kind::HoldFire {
                                format!(
                                    "C08/zero-disables/session-down-by-hold-timer/armed-by-{}",
                                    armed_by
                                )
                            } else {
                                "C08/zero-disables/session-down-by-keepalive-timer".to_string()
                            },
                            format!(
                                "negotiated hold time 0 but the session was torn down by a timer at t={} ({}); the hold timer had been armed by {}",
                                now,
                                f.down.unwrap_or("?"),
                                armed_by
                            ),
                        );
                    }
                }
                _ => {}
            }
            return;
        }

        // ---- negotiated > 0
        match kind {
            Kind::HoldFire => {
                t.add("clause:expiry-iff:hold-fired");
                if self.hold_deadline != Some(now) {
                    fail(
                        format!(
                            "C08/expiry-iff/{}",
                            match self.hold_deadline {
                                Some(d) if now < d => "early",
                                Some(_) => "late",
                                None => "unexpected",
                            }
                        ),
                        format!(
                            "hold timer expired at t={}, but nothing-received-for-{}s is reached at {:?}",
                            now, self.h, self.hold_deadline
                        ),
                    );
                }
                if f.down != Some("hold-timer-expired") {
                    fail(
                        "C08/expiry-iff/expiry-ignored".into(),
                        format!(
                            "hold timer expired at t={} in {:?} but the session was not torn down for it ({:?})",
                            now, st_before, f.down
                        ),
                    );
                }
            }
            Kind::KaFire => {
                t.add("clause:negotiated:keepalive-fired");
                if !f.sent_keepalive {
                    fail(
                        "C08/negotiated/no-keepalive-sent".into(),
                        format!(
                            "keepalive timer expired at t={} in {:?} but no KEEPALIVE was sent",
                            now, st_before
                        ),
                    );
                }
                self.last_ka_tx = now;
                self.last_tx = now;
                if !alive_after {
                    fail(
                        "C08/expiry-iff/keepalive-timer-killed-session".into(),
                        format!(
                            "the keepalive timer expiry at t={} tore the session down",
                            now
                        ),
                    );
                }
            }
            Kind::Ka | Kind::Upd => {
                if alive_after {
                    t.add("clause:re-arm:rearming-input");
                    self.hold_deadline = Some(now + self.h);
                }
            }
            Kind::UpdSent => {
                self.last_tx = now;
            }
            Kind::Rr | Kind::Open => {}
        }
        if !alive_after {
            if f.down != Some("hold-timer-expired") {
                t.add("end:non-timer-session-down");
            }
            return;
        }
        // re-arm: the hold deadline in force
        if after.hold != Timer::At(self.hold_deadline) {
            if matches!(kind, Kind::Ka | Kind::Upd) {
                fail(
                    format!("C08/re-arm/not-rearmed-by-{}", lab),
                    format!(
                        "{} received at t={} must move the hold deadline to {:?}; the driver's hold timer is {:?} (was {:?})",
                        lab, now, self.hold_deadline, after.hold, before.hold
                    ),
                );
            } else {
                fail(
                    format!("C08/re-arm/{}", lab),
                    format!(
                        "{} at t={} moved the hold deadline from {:?} to {:?}; only KEEPALIVE / UPDATE receipt may",
                        lab, now, before.hold, after.hold
                    ),
                );
            }
            self.hold_deadline = after.hold.deadline();
        } else if !matches!(kind, Kind::Ka | Kind::Upd) {
            t.add("clause:re-arm:non-rearming-input");
        }
        // keepalive cadence: a KEEPALIVE is due one interval after the last one sent
        // (the statement leaves open whether an UPDATE sent restarts the interval)
        let ok_ka = matches!(after.ka, Timer::At(Some(d)) if d == self.last_ka_tx + self.k || d == self.last_tx + self.k);
        if !ok_ka {
            fail(
                format!("C08/negotiated/keepalive-interval/{}", lab),
                format!(
                    "after {} at t={} the keepalive timer is {:?}; expected last-sent + {}/3, i.e. {} or {}",
                    lab,
                    now,
                    after.ka,
                    self.h,
                    self.last_ka_tx + self.k,
                    self.last_tx + self.k
                ),
            );
            self.resync_ka(after);
        }
    }

    fn resync_ka(&mut self, d: &VDriver) {
        if let Some(x) = d.ka.deadline() {
            self.last_ka_tx = x.saturating_sub(self.k);
            self.last_tx = self.last_ka_tx;
        }
    }
}

// ------------------------------------------------------------------ running one timed history

struct Run {
    findings_last: Vec<Finding>,
    /// index of the event at which the session ended (or could not take the event)
    ended_at: Option<usize>,
    judged_last: u64,
    last_nontrivial: bool,
    trace: Vec<String>,
}

fn render_outs(outs: &[PeerFsmOutput]) -> String {
    let mut v = Vec::new();
    for o in outs {
        v.push(match o {
            PeerFsmOutput::CloseConnection => "CloseConnection".to_string(),
            PeerFsmOutput::StopActiveConnect => "StopActiveConnect".to_string(),
            PeerFsmOutput::Connection(_, out) => match out {
                Output::SendMessage(bgp::Message::Keepalive) => "Send KEEPALIVE".into(),
                Output::SendMessage(bgp::Message::Open(o)) => {
                    format!("Send OPEN(hold={})", o.holdtime.seconds())
                }
                Output::SendMessage(bgp::Message::Notification(n)) => {
                    format!(
                        "Send NOTIFICATION({}/{})",
                        n.notification_code(),
                        n.notification_subcode()
                    )
                }
                Output::SendMessage(_) => "Send ...".into(),
                Output::SetKeepaliveTimer(n) => format!("SetKeepaliveTimer({})", n),
                Output::SetHoldTimer(n) => format!("SetHoldTimer({})", n),
                Output::SessionNegotiated(_) => "SessionNegotiated".into(),
                Output::SessionEstablished {
                    remote_holdtime, ..
                } => format!("SessionEstablished(remote_holdtime={})", remote_holdtime),
                Output::SessionDown(r, n) => format!(
                    "SessionDown({}{})",
                    match r {
                        SessionDownReason::HoldTimerExpired => "HoldTimerExpired",
                        SessionDownReason::RemoteNotification(_) => "RemoteNotification",
                        SessionDownReason::LocalNotification(_) => "LocalNotification",
                        SessionDownReason::FsmError => "FsmError",
                        SessionDownReason::AdminShutdown => "AdminShutdown",
                        SessionDownReason::IoError => "IoError",
                    },
                    match n {
                        Some(bgp::Message::Notification(n)) => format!(
                            ", NOTIFICATION {}/{}",
                            n.notification_code(),
                            n.notification_subcode()
                        ),
                        _ => String::new(),
                    }
                ),
                Output::StateChanged(s) => format!("StateChanged({:?})", s),
                Output::RouteRefresh(_) => "RouteRefresh".into(),
            },
        });
    }
    v.join(", ")
}

const MAX_FIRINGS_PER_EVENT: u32 = 200_000;

struct Session<'a> {
    pair: &'a Pair,
    fsm: PeerFsm,
    drv: VDriver,
    oracle: Oracle,
    alive: bool,
    storm: bool,
    judged: u64,
    want_trace: bool,
    trace: Vec<String>,
}

impl<'a> Session<'a> {
    fn new(pair: &'a Pair, want_trace: bool) -> Session<'a> {
        let mut s = Session {
            pair,
            fsm: pair.fsm(),
            drv: VDriver::new(),
            oracle: Oracle::new(pair),
            alive: true,
            storm: false,
            judged: 0,
            want_trace,
            trace: Vec::new(),
        };
        // session_loop: Input::Connected, outputs applied
        let outs = s.fsm.process(pair.role, Input::Connected(false));
        let down = s.drv.apply_outputs(&outs);
        if want_trace {
            s.trace.push(format!(
                "t=0 connected -> [{}] hold={:?} ka={:?}",
                render_outs(&outs),
                s.drv.hold,
                s.drv.ka
            ));
        }
        s.alive = !down;
        s
    }

    fn deliver(&mut self, kind: Kind, t: &mut Tally, out: &mut Vec<Finding>) {
        let st_before = self.fsm.state(self.pair.role);
        let before = self.drv;
        let input = match kind {
            Kind::HoldFire => Input::HoldTimerExpired,
            Kind::KaFire => Input::KeepaliveTimerExpired,
            Kind::Open => Input::MessageReceived(self.pair.open.clone()),
            Kind::Ka => Input::MessageReceived(bgp::Message::Keepalive),
            Kind::Upd => {
                Input::MessageReceived(bgp::Message::Update(bgp::Update::EndOfRib(Family::IPV4)))
            }
            Kind::Rr => Input::MessageReceived(bgp::Message::RouteRefresh {
                family: Family::IPV4,
            }),
            Kind::UpdSent => Input::UpdateSent,
        };
        let outs = self.fsm.process(self.pair.role, input);
        let down = if kind == Kind::UpdSent {
            self.drv.apply_update_sent(&outs);
            false
        } else {
            self.drv.apply_outputs(&outs)
        };
        let st_after = self.fsm.state(self.pair.role);
        let f = facts(&outs);
        if self.want_trace {
            self.trace.push(format!(
                "t={} {} in {:?} -> [{}] state={:?} hold={:?} ka={:?}",
                self.drv.now,
                kind.label(),
                st_before,
                render_outs(&outs),
                st_after,
                self.drv.hold,
                self.drv.ka
            ));
        }
        let after = self.drv;
        self.judged += 1;
        self.oracle
            .judge(kind, st_before, st_after, &f, &before, &after, t, out);
        if down {
            self.alive = false;
        }
    }

    /// the timer arms of run_select until nothing is due at the current instant
    fn settle(&mut self, t: &mut Tally, out: &mut Vec<Finding>, budget: &mut u32) {
        while self.alive {
            let Some(fire) = self.drv.poll() else { break };
            if *budget == 0 {
                self.storm = true;
                return;
            }
            *budget -= 1;
            self.deliver(
                if fire == Fire::Hold {
                    Kind::HoldFire
                } else {
                    Kind::KaFire
                },
                t,
                out,
            );
        }
    }

    fn advance(&mut self, delta: u64, t: &mut Tally, out: &mut Vec<Finding>) {
        let target = self.drv.now.saturating_add(delta);
        let mut budget = MAX_FIRINGS_PER_EVENT;
        loop {
            self.settle(t, out, &mut budget);
            if !self.alive || self.storm {
                return;
            }
            match self.drv.next_wake() {
                Some(w) if w <= target => self.drv.now = w.max(self.drv.now),
                _ => {
                    self.drv.now = target;
                    break;
                }
            }
        }
        self.settle(t, out, &mut budget);
    }

    /// returns false when the event cannot happen in this state under the driver's protocol
    fn event(&mut self, e: Ev, t: &mut Tally, out: &mut Vec<Finding>) -> bool {
        match e {
            Ev::Adv(d) => {
                self.advance(d, t, out);
                true
            }
            _ => {
                let mut budget = MAX_FIRINGS_PER_EVENT;
                // select_biased!: timers that are due are served before the socket
                self.settle(t, out, &mut budget);
                if !self.alive {
                    return true;
                }
                let kind = match e {
                    Ev::Open => Kind::Open,
                    Ev::Ka => Kind::Ka,
                    Ev::Upd => Kind::Upd,
                    Ev::Rr => Kind::Rr,
                    _ => Kind::UpdSent,
                };
                // flush_tx has updates to send only on an Established session
                if kind == Kind::UpdSent && self.fsm.state(self.pair.role) != State::Established {
                    return false;
                }
                self.deliver(kind, t, out);
                // the next select iteration: a timer armed with 0 fires here
                self.settle(t, out, &mut budget);
                true
            }
        }
    }
}

/// Run a timed history; findings of the last event only are returned (earlier
/// events were judged when the shorter history was run).
fn run_history(
    pair: &Pair,
    evs: &[Ev],
    all_findings: bool,
    t: &mut Tally,
    want_trace: bool,
) -> Run {
    let mut s = Session::new(pair, want_trace);
    let mut run = Run {
        findings_last: Vec::new(),
        ended_at: None,
        judged_last: 0,
        last_nontrivial: false,
        trace: Vec::new(),
    };
    let mut scratch_t = Tally::default();
    for (i, e) in evs.iter().enumerate() {
        let last = i + 1 == evs.len();
        let exchanged_before = s.oracle.exchanged;
        let mut found = Vec::new();
        let tally: &mut Tally = if last || all_findings {
            &mut *t
        } else {
            &mut scratch_t
        };
        let before_n = s.judged;
        if want_trace {
            s.trace.push(format!("-- {}", ev_str(*e)));
        }
        let possible = s.event(*e, tally, &mut found);
        if !possible {
            run.ended_at = Some(i);
            break;
        }
        if last || all_findings {
            run.judged_last += s.judged - before_n;
            run.findings_last.extend(found);
            run.last_nontrivial = exchanged_before;
        }
        if !s.alive && !last {
            run.ended_at = Some(i);
            break;
        }
        if s.storm {
            run.ended_at = Some(i);
            break;
        }
    }
    if s.storm {
        run.findings_last.push(Finding {
            sig: "__storm__".into(),
            what: format!(
                "more than {} timer expiries within one event",
                MAX_FIRINGS_PER_EVENT
            ),
        });
    }
    run.trace = std::mem::take(&mut s.trace);
    run
}

fn witness(pair: &Pair, evs: &[Ev], trace: &[String]) -> Json {
    Json::obj(vec![
        ("pair", Json::s(pair.name())),
        ("local_hold", Json::i(pair.local)),
        ("remote_hold", Json::i(pair.remote)),
        ("events", Json::strs(evs.iter().map(|e| ev_str(*e)))),
        ("trace", Json::strs(trace.iter().cloned())),
    ])
}

fn record(rep: &mut Report, pair: &Pair, evs: &[Ev], findings: Vec<Finding>) {
    for f in findings {
        if f.sig == "__storm__" {
            rep.inconclusive(&format!(
                "timer storm: {} ({} {:?})",
                f.what,
                pair.name(),
                evs.iter().map(|e| ev_str(*e)).collect::<Vec<_>>()
            ));
            continue;
        }
        if rep.has_violation(&f.sig) {
            rep.violation(&f.sig, &f.what, Json::Null);
        } else {
            let mut t2 = Tally::default();
            let r = run_history(pair, evs, true, &mut t2, true);
            rep.violation(&f.sig, &f.what, witness(pair, evs, &r.trace));
        }
    }
}

// ------------------------------------------------------------------ real PeerSession cross-check (wall-clock; confirms only)

/// One real `PeerSession` over loopback (accept_connection + run): the test
/// plays the remote speaker — reads the daemon's OPEN, answers OPEN(remote
/// hold time) + KEEPALIVE and then stays silent for `observe_ms`, recording
/// what the daemon sends.  Wall-clock, so the result is never a verdict of its
/// own: it is compared with what `VDriver` predicts for the same history.
mod real {
    use super::super::super::{
        Global, GlobalHandle, PeerParams, RouteReflectorConfig, accept_connection,
    };
    use crate::fsm::{Role, State};
    use crate::table_manager::{TableHandle, TableManager};
    use fnv::FnvHashMap;
    use rustybgp_packet::bgp::{self, Capability, Family, HoldTime};
    use std::net::Ipv4Addr;
    use std::sync::Arc;
    use std::time::{Duration, Instant};
    use tokio::io::{AsyncReadExt, AsyncWriteExt};
    use tokio::net::{TcpListener, TcpStream};
    use tokio::sync::mpsc;

    #[derive(Debug, Default)]
    pub(super) struct Observed {
        pub got_open: bool,
        pub open_hold: u16,
        /// milliseconds after our OPEN+KEEPALIVE at which KEEPALIVEs arrived
        pub keepalives_ms: Vec<u64>,
        /// (ms, code, subcode) of a NOTIFICATION
        pub notification: Option<(u64, u8, u8)>,
        pub eof_ms: Option<u64>,
        pub error: Option<String>,
    }

    pub(super) fn probe(local_hold: u64, remote_hold: u16, observe_ms: u64) -> Observed {
        let rt = match tokio::runtime::Builder::new_multi_thread()
            .worker_threads(2)
            .enable_all()
            .build()
        {
            Ok(rt) => rt,
            Err(e) => {
                return Observed {
                    error: Some(format!("runtime: {}", e)),
                    ..Default::default()
                };
            }
        };
        let obs =
            rt.block_on(async move { probe_async(local_hold, remote_hold, observe_ms).await });
        rt.shutdown_timeout(Duration::from_millis(500));
        obs
    }

    async fn probe_async(local_hold: u64, remote_hold: u16, observe_ms: u64) -> Observed {
        let mut obs = Observed::default();
        let (ktx, _krx) = mpsc::unbounded_channel();
        let (btx, _brx) = mpsc::unbounded_channel();
        let mut g = Global::new(ktx, btx);
        g.asn = 65001;
        g.router_id = Ipv4Addr::new(10, 0, 0, 1);
        let global: GlobalHandle = Arc::new(tokio::sync::RwLock::new(g));
        let tables: TableHandle = Arc::new(TableManager::new(1));

        let listener = match crate::verif_hooks::bind_retry("127.0.0.1:0".parse().unwrap()).await {
            Ok(l) => l,
            Err(e) => {
                obs.error = Some(format!("bind: {}", e));
                return obs;
            }
        };
        let addr = listener.local_addr().unwrap();
        let (client, server) = tokio::join!(TcpStream::connect(addr), listener.accept());
        let (mut client, server) = match (client, server) {
            (Ok(c), Ok((s, _))) => (c, s),
            _ => {
                obs.error = Some("loopback connect failed".into());
                return obs;
            }
        };
        let remote_addr = client.local_addr().unwrap().ip();
        {
            let mut g = global.write().await;
            let params = PeerParams {
                remote_addr,
                remote_port: 179,
                expected_remote_asn: 65002,
                local_asn: 0,
                passive: true,
                rs_client: false,
                route_reflector: RouteReflectorConfig::default(),
                delete_on_disconnected: false,
                admin_down: false,
                state: State::Idle,
                holdtime: local_hold,
                connect_retry_time: PeerParams::DEFAULT_CONNECT_RETRY_TIME,
                multihop_ttl: None,
                ttl_security: None,
                password: None,
                families: FnvHashMap::default(),
                send_max: FnvHashMap::default(),
                prefix_limits: FnvHashMap::default(),
                graceful_restart: None,
                llgr: None,
                bfd_config: None,
                neighbor_interface: None,
                bind_interface: None,
                export_policy: None,
            };
            if let Err(e) = g.add_peer(params, None) {
                obs.error = Some(format!("add_peer: {:?}", e.to_string()));
                return obs;
            }
        }
        let Some(session) = accept_connection(&global, &tables, server, Role::Passive).await else {
            obs.error = Some("accept_connection refused".into());
            return obs;
        };
        let (active_tx, _active_rx) = mpsc::unbounded_channel::<TcpStream>();
        let g2 = Arc::clone(&global);
        let task = tokio::spawn(async move { session.run(g2, active_tx).await });

        let mut codec = bgp::PeerCodec::new();
        let mut rx = bytes::BytesMut::with_capacity(4096);
        // 1. the daemon's OPEN
        let t0 = Instant::now();
        while !obs.got_open && t0.elapsed() < Duration::from_secs(10) {
            match tokio::time::timeout(Duration::from_millis(500), client.read_buf(&mut rx)).await {
                Ok(Ok(0)) => {
                    obs.error = Some("EOF before OPEN".into());
                    return obs;
                }
                Ok(Ok(_)) => {}
                Ok(Err(e)) => {
                    obs.error = Some(format!("read: {}", e));
                    return obs;
                }
                Err(_) => continue,
            }
            while let Ok(Some(m)) = codec.try_parse(&mut rx) {
                if let bgp::ParsedMessage::Open(o) = m {
                    obs.got_open = true;
                    obs.open_hold = o.holdtime.seconds();
                }
            }
        }
        if !obs.got_open {
            obs.error = Some("no OPEN within 10 s".into());
            return obs;
        }
        // 2. our OPEN + KEEPALIVE
        let open = bgp::Message::Open(bgp::Open {
            as_number: 65002,
            holdtime: HoldTime::new(remote_hold).unwrap(),
            router_id: u32::from(Ipv4Addr::new(10, 0, 0, 2)),
            capability: vec![
                Capability::MultiProtocol(Family::IPV4),
                Capability::FourOctetAsNumber(65002),
            ],
        });
        let mut tx = bytes::BytesMut::with_capacity(256);
        let _ = codec.encode_to(&open, &mut tx);
        let _ = codec.encode_to(&bgp::Message::Keepalive, &mut tx);
        if let Err(e) = client.write_all(&tx).await {
            obs.error = Some(format!("write: {}", e));
            return obs;
        }
        // 3. silence; record what arrives
        let t1 = Instant::now();
        let window = Duration::from_millis(observe_ms);
        'obs: while t1.elapsed() < window {
            let left = window.saturating_sub(t1.elapsed());
            match tokio::time::timeout(left, client.read_buf(&mut rx)).await {
                Ok(Ok(0)) => {
                    obs.eof_ms = Some(t1.elapsed().as_millis() as u64);
                    break;
                }
                Ok(Ok(_)) => {}
                Ok(Err(_)) => {
                    obs.eof_ms = Some(t1.elapsed().as_millis() as u64);
                    break;
                }
                Err(_) => break,
            }
            while let Ok(Some(m)) = codec.try_parse(&mut rx) {
                let ms = t1.elapsed().as_millis() as u64;
                match m {
                    bgp::ParsedMessage::Keepalive => obs.keepalives_ms.push(ms),
                    bgp::ParsedMessage::Notification(n) => {
                        obs.notification =
                            Some((ms, n.notification_code(), n.notification_subcode()));
                        break 'obs;
                    }
                    _ => {}
                }
            }
        }
        drop(client);
        let _ = tokio::time::timeout(Duration::from_secs(2), task).await;
        obs
    }
}

/// What the virtual-time model predicts for the probe's history.
fn model_prediction(
    local: u16,
    remote: u16,
    observe_s: u64,
) -> (
    bool,        /*dies of hold expiry*/
    Option<u64>, /*at second*/
) {
    let pair = Pair::new(local, remote, Role::Passive);
    let mut t = Tally::default();
    let mut sink = Vec::new();
    let mut s = Session::new(&pair, false);
    for e in [Ev::Open, Ev::Ka] {
        if s.alive {
            s.event(e, &mut t, &mut sink);
        }
    }
    let mut died_at = None;
    for _ in 0..observe_s {
        if !s.alive {
            break;
        }
        s.event(Ev::Adv(1), &mut t, &mut sink);
        if !s.alive {
            died_at = Some(s.drv.now);
        }
    }
    if !s.alive && died_at.is_none() {
        died_at = Some(s.drv.now);
    }
    (!s.alive, died_at)
}

fn real_sessions(rep: &mut Report) {
    // (local, remote, seconds observed)
    for (l, r, secs) in [
        (0u16, 0u16, 2u64),
        (90, 0, 2),
        (0, 90, 2),
        (3, 3, 5),
        (9, 3, 5),
    ] {
        let obs = real::probe(l as u64, r, secs * 1000 + 500);
        let (model_dies, model_at) = model_prediction(l, r, secs);
        let real_hold_expired = matches!(obs.notification, Some((_, 4, _)));
        rep.eval();
        let verdict = if let Some(e) = &obs.error {
            rep.count("real-session:probe-failed");
            format!("probe failed: {}", e)
        } else if real_hold_expired == model_dies {
            rep.count("real-session:agrees-with-model");
            if real_hold_expired && l.min(r) == 0 {
                rep.count("real-session:hold-0-session-died-of-hold-expiry");
            }
            "agrees".to_string()
        } else {
            rep.count("real-session:DISAGREES-with-model");
            if real_hold_expired && !model_dies {
                // the transcription missed something the real driver does
                rep.inconclusive(&format!(
                    "real PeerSession (local hold {}, remote hold {}) sent NOTIFICATION {:?} but the virtual-time driver model predicts no expiry: the model is not faithful",
                    l, r, obs.notification
                ));
            }
            "disagrees".to_string()
        };
        rep.sample(Json::obj(vec![
            ("real_session", Json::s(format!("local={} remote={}", l, r))),
            ("sent_open_hold", Json::i(obs.open_hold)),
            (
                "keepalives_ms",
                Json::arr(obs.keepalives_ms.iter().map(|x| Json::i(*x))),
            ),
            (
                "notification_ms_code_subcode",
                match obs.notification {
                    Some((ms, c, sc)) => Json::arr([Json::i(ms), Json::i(c), Json::i(sc)]),
                    None => Json::Null,
                },
            ),
            ("eof_ms", obs.eof_ms.map(Json::i).unwrap_or(Json::Null)),
            ("model_dies_of_hold_expiry", Json::Bool(model_dies)),
            ("model_at_s", model_at.map(Json::i).unwrap_or(Json::Null)),
            ("comparison", Json::s(verdict)),
        ]));
    }
}

// ------------------------------------------------------------------ two connections of one peer (collision)
//
// Both roles of one peer behind the real `ConnArbiter`, each connection with the timers of
// its own task.  `PeerSession::apply_outputs` does not look at the role a `Set*Timer` /
// `SessionDown` output is addressed to: whatever `ConnArbiter::process` returns to the
// calling task is applied to the calling task's timers — transcribed exactly so.  The
// loser of a collision is told through its close channel (its task ends, `release_role` +
// `Input::Disconnected` as in release_connection / apply_disconnect).
// Clause: each connection is judged by the same oracle as a single connection — in
// particular the connection that survives a collision has its hold and keepalive timers
// armed with the negotiated values after its OPEN step, and the re-arm / expiry /
// zero-disables rules hold from then on.

#[derive(Clone, Copy, PartialEq, Eq, Debug)]
enum DuoEv {
    Adv(u64),
    Open(usize),
    Ka(usize),
    Upd(usize),
}

fn duo_ev_str(e: DuoEv) -> String {
    let r = |i: usize| if i == 0 { "A" } else { "P" };
    match e {
        DuoEv::Adv(d) => format!("advance({})", d),
        DuoEv::Open(i) => format!("{}:rx-open", r(i)),
        DuoEv::Ka(i) => format!("{}:rx-keepalive", r(i)),
        DuoEv::Upd(i) => format!("{}:rx-update", r(i)),
    }
}

struct Side {
    role: Role,
    drv: VDriver,
    oracle: Oracle,
    alive: bool,
    rx: Option<tokio::sync::oneshot::Receiver<super::super::CloseReason>>,
    judged: u64,
}

struct Duo<'a> {
    pair: &'a Pair,
    open: bgp::Message,
    arb: super::super::ConnArbiter,
    sides: [Side; 2],
    now: u64,
    want_trace: bool,
    trace: Vec<String>,
    /// (caller index, caller survived) of every collision resolved
    collisions: Vec<(usize, bool, bool)>,
}

impl<'a> Duo<'a> {
    fn new(pair: &'a Pair, remote_id: u32, want_trace: bool) -> Duo<'a> {
        let open = bgp::Message::Open(bgp::Open {
            as_number: REMOTE_AS,
            holdtime: HoldTime::new(pair.remote).expect("hold time 0 or >= 3"),
            router_id: remote_id,
            capability: vec![
                Capability::MultiProtocol(Family::IPV4),
                Capability::FourOctetAsNumber(REMOTE_AS),
            ],
        });
        let side = |role| Side {
            role,
            drv: VDriver::new(),
            oracle: Oracle::new(pair),
            alive: false,
            rx: None,
            judged: 0,
        };
        let mut d = Duo {
            pair,
            open,
            arb: super::super::ConnArbiter::new(pair.fsm()),
            sides: [side(Role::Active), side(Role::Passive)],
            now: 0,
            want_trace,
            trace: Vec::new(),
            collisions: Vec::new(),
        };
        // accept_connection + session_loop's Input::Connected for both roles at t=0
        for i in 0..2 {
            let (tx, rx) = tokio::sync::oneshot::channel();
            if i == 0 {
                d.arb.active_close_tx = Some(tx);
            } else {
                d.arb.passive_close_tx = Some(tx);
            }
            d.sides[i].rx = Some(rx);
            let outs = d.arb.process(d.sides[i].role, Input::Connected(false));
            let down = d.sides[i].drv.apply_outputs(&outs);
            d.sides[i].alive = !down;
            if want_trace {
                d.trace.push(format!(
                    "t=0 {:?} connected -> [{}] hold={:?} ka={:?}",
                    d.sides[i].role,
                    render_outs(&outs),
                    d.sides[i].drv.hold,
                    d.sides[i].drv.ka
                ));
            }
        }
        d
    }

    /// the tear-down of a connection's task
    fn end_task(&mut self, i: usize) {
        self.sides[i].alive = false;
        self.sides[i].rx = None;
        let role = self.sides[i].role;
        self.arb.release_role(role);
        let _ = self.arb.process(role, Input::Disconnected);
    }

    fn deliver(&mut self, i: usize, kind: Kind, t: &mut Tally, out: &mut Vec<Finding>) {
        let role = self.sides[i].role;
        let o = 1 - i;
        let st_before = self.arb.state(role);
        let other_before = self.arb.state(self.sides[o].role);
        self.sides[i].drv.now = self.now;
        let before = self.sides[i].drv;
        let input = match kind {
            Kind::HoldFire => Input::HoldTimerExpired,
            Kind::KaFire => Input::KeepaliveTimerExpired,
            Kind::Open => Input::MessageReceived(self.open.clone()),
            Kind::Ka => Input::MessageReceived(bgp::Message::Keepalive),
            Kind::Upd => {
                Input::MessageReceived(bgp::Message::Update(bgp::Update::EndOfRib(Family::IPV4)))
            }
            Kind::Rr => Input::MessageReceived(bgp::Message::RouteRefresh {
                family: Family::IPV4,
            }),
            Kind::UpdSent => Input::UpdateSent,
        };
        // what the calling task gets back, applied to the calling task's timers whatever role it names
        let outs = self.arb.process(role, input);
        let down = self.sides[i].drv.apply_outputs(&outs);
        let st_after = self.arb.state(role);
        let f = facts(&outs);
        if self.want_trace {
            self.trace.push(format!(
                "t={} {:?}: {} in {:?} -> [{}] state={:?} hold={:?} ka={:?}",
                self.now,
                role,
                kind.label(),
                st_before,
                render_outs(&outs),
                st_after,
                self.sides[i].drv.hold,
                self.sides[i].drv.ka
            ));
        }
        let after = self.sides[i].drv;
        self.sides[i].judged += 1;
        self.sides[i]
            .oracle
            .judge(kind, st_before, st_after, &f, &before, &after, t, out);
        // a collision was resolved in this step?
        let busy = |s: State| matches!(s, State::OpenConfirm | State::Established);
        if kind == Kind::Open && st_before == State::OpenSent && busy(other_before) {
            let caller_survived = st_after == State::OpenConfirm;
            self.collisions
                .push((i, caller_survived, other_before == State::Established));
        }
        if down {
            self.end_task(i);
        }
        // the other connection's close channel (the loser's CEASE arrives there)
        let told = match self.sides[o].rx.as_mut() {
            Some(rx) => rx.try_recv().is_ok(),
            None => false,
        };
        if told {
            if self.want_trace {
                self.trace.push(format!(
                    "t={} {:?}: told to close through its close channel",
                    self.now, self.sides[o].role
                ));
            }
            self.end_task(o);
        }
    }

    fn settle(&mut self, t: &mut Tally, out: &mut Vec<Finding>, budget: &mut u32) {
        loop {
            let mut fired = false;
            for i in 0..2 {
                if !self.sides[i].alive {
                    continue;
                }
                self.sides[i].drv.now = self.now;
                if let Some(fire) = self.sides[i].drv.poll() {
                    if *budget == 0 {
                        return;
                    }
                    *budget -= 1;
                    self.deliver(
                        i,
                        if fire == Fire::Hold {
                            Kind::HoldFire
                        } else {
                            Kind::KaFire
                        },
                        t,
                        out,
                    );
                    fired = true;
                }
            }
            if !fired {
                return;
            }
        }
    }

    fn advance(&mut self, delta: u64, t: &mut Tally, out: &mut Vec<Finding>) {
        let target = self.now.saturating_add(delta);
        let mut budget = 10_000u32;
        loop {
            self.settle(t, out, &mut budget);
            let wake = (0..2)
                .filter(|i| self.sides[*i].alive)
                .filter_map(|i| self.sides[i].drv.next_wake())
                .min();
            match wake {
                Some(w) if w <= target && budget > 0 => self.now = w.max(self.now),
                _ => {
                    self.now = target;
                    break;
                }
            }
        }
        self.settle(t, out, &mut budget);
    }

    /// false: the event cannot happen (that connection's task is gone)
    fn event(&mut self, e: DuoEv, t: &mut Tally, out: &mut Vec<Finding>) -> bool {
        let mut budget = 10_000u32;
        match e {
            DuoEv::Adv(d) => {
                self.advance(d, t, out);
                true
            }
            DuoEv::Open(i) | DuoEv::Ka(i) | DuoEv::Upd(i) => {
                self.settle(t, out, &mut budget);
                if !self.sides[i].alive {
                    return false;
                }
                let kind = match e {
                    DuoEv::Open(_) => Kind::Open,
                    DuoEv::Ka(_) => Kind::Ka,
                    _ => Kind::Upd,
                };
                self.deliver(i, kind, t, out);
                self.settle(t, out, &mut budget);
                true
            }
        }
    }
}

struct DuoRun {
    findings_last: Vec<Finding>,
    ended_at: Option<usize>,
    judged_last: u64,
    after_collision: bool,
    trace: Vec<String>,
}

fn run_duo(pair: &Pair, remote_id: u32, evs: &[DuoEv], t: &mut Tally, want_trace: bool) -> DuoRun {
    let mut d = Duo::new(pair, remote_id, want_trace);
    let mut run = DuoRun {
        findings_last: Vec::new(),
        ended_at: None,
        judged_last: 0,
        after_collision: false,
        trace: Vec::new(),
    };
    let mut scratch = Tally::default();
    for (i, e) in evs.iter().enumerate() {
        let last = i + 1 == evs.len();
        let mut found = Vec::new();
        let before = d.sides[0].judged + d.sides[1].judged;
        let n_coll = d.collisions.len();
        if want_trace {
            d.trace.push(format!("-- {}", duo_ev_str(*e)));
        }
        let possible = d.event(*e, if last { &mut *t } else { &mut scratch }, &mut found);
        if !possible {
            run.ended_at = Some(i);
            break;
        }
        if last {
            run.judged_last = d.sides[0].judged + d.sides[1].judged - before;
            run.findings_last = found;
            run.after_collision = !d.collisions.is_empty();
            for (caller, survived, vs_established) in d.collisions.iter().skip(n_coll) {
                let _ = caller;
                t.add(match (survived, vs_established) {
                    (_, true) => "collision:newcomer-vs-established",
                    (true, false) => "collision:second-to-open-confirm-won",
                    (false, false) => "collision:second-to-open-confirm-lost",
                });
            }
            if run.after_collision && run.judged_last > 0 {
                t.add("collision:steps-judged-after-a-collision");
            }
        }
        if !d.sides[0].alive && !d.sides[1].alive && !last {
            run.ended_at = Some(i);
            break;
        }
    }
    run.trace = std::mem::take(&mut d.trace);
    run
}

fn collisions(rep: &mut Report, params: &Params, depth: usize, t: &mut Tally) {
    let mut complete = true;
    let local_id = 0x0a00_0001u32; // Pair::fsm()
    'outer: for (l, r) in [(3u16, 3u16), (9, 3), (90, 30), (0, 9), (9, 0)] {
        for remote_id in [0x0a00_0002u32, 0x0900_0009] {
            let pair = Pair::new(l, r, Role::Active);
            let mut alphabet: Vec<DuoEv> = pair.deltas().into_iter().map(DuoEv::Adv).collect();
            for i in 0..2 {
                alphabet.extend([DuoEv::Open(i), DuoEv::Ka(i), DuoEv::Upd(i)]);
            }
            let n = alphabet.len() as u8;
            for d in 1..=depth {
                let mut code = vec![0u8; d];
                let mut since = 0u32;
                loop {
                    let evs: Vec<DuoEv> = code.iter().map(|c| alphabet[*c as usize]).collect();
                    let run = run_duo(&pair, remote_id, &evs, t, false);
                    let mut skip_from = None;
                    match run.ended_at {
                        Some(j) if j + 1 < d => skip_from = Some(j),
                        _ => {
                            rep.evals(run.judged_last);
                            if run.after_collision {
                                let mut key = vec![
                                    0xC0,
                                    l as u8,
                                    (l >> 8) as u8,
                                    r as u8,
                                    (r >> 8) as u8,
                                    (remote_id > local_id) as u8,
                                ];
                                key.extend_from_slice(&code);
                                rep.nontrivial(fnv64(&key));
                            }
                            for f in run.findings_last {
                                // the situation (two connections, collision) is part of the finding's identity
                                let sig = f.sig.replacen("C08/", "C08/collision/", 1);
                                if rep.has_violation(&sig) {
                                    rep.violation(&sig, &f.what, Json::Null);
                                } else {
                                    let mut t2 = Tally::default();
                                    let tr = run_duo(&pair, remote_id, &evs, &mut t2, true);
                                    rep.violation(
                                        &sig,
                                        &f.what,
                                        Json::obj(vec![
                                            ("part", Json::s("two connections of one peer behind ConnArbiter")),
                                            ("local_hold", Json::i(l)),
                                            ("remote_hold", Json::i(r)),
                                            ("local_id", Json::i(local_id)),
                                            ("remote_id", Json::i(remote_id)),
                                            ("events", Json::strs(evs.iter().map(|e| duo_ev_str(*e)))),
                                            ("trace", Json::strs(tr.trace)),
                                        ]),
                                    );
                                }
                            }
                        }
                    }
                    since += 1;
                    if since >= 2048 {
                        since = 0;
                        if !rep.in_budget() {
                            complete = false;
                            break 'outer;
                        }
                    }
                    if let Some(j) = skip_from {
                        for c in code.iter_mut().skip(j + 1) {
                            *c = n - 1;
                        }
                    }
                    let mut wrapped = true;
                    for k in (0..d).rev() {
                        code[k] += 1;
                        if code[k] < n {
                            wrapped = false;
                            break;
                        }
                        code[k] = 0;
                    }
                    if wrapped {
                        break;
                    }
                }
            }
            t.add("collision:pair-id-combinations-completed");
        }
    }
    let _ = params;
    rep.extra("collision_depth", Json::i(depth as u32));
    if !complete {
        rep.exhaustive = Some(false);
        rep.inconclusive("collision enumeration cut short by the time budget");
    }
}

fn shard_index(p: &Params) -> usize {
    p.shard
        .rsplit('-')
        .next()
        .and_then(|s| s.parse().ok())
        .unwrap_or(0)
}

fn exhaustive(rep: &mut Report, params: &Params, depth: usize, t: &mut Tally) {
    let nshards = params.get_u64("nshards", 1).max(1) as usize;
    let me = shard_index(params) % nshards;
    let mut complete = true;
    let mut job = 0usize;
    'outer: for (li, l) in HOLDS.iter().enumerate() {
        for (ri, r) in HOLDS.iter().enumerate() {
            for role in [Role::Active, Role::Passive] {
                // quick tier: one role per pair (alternating); thorough: both
                if !params.thorough() && ((li + ri) % 2 == 0) != (role == Role::Active) {
                    continue;
                }
                job += 1;
                if job % nshards != me {
                    continue;
                }
                let pair = Pair::new(*l, *r, role);
                let mut alphabet: Vec<Ev> = pair.deltas().into_iter().map(Ev::Adv).collect();
                alphabet.extend([Ev::Open, Ev::Ka, Ev::Upd, Ev::Rr, Ev::UpdSent]);
                let n = alphabet.len() as u8;
                for d in 1..=depth {
                    let mut code = vec![0u8; d];
                    let mut since = 0u32;
                    loop {
                        let evs: Vec<Ev> = code.iter().map(|c| alphabet[*c as usize]).collect();
                        let run = run_history(&pair, &evs, false, t, false);
                        let mut skip_from = None;
                        match run.ended_at {
                            // the session ended (or the event was impossible) before the last
                            // event: every extension of that prefix was covered at a smaller depth
                            Some(j) if j + 1 < d => skip_from = Some(j),
                            _ => {
                                rep.evals(run.judged_last);
                                if run.last_nontrivial {
                                    let mut key = vec![
                                        *l as u8,
                                        (*l >> 8) as u8,
                                        *r as u8,
                                        (*r >> 8) as u8,
                                        role as u8,
                                    ];
                                    key.extend_from_slice(&code);
                                    rep.nontrivial(fnv64(&key));
                                }
                                if !run.findings_last.is_empty() {
                                    record(rep, &pair, &evs, run.findings_last);
                                }
                                if rep.want_sample()
                                    && d == depth
                                    && run.last_nontrivial
                                    && evs[d - 1] == Ev::Ka
                                    && *l == 9
                                {
                                    let mut t2 = Tally::default();
                                    let r2 = run_history(&pair, &evs, true, &mut t2, true);
                                    rep.sample(witness(&pair, &evs, &r2.trace));
                                }
                            }
                        }
                        since += 1;
                        if since >= 2048 {
                            since = 0;
                            if !rep.in_budget() {
                                complete = false;
                                break 'outer;
                            }
                        }
                        // successor, skipping the subtree below a dead prefix
                        if let Some(j) = skip_from {
                            for c in code.iter_mut().skip(j + 1) {
                                *c = n - 1;
                            }
                        }
                        let mut wrapped = true;
                        for k in (0..d).rev() {
                            code[k] += 1;
                            if code[k] < n {
                                wrapped = false;
                                break;
                            }
                            code[k] = 0;
                        }
                        if wrapped {
                            break;
                        }
                    }
                }
                t.add("exhaustive:pair-role-combinations-completed");
            }
        }
    }
    rep.exhaustive = Some(complete);
    rep.extra("exhaustive_depth", Json::i(depth as u32));
    if !complete {
        rep.inconclusive("exhaustive enumeration cut short by the time budget");
    }
}

fn random_histories(rep: &mut Report, params: &Params, count: u64, t: &mut Tally) {
    let mut rng = Rng::new(params.seed ^ 0xC08C_08C0_8C08);
    let mut done = 0u64;
    while done < count && rep.in_budget() {
        let pick = |rng: &mut Rng| -> u16 {
            if rng.chance(2, 3) {
                *rng.pick(&HOLDS)
            } else {
                match rng.usize(4) {
                    0 => rng.range(3, 12) as u16,
                    1 => rng.range(3, 300) as u16,
                    2 => rng.range(65000, 65535) as u16,
                    _ => rng.range(3, 65535) as u16,
                }
            }
        };
        let pair = Pair::new(
            pick(&mut rng),
            pick(&mut rng),
            if rng.bool() {
                Role::Active
            } else {
                Role::Passive
            },
        );
        let h = pair.local.min(pair.remote) as u64;
        let k = h / 3;
        let len = rng.range(8, 60) as usize;
        let mut evs: Vec<Ev> = Vec::with_capacity(len);
        // replay a shadow session to bias the time steps towards the deadlines in force
        let mut shadow_t = Tally::default();
        let mut shadow = Session::new(&pair, false);
        let mut sink = Vec::new();
        for i in 0..len {
            if !shadow.alive {
                break;
            }
            let st = shadow.fsm.state(pair.role);
            let e = match st {
                State::OpenSent if rng.chance(3, 5) || i > 3 => Ev::Open,
                State::OpenConfirm if rng.chance(3, 5) => Ev::Ka,
                _ => match rng.usize(10) {
                    0 | 1 => Ev::Ka,
                    2 => Ev::Upd,
                    3 => Ev::Rr,
                    4 => Ev::UpdSent,
                    _ => {
                        let to_hold = shadow
                            .drv
                            .hold
                            .deadline()
                            .map(|d| d.saturating_sub(shadow.drv.now));
                        let d = match (rng.usize(8), to_hold) {
                            (0, Some(x)) => x,
                            (1, Some(x)) => x.saturating_sub(1),
                            (2, Some(x)) => x + 1,
                            (3, _) => k.max(1),
                            (4, _) => rng.range(0, h.max(2)),
                            (5, _) => 1,
                            (6, _) => rng.range(0, 3 * h.max(100)),
                            _ => rng.range(0, k.max(1) * 2),
                        };
                        Ev::Adv(d)
                    }
                },
            };
            if e == Ev::UpdSent && st != State::Established {
                continue;
            }
            evs.push(e);
            shadow.event(e, &mut shadow_t, &mut sink);
        }
        if evs.is_empty() {
            continue;
        }
        let run = run_history(&pair, &evs, true, t, false);
        rep.evals(run.judged_last);
        let mut key = vec![
            pair.local as u8,
            (pair.local >> 8) as u8,
            pair.remote as u8,
            (pair.remote >> 8) as u8,
        ];
        for e in &evs {
            key.extend_from_slice(ev_str(*e).as_bytes());
        }
        rep.nontrivial(fnv64(&key));
        t.add("random:histories");
        if !run.findings_last.is_empty() {
            // shrink: shortest prefix that still shows each signature
            for f in run.findings_last {
                if f.sig == "__storm__" || rep.has_violation(&f.sig) {
                    record(rep, &pair, &evs, vec![f]);
                    continue;
                }
                let mut best = evs.clone();
                for cut in 1..=evs.len() {
                    let mut t2 = Tally::default();
                    let r = run_history(&pair, &evs[..cut], true, &mut t2, false);
                    if r.findings_last.iter().any(|g| g.sig == f.sig) {
                        best = evs[..cut].to_vec();
                        break;
                    }
                }
                // then drop events one by one
                let mut i = 0;
                while i < best.len() {
                    let mut cand = best.clone();
                    cand.remove(i);
                    let mut t2 = Tally::default();
                    let r = run_history(&pair, &cand, true, &mut t2, false);
                    if !cand.is_empty() && r.findings_last.iter().any(|g| g.sig == f.sig) {
                        best = cand;
                    } else {
                        i += 1;
                    }
                }
                record(rep, &pair, &best, vec![f]);
            }
        }
        done += 1;
    }
}

/// Not judged: `on_keepalive_timer_expired` re-arms with `keepalive_interval`, which
/// is 0 when the negotiated hold time is 0.  The driver never feeds that input in
/// this situation (the keepalive timer is never armed), so the statement is not
/// violated; the FSM is probed directly and the answer counted.
fn probe_latent_keepalive_zero(rep: &mut Report) {
    let pair = Pair::new(0, 0, Role::Active);
    let mut fsm = pair.fsm();
    let _ = fsm.process(pair.role, Input::Connected(false));
    let _ = fsm.process(pair.role, Input::MessageReceived(pair.open.clone()));
    let _ = fsm.process(pair.role, Input::MessageReceived(bgp::Message::Keepalive));
    let outs = fsm.process(pair.role, Input::KeepaliveTimerExpired);
    let f = facts(&outs);
    rep.count(if f.set_ka.contains(&0) {
        "unjudged:latent:keepalive-expiry-with-zero-interval-emits-set-keepalive-timer-0"
    } else {
        "unjudged:latent:keepalive-expiry-with-zero-interval-harmless"
    });
}

#[test]
fn run() {
    let params = Params::from_args_env();
    let mut rep = Report::new("C08", &params);
    rep.max_samples = 3;
    let mut t = Tally::default();
    let part = params.get("part").unwrap_or("all").to_string();
    let depth = params.get_u64("depth", if params.thorough() { 6 } else { 5 }) as usize;
    let r = guard(|| {
        if part == "all" || part == "exhaustive" {
            exhaustive(&mut rep, &params, depth, &mut t);
        }
        if part == "all" || part == "random" {
            let n = params.get_u64("random", params.n(10_000, 300_000));
            random_histories(&mut rep, &params, n, &mut t);
        }
        if (part == "all" || part == "random") && shard_index(&params) == 0 {
            probe_latent_keepalive_zero(&mut rep);
        }
        if part == "real" {
            rep.max_samples = 8;
            real_sessions(&mut rep);
        }
        if part == "collision" {
            let d = params.get_u64("depth", if params.thorough() { 6 } else { 5 }) as usize;
            collisions(&mut rep, &params, d, &mut t);
        }
    });
    t.flush(&mut rep);
    if let Err(p) = r {
        if p.location.contains("verif") {
            rep.inconclusive(&format!("harness panic at {}: {}", p.location, p.message));
        } else {
            rep.violation(
                &format!("C08/panic/{}:{}", p.location, panic_class(&p.message)),
                &format!("panic in the code under test: {}", p.message),
                Json::Null,
            );
        }
    }
    let _ = rep.finish();
}
