//! Scheduling-point / delay-injection runtime, compiled into the daemon crate
//! as `crate::verif_hooks` under `--cfg osrg_rustybgp_verif`.
//!
//! `sched_point(id)` is a no-op unless a harness thread installed a delay plan.
//! With a plan it appends `(thread, id)` to a log and yields / spins / sleeps a
//! few microseconds as the plan's per-thread PRNG says.  Points are only placed
//! between critical sections (never inside a held lock), so no interleaving is
//! manufactured that the real program cannot have.
#![allow(dead_code)]

use std::cell::Cell;
use std::sync::Mutex;
use std::sync::atomic::{AtomicBool, AtomicU32, AtomicU64, Ordering};

static PLAN_ON: AtomicBool = AtomicBool::new(false);
static PLAN_SEED: AtomicU64 = AtomicU64::new(0);
/// 0..=100: probability (percent) that a point perturbs the schedule
static PLAN_INTENSITY: AtomicU32 = AtomicU32::new(0);
static NEXT_THREAD: AtomicU32 = AtomicU32::new(1);
static HITS: AtomicU64 = AtomicU64::new(0);
static LOG: Mutex<Vec<(u32, u16)>> = Mutex::new(Vec::new());
const LOG_CAP: usize = 4096;

thread_local! {
    static TL_ID: Cell<u32> = const { Cell::new(0) };
    static TL_RNG: Cell<u64> = const { Cell::new(0) };
    static TL_EPOCH: Cell<u64> = const { Cell::new(0) };
}

fn next(state: &Cell<u64>) -> u64 {
    let mut z = state.get().wrapping_add(0x9E37_79B9_7F4A_7C15);
    state.set(z);
    z = (z ^ (z >> 30)).wrapping_mul(0xBF58_476D_1CE4_E5B9);
    z = (z ^ (z >> 27)).wrapping_mul(0x94D0_49BB_1331_11EB);
    z ^ (z >> 31)
}

/// Give the calling thread a stable logical id (harness threads call this
/// with their own index so logs are comparable across runs).
pub(crate) fn set_thread_id(id: u32) {
    TL_ID.with(|c| c.set(id));
}

pub(crate) fn install(seed: u64, intensity: u32) {
    PLAN_SEED.store(seed, Ordering::SeqCst);
    PLAN_INTENSITY.store(intensity.min(100), Ordering::SeqCst);
    LOG.lock().unwrap().clear();
    HITS.store(0, Ordering::SeqCst);
    PLAN_ON.store(true, Ordering::SeqCst);
}

/// Stop perturbing; returns (number of points hit, the recorded log prefix).
pub(crate) fn uninstall() -> (u64, Vec<(u32, u16)>) {
    PLAN_ON.store(false, Ordering::SeqCst);
    let log = std::mem::take(&mut *LOG.lock().unwrap());
    (HITS.load(Ordering::SeqCst), log)
}

pub(crate) fn hits() -> u64 {
    HITS.load(Ordering::Relaxed)
}

#[inline]
pub(crate) fn sched_point(id: u16) {
    if !PLAN_ON.load(Ordering::Relaxed) {
        return;
    }
    slow_point(id);
}

#[cold]
fn slow_point(id: u16) {
    HITS.fetch_add(1, Ordering::Relaxed);
    let tid = TL_ID.with(|c| {
        if c.get() == 0 {
            c.set(1000 + NEXT_THREAD.fetch_add(1, Ordering::Relaxed));
        }
        c.get()
    });
    let seed = PLAN_SEED.load(Ordering::Relaxed);
    let r = TL_RNG.with(|rng| {
        TL_EPOCH.with(|e| {
            if e.get() != seed {
                e.set(seed);
                rng.set(seed ^ ((tid as u64) << 32) ^ 0xA5A5_5A5A);
            }
        });
        next(rng)
    });
    {
        let mut log = LOG.lock().unwrap();
        if log.len() < LOG_CAP {
            log.push((tid, id));
        }
    }
    let intensity = PLAN_INTENSITY.load(Ordering::Relaxed) as u64;
    if r % 100 >= intensity {
        return;
    }
    match (r >> 8) % 4 {
        0 => std::thread::yield_now(),
        1 => {
            for _ in 0..((r >> 16) % 3 + 1) {
                std::thread::yield_now();
            }
        }
        2 => {
            if cfg!(miri) {
                std::thread::yield_now();
            } else {
                let spins = (r >> 16) % 20_000;
                for _ in 0..spins {
                    std::hint::spin_loop();
                }
            }
        }
        _ => {
            if cfg!(miri) {
                std::thread::yield_now();
            } else {
                std::thread::sleep(std::time::Duration::from_micros((r >> 16) % 200));
            }
        }
    }
}

// ---------------------------------------------------------------- loopback TCP helpers
//
// Several monitors open thousands of short-lived loopback connections.  Closed
// normally, each leaves a socket in TIME_WAIT for 60 s and the 28 k ephemeral ports
// run out ("Address already in use" / "Cannot assign requested address"), which would
// make a check inconclusive for reasons that have nothing to do with the daemon.
// Every harness socket is therefore closed with RST (`no_time_wait`), and bind /
// connect are retried for up to ~100 s so that TIME_WAIT left behind by *other*
// processes is waited out instead of failing the run.

/// Close with RST instead of FIN: no TIME_WAIT state is left behind.
#[cfg(test)]
pub(crate) fn no_time_wait(s: &tokio::net::TcpStream) {
    let _ = s.set_linger(Some(std::time::Duration::ZERO));
}

#[cfg(test)]
fn port_shortage(e: &std::io::Error) -> bool {
    matches!(
        e.kind(),
        std::io::ErrorKind::AddrInUse | std::io::ErrorKind::AddrNotAvailable
    )
}

/// `TcpListener::bind(addr)` that waits out a temporary shortage of ephemeral ports.
#[cfg(test)]
pub(crate) async fn bind_retry(
    addr: std::net::SocketAddr,
) -> std::io::Result<tokio::net::TcpListener> {
    let mut last = None;
    for _ in 0..200 {
        match tokio::net::TcpListener::bind(addr).await {
            Ok(l) => return Ok(l),
            Err(e) if port_shortage(&e) => {
                last = Some(e);
                tokio::time::sleep(std::time::Duration::from_millis(500)).await;
            }
            Err(e) => return Err(e),
        }
    }
    Err(last.unwrap())
}

/// `TcpStream::connect(addr)` that waits out a temporary shortage of ephemeral ports;
/// the returned stream is already set to close without TIME_WAIT.
#[cfg(test)]
pub(crate) async fn connect_retry(
    addr: std::net::SocketAddr,
) -> std::io::Result<tokio::net::TcpStream> {
    let mut last = None;
    for _ in 0..200 {
        match tokio::net::TcpStream::connect(addr).await {
            Ok(s) => {
                no_time_wait(&s);
                return Ok(s);
            }
            Err(e) if port_shortage(&e) => {
                last = Some(e);
                tokio::time::sleep(std::time::Duration::from_millis(500)).await;
            }
            Err(e) => return Err(e),
        }
    }
    Err(last.unwrap())
}
