//! C18 — a monitoring subscriber reconstructs the exact Adj-RIB-In whenever it
//! subscribes.
//!
//! Real `TableManager`, real OS threads.  Writer threads ("sessions") issue
//! insert_route / remove_route / peer drop (unregister_peer + peer_down, the
//! order session_loop uses) / re-up; a controller thread toggles the import
//! policy and calls soft_reset_in; subscriber threads call subscribe(true) at
//! random points, some unsubscribe and resubscribe.  Delay plans at the
//! scheduling points in table_manager.rs widen the windows between critical
//! sections.  Oracle (after all writers joined and channels drained): the
//! event stream folded per (peer, family, prefix, path-id) equals
//! iter_reach / iter_reach_post over all shards.
use super::common::*;
use crate::table_manager::{BgpEvent, PeerDownData, PeerUpData, Subscription, TableManager};
use rustybgp_packet::{self as packet, Attribute, Family, bgp};
use rustybgp_table as table;
use std::collections::BTreeMap;
use std::net::{IpAddr, Ipv4Addr};
use std::sync::Arc;
use std::sync::atomic::{AtomicBool, AtomicU64, Ordering};

type Key = (IpAddr, u32, String, u32); // (peer, family id, nlri, path id)
type Val = (String, String); // (attrs rendered by content, nexthop)

fn fam_id(f: Family) -> u32 {
    ((f.afi() as u32) << 16) | f.safi() as u32
}

fn render_attrs(a: &[Attribute]) -> String {
    let mut v: Vec<String> = a
        .iter()
        .map(|x| format!("{}:{}", x.code(), hex(&x.encode_to_bytes())))
        .collect();
    v.sort();
    v.join(",")
}

fn render_nh(n: &Option<bgp::Nexthop>) -> String {
    match n {
        Some(n) => format!("{}", n),
        None => "-".into(),
    }
}

/// When set (by the copy of this file that is compiled inside daemon/src/bmp.rs, see
/// c18b.rs), the events received before EndOfSnapshot are folded by the daemon's own
/// `apply_snapshot` instead of this module's fold: the callback gets the buffered
/// changes in arrival order and returns the net state as single-NLRI changes.
pub(crate) static SNAPSHOT_FOLDER: std::sync::OnceLock<
    fn(Vec<crate::table_manager::AdjRibInChange>) -> Vec<crate::table_manager::AdjRibInChange>,
> = std::sync::OnceLock::new();

#[derive(Default)]
struct Fold {
    snap_pre: Vec<crate::table_manager::AdjRibInChange>,
    snap_post: Vec<crate::table_manager::AdjRibInChange>,
    pre: BTreeMap<Key, Val>,
    post: BTreeMap<Key, Val>,
    before_sentinel: u64,
    after_sentinel: u64,
    withdraw_before_sentinel: u64,
    sentinel_seen: bool,
    peer_down: u64,
    events: u64,
}

impl Fold {
    fn apply(&mut self, ev: BgpEvent) {
        self.events += 1;
        match ev {
            BgpEvent::AdjRibIn(c) => {
                self.count(c.attrs.is_none());
                if !self.sentinel_seen && SNAPSHOT_FOLDER.get().is_some() {
                    self.snap_pre.push(c);
                } else {
                    Self::fold(&mut self.pre, c)
                }
            }
            BgpEvent::AdjRibInPost(c) => {
                self.count(c.attrs.is_none());
                if !self.sentinel_seen && SNAPSHOT_FOLDER.get().is_some() {
                    self.snap_post.push(c);
                } else {
                    Self::fold(&mut self.post, c)
                }
            }
            BgpEvent::PeerDown(d) => {
                self.peer_down += 1;
                self.pre.retain(|k, _| k.0 != d.peer_addr);
                self.post.retain(|k, _| k.0 != d.peer_addr);
                // the snapshot buffers are cleared too: a peer-down during the snapshot
                // phase removes what was buffered for that peer
                self.snap_pre
                    .retain(|c| c.source.remote_addr != d.peer_addr);
                self.snap_post
                    .retain(|c| c.source.remote_addr != d.peer_addr);
            }
            BgpEvent::EndOfSnapshot => {
                self.sentinel_seen = true;
                if let Some(f) = SNAPSHOT_FOLDER.get() {
                    for c in f(std::mem::take(&mut self.snap_pre)) {
                        Self::fold(&mut self.pre, c);
                    }
                    for c in f(std::mem::take(&mut self.snap_post)) {
                        Self::fold(&mut self.post, c);
                    }
                }
            }
            _ => {}
        }
    }
    fn count(&mut self, withdraw: bool) {
        if self.sentinel_seen {
            self.after_sentinel += 1;
        } else {
            self.before_sentinel += 1;
            if withdraw {
                self.withdraw_before_sentinel += 1;
            }
        }
    }
    fn fold(map: &mut BTreeMap<Key, Val>, c: crate::table_manager::AdjRibInChange) {
        for n in &c.nlris {
            let k = (
                c.source.remote_addr,
                fam_id(c.family),
                format!("{}", n.nlri),
                n.path_id,
            );
            match &c.attrs {
                Some(a) => {
                    map.insert(k, (render_attrs(a), render_nh(&c.nexthop)));
                }
                None => {
                    map.remove(&k);
                }
            }
        }
    }
}

fn ground_truth(t: &TableManager) -> (BTreeMap<Key, Val>, BTreeMap<Key, Val>) {
    let mut pre = BTreeMap::new();
    let mut post = BTreeMap::new();
    for shard in &t.shards {
        let s = shard.lock().unwrap();
        for f in s.rtable.families().collect::<Vec<_>>() {
            for r in s.rtable.iter_reach(f) {
                pre.insert(
                    (
                        r.source.remote_addr,
                        fam_id(f),
                        format!("{}", r.net.nlri),
                        r.net.path_id,
                    ),
                    (render_attrs(&r.attr), render_nh(&r.nexthop)),
                );
            }
            for r in s.rtable.iter_reach_post(f) {
                post.insert(
                    (
                        r.source.remote_addr,
                        fam_id(f),
                        format!("{}", r.net.nlri),
                        r.net.path_id,
                    ),
                    (render_attrs(&r.attr), render_nh(&r.nexthop)),
                );
            }
        }
    }
    (pre, post)
}

fn prefixes() -> Vec<(Family, packet::Nlri)> {
    let mut v = Vec::new();
    for i in 0..5u8 {
        v.push((
            Family::IPV4,
            packet::Nlri::V4(bgp::Ipv4Net {
                addr: Ipv4Addr::new(10, i, 0, 0),
                mask: 16,
            }),
        ));
    }
    v.push((
        Family::IPV6,
        packet::Nlri::V6(bgp::Ipv6Net {
            addr: "2001:db8:1::".parse().unwrap(),
            mask: 48,
        }),
    ));
    v
}

fn attrs_with_tag(tag: u32) -> Arc<Vec<Attribute>> {
    Arc::new(vec![
        Attribute::new_with_value(Attribute::ORIGIN, 0).unwrap(),
        Attribute::new_with_bin(Attribute::AS_PATH, vec![2, 1, 0, 0, 0xfd, 0xe9]).unwrap(),
        Attribute::new_with_value(Attribute::MULTI_EXIT_DESC, tag).unwrap(),
    ])
}

fn policies() -> Vec<Option<Arc<table::PolicyAssignment>>> {
    let mut out: Vec<Option<Arc<table::PolicyAssignment>>> = vec![None];
    // A: set local-pref 200 on everything (post-policy attrs differ from pre-policy)
    {
        let mut pt = table::PolicyTable::new();
        let actions = table::Actions {
            local_pref: Some(table::LocalPrefAction { value: 200 }),
            ..Default::default()
        };
        pt.add_statement("lp", vec![], Some(table::Disposition::Accept), actions)
            .unwrap();
        pt.add_policy("pa", vec!["lp".into()]).unwrap();
        out.push(Some(
            pt.build_assignment(
                None,
                "a",
                table::PolicyDirection::Import,
                table::Disposition::Accept,
                vec!["pa".into()],
            )
            .unwrap(),
        ));
    }
    // B: reject two of the prefixes
    {
        let mut pt = table::PolicyTable::new();
        pt.add_defined_set(table::DefinedSetConfig::Prefix {
            name: "ps".into(),
            prefixes: vec![
                table::PrefixConfig {
                    ip_prefix: "10.0.0.0/16".into(),
                    mask_length_min: 16,
                    mask_length_max: 16,
                },
                table::PrefixConfig {
                    ip_prefix: "10.3.0.0/16".into(),
                    mask_length_min: 16,
                    mask_length_max: 16,
                },
            ],
        })
        .unwrap();
        pt.add_statement(
            "rej",
            vec![table::ConditionConfig::PrefixSet(
                "ps".into(),
                table::MatchOption::Any,
            )],
            Some(table::Disposition::Reject),
            table::Actions::default(),
        )
        .unwrap();
        pt.add_policy("pb", vec!["rej".into()]).unwrap();
        out.push(Some(
            pt.build_assignment(
                None,
                "b",
                table::PolicyDirection::Import,
                table::Disposition::Accept,
                vec!["pb".into()],
            )
            .unwrap(),
        ));
    }
    out
}

fn peer_addr(i: usize) -> IpAddr {
    IpAddr::V4(Ipv4Addr::new(192, 0, 2, 10 + i as u8))
}

fn new_source(i: usize) -> Arc<table::Source> {
    Arc::new(table::Source::new(
        peer_addr(i),
        IpAddr::V4(Ipv4Addr::new(192, 0, 2, 1)),
        65001 + i as u32,
        65000,
        Ipv4Addr::new(1, 1, 1, 10 + i as u8),
        table::PeerRole::Ebgp,
    ))
}

fn dummy_open() -> bgp::Message {
    bgp::Message::Open(bgp::Open {
        as_number: 65000,
        holdtime: packet::HoldTime::new(90).unwrap(),
        router_id: 1,
        capability: vec![],
    })
}

struct HistoryCfg {
    shards: usize,
    writers: usize,
    subscribers: usize,
    ops_per_writer: usize,
    intensity: u32,
    soft_reset: bool,
    /// the IPv6 family does not exist in the RIB until the first subscriber is about to
    /// subscribe: the first routes ever of a family race with the subscribe call
    family_onset: bool,
}

struct SubResult {
    fold: Fold,
    resubscribed: u64,
}

/// One history; returns the violation (clause, detail) if the oracle fails.
fn run_history(seed: u64, cfg: &HistoryCfg, rep: &mut Report) {
    let tables = Arc::new(TableManager::new(cfg.shards));
    let pols = policies();
    let stop = Arc::new(AtomicBool::new(false)); // tells subscribers that every mutator has finished
    let stop_ctl = Arc::new(AtomicBool::new(false));
    let tag = Arc::new(AtomicU64::new(1));
    let writers_done = Arc::new(AtomicU64::new(0));
    let v6_on = Arc::new(AtomicBool::new(!cfg.family_onset));
    crate::verif_hooks::install(seed, cfg.intensity);

    let mut handles = Vec::new();
    for w in 0..cfg.writers {
        let tables = tables.clone();
        let tag = tag.clone();
        let writers_done = writers_done.clone();
        let n = cfg.ops_per_writer;
        let v6_on = v6_on.clone();
        let onset = cfg.family_onset;
        handles.push(std::thread::spawn(move || {
            crate::verif_hooks::set_thread_id(1 + w as u32);
            let mut rng = Rng::new(seed ^ (0x1000 + w as u64));
            let pfx = prefixes();
            let mut src = new_source(w);
            let mut ops = Vec::new();
            for _ in 0..n {
                let k = rng.below(100);
                let (mut fam, mut nlri) = rng.pick(&pfx).clone();
                if fam == Family::IPV6 && !v6_on.load(Ordering::SeqCst) {
                    // the family is not born yet: wait a little for the subscriber's signal,
                    // otherwise work on IPv4
                    if onset {
                        for _ in 0..50 {
                            if v6_on.load(Ordering::SeqCst) {
                                break;
                            }
                            std::thread::yield_now();
                        }
                    }
                    if !v6_on.load(Ordering::SeqCst) {
                        let (f4, n4) = pfx
                            .iter()
                            .find(|(f, _)| *f == Family::IPV4)
                            .unwrap()
                            .clone();
                        fam = f4;
                        nlri = n4;
                    }
                }
                let pid = rng.below(2) as u32;
                if k < 55 {
                    let t = tag.fetch_add(1, Ordering::Relaxed) as u32;
                    let nh = if fam == Family::IPV4 {
                        Some(bgp::Nexthop::V4(Ipv4Addr::new(
                            192,
                            0,
                            2,
                            100 + rng.below(2) as u8,
                        )))
                    } else {
                        Some(bgp::Nexthop::V6("2001:db8::1".parse().unwrap()))
                    };
                    // one announcement in eight carries no next hop at all (what a next-hop-less
                    // family such as flowspec, or an API path that leaves it to the export side,
                    // looks like in the RIB): nothing on the monitoring path may depend on it
                    let nh = if rng.chance(1, 8) { None } else { nh };
                    ops.push(format!("w{} insert {} pid{} tag{} nh={:?}", w, nlri, pid, t, nh.is_some()));
                    tables.insert_route(
                        src.clone(),
                        fam,
                        packet::PathNlri { path_id: pid, nlri },
                        nh,
                        attrs_with_tag(t),
                        None,
                        t,
                    );
                } else if k < 85 {
                    ops.push(format!("w{} remove {} pid{}", w, nlri, pid));
                    tables.remove_route(
                        src.clone(),
                        fam,
                        packet::PathNlri { path_id: pid, nlri },
                        None,
                        0,
                    );
                } else {
                    // session drop exactly as session_loop does it, then a new session
                    ops.push(format!("w{} drop+reup", w));
                    tables.unregister_peer(src.remote_addr, &[Family::IPV4, Family::IPV6], &[]);
                    tables.peer_down(PeerDownData {
                        peer_addr: src.remote_addr,
                        peer_asn: src.remote_asn,
                        peer_id: src.router_id,
                        uptime: 0,
                        reason: packet::bmp::PeerDownReason::RemoteUnexpected,
                    });
                    src = new_source(w);
                    tables.peer_up(PeerUpData {
                        peer_addr: src.remote_addr,
                        peer_asn: src.remote_asn,
                        peer_id: src.router_id,
                        uptime: 0,
                        local_addr: src.local_addr,
                        local_port: 179,
                        remote_port: 40000,
                        sent_open: dummy_open(),
                        received_open: dummy_open(),
                    });
                }
            }
            writers_done.fetch_add(1, Ordering::SeqCst);
            ops
        }));
    }

    // controller: toggles the import policy and soft-resets peers
    let ctl = if cfg.soft_reset {
        let tables = tables.clone();
        let stop = stop_ctl.clone();
        let pols = pols.clone();
        let nw = cfg.writers;
        Some(std::thread::spawn(move || {
            crate::verif_hooks::set_thread_id(50);
            let mut rng = Rng::new(seed ^ 0x5000);
            let mut n = 0u64;
            let mut ops = Vec::new();
            while !stop.load(Ordering::SeqCst) && n < 40 {
                let p = rng.usize(pols.len());
                tables.import_policy.store(pols[p].clone());
                let peer = rng.usize(nw);
                ops.push(format!("ctl policy{} soft_reset_in w{}", p, peer));
                tables.soft_reset_in(peer_addr(peer));
                n += 1;
                std::thread::yield_now();
            }
            ops
        }))
    } else {
        None
    };

    // subscribers
    let mut subs = Vec::new();
    for s in 0..cfg.subscribers {
        let tables = tables.clone();
        let stop = stop.clone();
        let v6_on = v6_on.clone();
        subs.push(std::thread::spawn(move || {
            crate::verif_hooks::set_thread_id(100 + s as u32);
            let mut rng = Rng::new(seed ^ (0x9000 + s as u64));
            // subscribe at a random point of the history
            for _ in 0..rng.below(400) {
                std::thread::yield_now();
            }
            // family onset: the IPv6 family may come into existence from now on
            if s == 0 {
                v6_on.store(true, Ordering::SeqCst);
            }
            let mut resub = 0u64;
            let mut sub: Subscription = tables.subscribe(true);
            let mut fold = Fold::default();
            loop {
                // drain what is there
                while let Ok(ev) = sub.rx.try_recv() {
                    fold.apply(ev);
                }
                if stop.load(Ordering::SeqCst) {
                    break;
                }
                if rng.chance(1, 60) && resub < 3 {
                    // unsubscribe and start over with a fresh snapshot
                    tables.unsubscribe(sub.id);
                    resub += 1;
                    for _ in 0..rng.below(50) {
                        std::thread::yield_now();
                    }
                    sub = tables.subscribe(true);
                    fold = Fold::default();
                }
                std::thread::yield_now();
            }
            // final drain after every writer has finished
            while let Ok(ev) = sub.rx.try_recv() {
                fold.apply(ev);
            }
            tables.unsubscribe(sub.id);
            SubResult {
                fold,
                resubscribed: resub,
            }
        }));
    }

    let mut all_ops: Vec<String> = Vec::new();
    for h in handles {
        match h.join() {
            Ok(ops) => all_ops.extend(ops),
            Err(_) => rep.inconclusive("writer thread panicked"),
        }
    }
    stop_ctl.store(true, Ordering::SeqCst);
    if let Some(c) = ctl {
        if let Ok(ops) = c.join() {
            all_ops.extend(ops);
        }
    }
    // only now, with every mutator finished, may the subscribers do their final drain
    stop.store(true, Ordering::SeqCst);
    let mut results = Vec::new();
    for s in subs {
        match s.join() {
            Ok(r) => results.push(r),
            Err(_) => rep.inconclusive("subscriber thread panicked"),
        }
    }
    let (hits, log) = crate::verif_hooks::uninstall();
    rep.count_n("sched-point-hits", hits);
    let mut logbytes = Vec::with_capacity(log.len() * 6);
    for (t, p) in &log {
        logbytes.extend_from_slice(&t.to_be_bytes());
        logbytes.extend_from_slice(&p.to_be_bytes());
    }
    let ih = fnv64(&logbytes);

    let (pre, post) = ground_truth(&tables);
    rep.count_n("rib-paths-at-end", pre.len() as u64);
    for (i, r) in results.iter().enumerate() {
        rep.eval();
        rep.count_n("events-folded", r.fold.events);
        rep.count_n("resubscribes", r.resubscribed);
        rep.count_n("peer-down-events", r.fold.peer_down);
        if !r.fold.sentinel_seen {
            rep.violation(
                "C18/sentinel/missing",
                "subscribe(true) never delivered EndOfSnapshot",
                Json::obj(vec![
                    ("seed", Json::Int(seed as i128)),
                    ("ops", Json::strs(all_ops.clone())),
                ]),
            );
            continue;
        }
        if r.fold.before_sentinel > 0 && r.fold.after_sentinel > 0 {
            rep.count("subscriptions-overlapping-writes");
            rep.nontrivial(ih ^ (i as u64).wrapping_mul(0x9E37_79B9));
        }
        if r.fold.withdraw_before_sentinel > 0 {
            rep.count("subscriptions-with-live-withdraw-during-snapshot");
        }
        for (name, got, want) in [("pre", &r.fold.pre, &pre), ("post", &r.fold.post, &post)] {
            if got == want {
                continue;
            }
            let mut missing = Vec::new();
            let mut extra = Vec::new();
            let mut stale = Vec::new();
            for (k, v) in want {
                match got.get(k) {
                    None => missing.push(format!("{:?}", k)),
                    Some(g) if g != v => stale.push(format!("{:?}: folded {:?} rib {:?}", k, g, v)),
                    _ => {}
                }
            }
            for k in got.keys() {
                if !want.contains_key(k) {
                    extra.push(format!("{:?}", k));
                }
            }
            let kind = if !stale.is_empty() {
                "last-is-not-current"
            } else if !missing.is_empty() {
                "missing-update"
            } else {
                "phantom-route"
            };
            let sig = format!("C18/{}/{}", name, kind);
            rep.violation(
                &sig,
                &format!(
                    "subscriber's folded {}-policy Adj-RIB-In differs from the RIB after all writers finished ({})",
                    name, kind
                ),
                Json::obj(vec![
                    ("seed", Json::Int(seed as i128)),
                    ("shards", Json::Int(cfg.shards as i128)),
                    ("writers", Json::Int(cfg.writers as i128)),
                    ("soft_reset", Json::Bool(cfg.soft_reset)),
                    ("missing", Json::strs(missing)),
                    ("extra", Json::strs(extra)),
                    ("stale", Json::strs(stale)),
                    ("ops", Json::strs(all_ops.clone())),
                    (
                        "sched_log",
                        Json::s(log.iter().take(400).map(|(t, p)| format!("{}:{}", t, p)).collect::<Vec<_>>().join(" ")),
                    ),
                ]),
            );
        }
    }
    rep.count("histories");
    if SNAPSHOT_FOLDER.get().is_some() {
        rep.count("histories-folded-with-daemon-apply_snapshot");
    }
    rep.nontrivial(ih);
    if rep.want_sample() {
        rep.sample(Json::obj(vec![
            ("seed", Json::Int(seed as i128)),
            ("shards", Json::Int(cfg.shards as i128)),
            ("ops", Json::strs(all_ops.into_iter().take(30))),
            ("rib_paths_at_end", Json::Int(pre.len() as i128)),
            (
                "subscriber_events",
                Json::arr(results.iter().map(|r| {
                    Json::obj(vec![
                        ("before_sentinel", Json::Int(r.fold.before_sentinel as i128)),
                        ("after_sentinel", Json::Int(r.fold.after_sentinel as i128)),
                        ("peer_down", Json::Int(r.fold.peer_down as i128)),
                    ])
                })),
            ),
        ]));
    }
}

#[test]
fn run() {
    run_entry();
}

pub(crate) fn run_entry() {
    let params = Params::from_args_env();
    let mut rep = Report::new("C18", &params);
    let mut rng = Rng::new(params.seed ^ 0xC18);
    let miri = cfg!(miri);
    let n = if miri {
        params.get_u64("histories", 2)
    } else {
        params.n(400, 6000)
    };
    for hist_no in 0..n {
        if !rep.in_budget() {
            break;
        }
        let cfg = if miri {
            HistoryCfg {
                shards: 2,
                writers: 2,
                subscribers: 1,
                ops_per_writer: 6,
                intensity: 60,
                soft_reset: true,
                family_onset: hist_no % 2 == 1,
            }
        } else {
            HistoryCfg {
                shards: *rng.pick(&[1usize, 2, 4]),
                writers: rng.range(2, 4) as usize,
                subscribers: rng.range(1, 2) as usize,
                ops_per_writer: rng.range(15, 40) as usize,
                intensity: *rng.pick(&[0u32, 30, 60, 90]),
                soft_reset: rng.chance(2, 3),
                // every third history (decided without touching the generator stream)
                family_onset: hist_no % 3 == 2,
            }
        };
        if cfg.family_onset {
            rep.count("histories-with-family-onset");
        }
        run_history(rng.next_u64(), &cfg, &mut rep);
    }
    let _ = rep.finish();
}
