//! C10 — graceful-restart helper: stale routes live only while a timer or an
//! End-of-RIB is pending.
//!
//! Two layers drive the same op histories and are judged by the same oracle:
//!
//! * L1 — real `TableManager` + `PeerContext` + the real `apply_disconnect`,
//!   `process_effects(GrSessionEstablished / GrEorReceived)`, `negotiate_gr`,
//!   `negotiate_llgr`, `families_to_drop_on_disconnect`, `gr_on_disconnect`
//!   and the real timer tasks, on `PeerSession::new_for_test` sessions.  A drop
//!   is the table calls of the `session_loop` tail, in its order, followed by
//!   `apply_disconnect`.
//! * L2 — the real `accept_connection` + `PeerSession::run` over loopback TCP,
//!   the harness being the remote speaker (OPEN with generated GR / LLGR
//!   capabilities, UPDATEs, EOR, NOTIFICATIONs, garbage, TCP close).
//!
//! Timer expiry is an event of the history: the restart timer and the
//! per-family LLGR timers are fired through the daemon's own one-shot senders.
//! Quiescence is detected by state: number of live timer tasks (strong count
//! of the `PeerContext` Arc minus the known holders) == number of armed slots.
//!
//! The oracle is written from the property statement; every announced path
//! carries MED = session epoch * 1000 + sequence number, so a path read back
//! from the RIB identifies the session that wrote it.
use super::super::*;
use super::common::*;
use bytes::BytesMut;
use std::collections::{BTreeMap, BTreeSet};
use std::net::{IpAddr, Ipv4Addr, Ipv6Addr};
use tokio::io::AsyncWriteExt;
use tokio::net::{TcpListener, TcpStream};

const FAMS: [Family; 2] = [Family::IPV4, Family::IPV6];
const FNAME: [&str; 2] = ["v4", "v6"];
const LOCAL_ASN: u32 = 65001;
const REMOTE_ASN: u32 = 65002;
const RESTART_TIME: u16 = 4095;
const LLGR_TIME: u32 = 1_000_000;
const PREFIX_LIMIT: u32 = 4;

/// bit i = FAMS[i]
type FSet = u8;

fn fset_vec(s: FSet) -> Vec<Family> {
    (0..2)
        .filter(|i| s & (1 << i) != 0)
        .map(|i| FAMS[i])
        .collect()
}
fn fset_str(s: FSet) -> String {
    let v: Vec<&str> = (0..2)
        .filter(|i| s & (1 << i) != 0)
        .map(|i| FNAME[i])
        .collect();
    if v.is_empty() {
        "-".into()
    } else {
        v.join("+")
    }
}
fn fidx(f: Family) -> Option<usize> {
    FAMS.iter().position(|x| *x == f)
}
fn has(s: FSet, i: usize) -> bool {
    s & (1 << i) != 0
}

// ------------------------------------------------------------------ histories

/// What the local side (the daemon) is configured with for this peer.
#[derive(Clone, Debug, PartialEq)]
struct LocalCfg {
    /// GR families (0 = GR not configured)
    gr: FSet,
    nbit: bool,
    /// LLGR families (0 = LLGR not configured)
    llgr: FSet,
    shards: usize,
    /// L2 only: per-family prefix limit of PREFIX_LIMIT on IPv4
    prefix_limit: bool,
    /// Add-Path receive configured for both families (the remote speaker then advertises send)
    addpath: bool,
}

/// What the remote speaker advertises in one OPEN.
#[derive(Clone, Copy, Debug, PartialEq)]
struct CapSpec {
    mp: FSet,
    /// (families, N-bit, per-family F-bits)
    gr: Option<(FSet, bool, FSet)>,
    llgr: FSet,
}

#[derive(Clone, Copy, Debug, PartialEq)]
enum ConnOutcome {
    Full,
    DieBeforeOpen,
    DieAfterOpen,
}

#[derive(Clone, Copy, Debug, PartialEq)]
enum AttrKind {
    Plain,
    /// carries NO_LLGR (0xFFFF0007)
    NoLlgr,
    /// carries LLGR_STALE (0xFFFF0006), as received from another helper upstream
    LlgrStaleComm,
}

#[derive(Clone, Copy, Debug, PartialEq)]
enum DropHow {
    TcpRst,
    TcpFin,
    /// remote speaker sends NOTIFICATION code/subcode
    Notif(u8, u8),
    /// remote speaker sends an unparsable message; the daemon answers with a header-error NOTIFICATION
    Garbage,
    /// remote speaker exceeds the configured prefix limit; the daemon sends Cease/1 (L2, cfg.prefix_limit)
    MaxPrefix,
    /// API shutdown_peer: force_down(AdminShutdown)
    ApiShutdown,
    /// API reset_peer: force_down(SendMessage(Cease/peer-deconfigured))
    ApiReset,
    /// BFD down: force_down(Silent)
    ApiSilent,
    /// the daemon's hold timer expires (L1 only: too slow over TCP)
    HoldTimer,
}

#[derive(Clone, Debug, PartialEq)]
enum Op {
    Connect {
        spec: CapSpec,
        outcome: ConnOutcome,
    },
    Announce {
        fam: usize,
        pfx: u8,
        kind: AttrKind,
    },
    Withdraw {
        fam: usize,
        pfx: u8,
    },
    Eor {
        fam: usize,
    },
    Drop {
        how: DropHow,
    },
    FireRestart,
    FireLlgr {
        fam: usize,
    },
    /// API reset/shutdown while no session is up (fires the pending timers)
    ForceDownIdle,
    /// The expiry handler of a restart timer that was cancelled a moment too late:
    /// its task had already left `timeout()` when the sender was dropped, so
    /// `gr_restart_timer_expired` still runs -- at any later point of the history.
    /// Applicable once per restart timer that was cancelled (not fired); a newer
    /// restart timer may be armed meanwhile (the handler does not touch the slot).
    LateRestart,
    /// The same for the LLGR timer of one family (`llgr_timer_expired`).
    LateLlgr {
        fam: usize,
    },
    /// The restart timer elapses by itself: the handler runs and, unlike a forced
    /// fire, nobody takes the sender out of `gr_restart_timer` -- it stays there
    /// with its receiver gone, as after `timeout()` returned `Elapsed`.
    ExpireRestart,
    /// The same for one family's LLGR timer: the dead sender stays in `llgr_family_timers`.
    ExpireLlgr {
        fam: usize,
    },
    /// Announce one path of a prefix: Add-Path path id (ids > 0 need Add-Path on the
    /// session) and a rank (AS_PATH length 3 - rank: 2 = best, 0 = worst), so that a
    /// re-announced path can rank before or after a stale sibling of the same prefix.
    /// `Announce` = path id 0, rank 2.
    AnnouncePath {
        fam: usize,
        pfx: u8,
        pid: u32,
        rank: u8,
        kind: AttrKind,
    },
    WithdrawPath {
        fam: usize,
        pfx: u8,
        pid: u32,
    },
}

impl Op {
    /// the plain forms expressed as the per-path ones
    fn normalized(&self) -> Op {
        match self {
            Op::Announce { fam, pfx, kind } => Op::AnnouncePath {
                fam: *fam,
                pfx: *pfx,
                pid: 0,
                rank: 2,
                kind: *kind,
            },
            Op::Withdraw { fam, pfx } => Op::WithdrawPath {
                fam: *fam,
                pfx: *pfx,
                pid: 0,
            },
            o => o.clone(),
        }
    }
}

impl Op {
    fn kind(&self) -> &'static str {
        match self {
            Op::Connect {
                outcome: ConnOutcome::Full,
                ..
            } => "connect-ok",
            Op::Connect {
                outcome: ConnOutcome::DieBeforeOpen,
                ..
            } => "reconnect-fail-before-open",
            Op::Connect {
                outcome: ConnOutcome::DieAfterOpen,
                ..
            } => "reconnect-fail-after-open",
            Op::Announce { .. } => "announce",
            Op::Withdraw { .. } => "withdraw",
            Op::Eor { .. } => "eor",
            Op::Drop { .. } => "drop",
            Op::FireRestart => "restart-timer",
            Op::FireLlgr { .. } => "llgr-timer",
            Op::ForceDownIdle => "force-down",
            Op::LateRestart => "late-restart-expiry",
            Op::LateLlgr { .. } => "late-llgr-expiry",
            Op::ExpireRestart => "restart-timer-natural",
            Op::ExpireLlgr { .. } => "llgr-timer-natural",
            Op::AnnouncePath { pid: 0, .. } => "announce",
            Op::AnnouncePath { .. } => "announce-extra-path-id",
            Op::WithdrawPath { pid: 0, .. } => "withdraw",
            Op::WithdrawPath { .. } => "withdraw-extra-path-id",
        }
    }
}

// ------------------------------------------------------------------ observation

#[derive(Clone, Debug, PartialEq, Eq, PartialOrd, Ord)]
struct PathObs {
    fam: usize,
    pfx: u8,
    /// Add-Path path id received from the peer
    pid: u32,
    /// MED of the path = epoch * 1000 + seq
    tag: u32,
    stale: bool,
    llgr_stale: bool,
    no_llgr: bool,
    llgr_comm: bool,
    /// position among the peer's paths of this destination, as the RIB ranks them (0 = best)
    pos: u8,
}

#[derive(Clone, Debug, PartialEq)]
struct Obs {
    paths: Vec<PathObs>,
    gr_timer: bool,
    llgr_timers: FSet,
    restarting: bool,
}

impl Obs {
    fn render(&self) -> String {
        let p: Vec<String> = self
            .paths
            .iter()
            .map(|p| {
                format!(
                    "{}/{}{}@{}{}{}{}{}",
                    FNAME[p.fam],
                    p.pfx,
                    if p.pid != 0 {
                        format!("#{}", p.pid)
                    } else {
                        String::new()
                    },
                    p.tag,
                    if p.stale { ":stale" } else { "" },
                    if p.llgr_stale { ":llgr-stale" } else { "" },
                    if p.no_llgr { ":NO_LLGR" } else { "" },
                    if p.llgr_comm { ":LLGR_STALE-comm" } else { "" }
                )
            })
            .collect();
        format!(
            "rib=[{}] restart-timer={} llgr-timers={} is_peer_restarting={}",
            p.join(" "),
            if self.gr_timer { "armed" } else { "-" },
            fset_str(self.llgr_timers),
            self.restarting
        )
    }
}

fn has_comm(attr: &[packet::Attribute], c: u32) -> bool {
    attr.iter()
        .find(|a| a.code() == packet::Attribute::COMMUNITY)
        .and_then(|a| a.binary())
        .is_some_and(|b| {
            b.chunks(4)
                .any(|x| x.len() == 4 && u32::from_be_bytes([x[0], x[1], x[2], x[3]]) == c)
        })
}

fn observe(tables: &TableHandle, ctx: &Arc<std::sync::Mutex<PeerContext>>, addr: IpAddr) -> Obs {
    let mut paths = Vec::new();
    for (fi, f) in FAMS.iter().enumerate() {
        for d in tables.collect_paths(table::TableQuery::AdjIn(addr), *f, vec![], true) {
            let pfx = match &d.net {
                packet::Nlri::V4(n) => n.addr.octets()[1],
                packet::Nlri::V6(n) => n.addr.segments()[2] as u8,
                _ => 255,
            };
            if pfx == SENTINEL {
                continue;
            }
            for (pos, p) in d.paths.into_iter().enumerate() {
                let tag = p
                    .attr
                    .iter()
                    .find(|a| a.code() == packet::Attribute::MULTI_EXIT_DESC)
                    .and_then(|a| a.value())
                    .unwrap_or(0);
                paths.push(PathObs {
                    fam: fi,
                    pfx,
                    pid: p.remote_path_id,
                    tag,
                    stale: p.stale,
                    llgr_stale: p.source.is_llgr_stale(),
                    no_llgr: has_comm(&p.attr, 0xffff_0007),
                    llgr_comm: has_comm(&p.attr, 0xffff_0006),
                    pos: pos as u8,
                });
            }
        }
    }
    paths.sort();
    let c = ctx.lock().unwrap();
    let gr_timer = c.gr_restart_timer.as_ref().is_some_and(|t| !t.is_closed());
    let mut llgr_timers = 0;
    for (f, t) in c.llgr_family_timers.iter() {
        if let Some(i) = fidx(*f)
            && !t.is_closed()
        {
            llgr_timers |= 1 << i;
        }
    }
    Obs {
        paths,
        gr_timer,
        llgr_timers,
        restarting: c.gr_state.is_peer_restarting(),
    }
}

/// Quiescence of the timer machinery, by state: every armed slot has exactly
/// one live timer task (each task owns one clone of the context Arc), and no
/// fired / cancelled task is still running.  `base` = holders that are not
/// timer tasks.
async fn wait_quiet(ctx: &Arc<std::sync::Mutex<PeerContext>>, base: usize) -> Result<(), HErr> {
    let deadline = std::time::Instant::now() + std::time::Duration::from_secs(15);
    let mut i = 0u32;
    loop {
        let armed = {
            let c = ctx.lock().unwrap();
            // a sender whose receiver is gone (timer elapsed by itself) has no task any more
            c.gr_restart_timer.as_ref().is_some_and(|t| !t.is_closed()) as usize
                + c.llgr_family_timers
                    .values()
                    .filter(|t| !t.is_closed())
                    .count()
                + c.rtc_eor_timer.as_ref().is_some_and(|t| !t.is_closed()) as usize
        };
        let strong = Arc::strong_count(ctx);
        if strong == base + armed {
            return Ok(());
        }
        if std::time::Instant::now() > deadline {
            return Err(HErr::Watchdog(format!(
                "timer tasks did not settle: context holders {} != base {} + armed slots {}",
                strong, base, armed
            )));
        }
        if i < 64 {
            tokio::task::yield_now().await;
        } else {
            tokio::time::sleep(std::time::Duration::from_millis(1)).await;
        }
        i += 1;
    }
}

#[derive(Debug, Clone)]
enum HErr {
    Io(String),
    Watchdog(String),
    Harness(String),
    Panic(String, String),
}

// ------------------------------------------------------------------ oracle

#[derive(Clone, Copy, PartialEq, Debug)]
enum DropClass {
    /// the statement / RFC 4724 demand helper mode
    MustHelp,
    /// the statement forbids helper mode
    MustNot,
    /// the statement is silent: both outcomes accepted
    Either,
    /// neither GR nor LLGR negotiated on the dropped session
    Plain,
}

/// Eligibility decided from the statement ("a hard reset, admin shutdown or
/// non-Cease error never enters helper mode"), RFC 4724 (TCP failure => helper;
/// NOTIFICATION => no helper) and RFC 8538 (N-bit: the statement is silent on
/// Cease NOTIFICATIONs other than hard reset and on hold-timer expiry, so both
/// outcomes are accepted there).
fn classify(how: DropHow, negotiated_any: bool, nbit: bool) -> (DropClass, &'static str) {
    let (c, l) = match how {
        DropHow::TcpRst | DropHow::TcpFin => (DropClass::MustHelp, "tcp-close"),
        DropHow::Notif(6, 9) => (DropClass::MustNot, "hard-reset"),
        DropHow::Notif(6, _) | DropHow::MaxPrefix => {
            if nbit {
                (DropClass::Either, "cease-nbit")
            } else {
                (DropClass::MustNot, "notification-no-nbit")
            }
        }
        DropHow::Notif(4, _) | DropHow::HoldTimer => {
            if nbit {
                (DropClass::Either, "hold-timer-nbit")
            } else {
                (DropClass::MustNot, "notification-no-nbit")
            }
        }
        DropHow::Notif(_, _) | DropHow::Garbage => (
            DropClass::MustNot,
            if nbit {
                "non-cease-error-nbit"
            } else {
                "non-cease-error"
            },
        ),
        DropHow::ApiShutdown | DropHow::ApiReset | DropHow::ApiSilent => {
            (DropClass::MustNot, "admin-shutdown")
        }
    };
    if negotiated_any {
        (c, l)
    } else {
        (DropClass::Plain, l)
    }
}

#[derive(Clone, Debug)]
struct Live {
    epoch: u32,
    fams: FSet,
    gr: FSet,
    nbit: bool,
    llgr: FSet,
    eor_seen: FSet,
    /// (family, prefix, path id) -> (tag, kind) announced on this session and not withdrawn
    announced: BTreeMap<(usize, u8, u32), (u32, AttrKind)>,
    seq: u32,
}

/// What the executor did (abstract event), judged against pre/post observations.
#[derive(Clone, Debug)]
enum Ev {
    Established {
        spec: CapSpec,
    },
    ReconnectFail {
        after_open: bool,
    },
    Announced {
        fam: usize,
        pfx: u8,
        pid: u32,
        tag: u32,
        kind: AttrKind,
    },
    Withdrawn {
        fam: usize,
        pfx: u8,
        pid: u32,
    },
    Eor {
        fam: usize,
    },
    Dropped {
        how: DropHow,
    },
    RestartFired,
    LlgrFired {
        fam: usize,
    },
    ForcedDownIdle,
    LateRestart,
    LateLlgr {
        fam: usize,
    },
}

#[derive(Clone, Debug)]
struct Finding {
    clause: &'static str,
    event: String,
    fact: String,
    detail: String,
}

impl Finding {
    fn sig(&self) -> String {
        format!("C10/{}/{}/{}", self.clause, self.event, self.fact)
    }
}

#[derive(Default, Clone)]
struct Stats {
    c: BTreeMap<String, u64>,
}
impl Stats {
    fn add(&mut self, k: &str) {
        *self.c.entry(k.to_string()).or_insert(0) += 1;
    }
}

struct Model {
    cfg: LocalCfg,
    live: Option<Live>,
    epochs: u32,
    /// a GR-eligible drop kept stale routes at some point of this history
    retained_stale: bool,
    /// ... and a later step was judged while they (or their absence) mattered
    judged_after_retention: bool,
    /// helper cycles started so far (a cycle starts with a drop that enters helper mode)
    cycle: u32,
    in_cycle: bool,
    /// how the first cycle ended
    first_end: Option<&'static str>,
}

impl Model {
    fn new(cfg: &LocalCfg) -> Model {
        Model {
            cfg: cfg.clone(),
            live: None,
            epochs: 0,
            retained_stale: false,
            judged_after_retention: false,
            cycle: 0,
            in_cycle: false,
            first_end: None,
        }
    }

    /// negotiation per RFC 4724 / 8538 / 9494: intersection of what both sides advertised
    fn negotiate(&self, spec: &CapSpec) -> (FSet, FSet, bool, FSet) {
        let fams = spec.mp & 0b11;
        let (gr, nbit) = match spec.gr {
            Some((f, n, _)) if self.cfg.gr != 0 => (f & self.cfg.gr, n && self.cfg.nbit),
            _ => (0, false),
        };
        let nbit = nbit && gr != 0;
        let llgr = spec.llgr & self.cfg.llgr;
        (fams, gr, nbit, llgr)
    }

    fn is_old(&self, p: &PathObs) -> bool {
        match &self.live {
            None => true,
            Some(l) => p.tag / 1000 != l.epoch,
        }
    }

    fn stale_like(&self, p: &PathObs) -> bool {
        self.is_old(p) || p.stale || p.llgr_stale
    }

    /// Coverage: destinations of `fam` that hold, at the moment of a purge, both a fresh
    /// path of the live session and a stale sibling (another path id) of an earlier one,
    /// and which of the two the RIB ranks first.
    fn count_mixed_siblings(&self, pre: &Obs, fam: usize, st: &mut Stats) {
        let mut by_pfx: BTreeMap<u8, Vec<&PathObs>> = BTreeMap::new();
        for p in pre.paths.iter().filter(|p| p.fam == fam) {
            by_pfx.entry(p.pfx).or_default().push(p);
        }
        for ps in by_pfx.values() {
            let fresh = ps.iter().filter(|p| !self.stale_like(p)).map(|p| p.pos).min();
            let stale = ps.iter().filter(|p| self.stale_like(p)).map(|p| p.pos).min();
            if let (Some(f), Some(s)) = (fresh, stale) {
                let k = "addpath:destinations-with-fresh-and-stale-siblings-at-purge";
                st.add(k);
                st.add(&format!("{}:{}", k, if f < s { "fresh-ranks-first" } else { "stale-ranks-first" }));
                if ps.iter().any(|p| p.llgr_stale) {
                    st.add(&format!("{}:llgr-stale-sibling", k));
                }
                if ps.iter().any(|p| p.no_llgr && self.stale_like(p)) {
                    st.add(&format!("{}:no-llgr-stale-sibling", k));
                }
            }
        }
    }

    fn step(&mut self, ev: &Ev, pre: &Obs, post: &Obs, st: &mut Stats) -> Vec<Finding> {
        let mut out: Vec<Finding> = Vec::new();
        let mut skip_i1: FSet = 0;
        let mut check_i5 = true;
        let label: String;
        match ev {
            Ev::Established { spec } => {
                self.epochs += 1;
                let (fams, gr, nbit, llgr) = self.negotiate(spec);
                self.live = Some(Live {
                    epoch: self.epochs,
                    fams,
                    gr,
                    nbit,
                    llgr,
                    eor_seen: 0,
                    announced: BTreeMap::new(),
                    seq: 0,
                });
                label = "established".into();
                if self.retained_stale {
                    self.judged_after_retention = true;
                    st.add(if gr != 0 {
                        "established:after-retention:gr-renegotiated"
                    } else {
                        "established:after-retention:no-gr"
                    });
                }
            }
            Ev::ReconnectFail { after_open } => {
                label = if *after_open {
                    "reconnect-fail-after-open".into()
                } else {
                    "reconnect-fail-before-open".into()
                };
                if pre.gr_timer || pre.llgr_timers != 0 {
                    st.add("I6:judged");
                    self.judged_after_retention = true;
                    if pre.gr_timer && !post.gr_timer {
                        out.push(Finding {
                            clause: "I6",
                            event: label.clone(),
                            fact: "restart-timer-disarmed".into(),
                            detail: "the restart timer was armed before the failed reconnection attempt and is not armed after it".into(),
                        });
                    }
                    if pre.llgr_timers & !post.llgr_timers != 0 {
                        out.push(Finding {
                            clause: "I6",
                            event: label.clone(),
                            fact: "llgr-timer-disarmed".into(),
                            detail: format!(
                                "LLGR timers {} armed before, {} after",
                                fset_str(pre.llgr_timers),
                                fset_str(post.llgr_timers)
                            ),
                        });
                    }
                    if pre.paths.iter().any(|p| !post.paths.contains(p)) {
                        st.add("unjudged:routes-changed-by-failed-reconnect");
                    }
                }
            }
            Ev::Announced {
                fam,
                pfx,
                pid,
                tag,
                kind,
            } => {
                label = "announce".into();
                check_i5 = false;
                if let Some(l) = self.live.as_mut() {
                    l.announced.insert((*fam, *pfx, *pid), (*tag, *kind));
                }
                if *pid != 0 {
                    st.add("addpath:extra-path-id-announced");
                }
                // a fresh path beside a stale sibling (other path id) of the same prefix
                if post.paths.iter().any(|p| p.fam == *fam && p.pfx == *pfx && p.pid != *pid && self.stale_like(p)) {
                    st.add("addpath:fresh-path-beside-stale-sibling");
                }
            }
            Ev::Withdrawn { fam, pfx, pid } => {
                label = "withdraw".into();
                check_i5 = false;
                if let Some(l) = self.live.as_mut() {
                    l.announced.remove(&(*fam, *pfx, *pid));
                }
            }
            Ev::Eor { fam } => {
                label = "eor".into();
                if let Some(l) = self.live.as_mut() {
                    l.eor_seen |= 1 << fam;
                }
                self.count_mixed_siblings(pre, *fam, st);
                let had = pre
                    .paths
                    .iter()
                    .any(|p| p.fam == *fam && self.stale_like(p));
                if had {
                    st.add("I4:eor:judged");
                    self.judged_after_retention = true;
                }
                let left: Vec<&PathObs> = post
                    .paths
                    .iter()
                    .filter(|p| p.fam == *fam && self.stale_like(p))
                    .collect();
                if !left.is_empty() {
                    skip_i1 |= 1 << fam;
                    out.push(Finding {
                        clause: "I4",
                        event: label.clone(),
                        fact: "stale-remains".into(),
                        detail: format!("after End-of-RIB for {} on the new session {} path(s) of the old session remain", FNAME[*fam], left.len()),
                    });
                }
            }
            Ev::Dropped { how } => {
                let l = self.live.take();
                let (fams, gr, nbit, llgr) = match &l {
                    Some(l) => (l.fams, l.gr, l.nbit, l.llgr),
                    None => (0, 0, false, 0),
                };
                let neg = gr | llgr;
                let (class, dl) = classify(*how, neg != 0, nbit);
                label = dl.into();
                st.add(&format!("drop:{}", dl));
                let entered = post.restarting || post.gr_timer || post.llgr_timers != 0;
                let judge_i2 = match class {
                    DropClass::MustHelp => true,
                    DropClass::Either => {
                        st.add(if entered {
                            "either:helper-entered"
                        } else {
                            "either:helper-not-entered"
                        });
                        entered
                    }
                    _ => false,
                };
                if judge_i2 {
                    st.add("I2:judged");
                    let _ = fams;
                    for f in 0..2 {
                        let pre_f: Vec<&PathObs> =
                            pre.paths.iter().filter(|p| p.fam == f).collect();
                        let post_f: Vec<&PathObs> =
                            post.paths.iter().filter(|p| p.fam == f).collect();
                        if has(neg, f) {
                            let llgr_started = has(post.llgr_timers, f) && !post.gr_timer;
                            let lost = pre_f
                                .iter()
                                .filter(|p| !(llgr_started && p.no_llgr))
                                // the max-prefix drop itself announces prefixes (they may replace kept ones)
                                .filter(|p| {
                                    !post_f.iter().any(|q| {
                                        q.pfx == p.pfx
                                            && (q.tag == p.tag || *how == DropHow::MaxPrefix)
                                    })
                                })
                                .count();
                            if lost > 0 {
                                skip_i1 |= 1 << f;
                                out.push(Finding {
                                    clause: "I2",
                                    event: label.clone(),
                                    fact: "negotiated-family-not-kept".into(),
                                    detail: format!("{} of {} path(s) of negotiated family {} are gone after a GR-eligible drop", lost, pre_f.len(), FNAME[f]),
                                });
                            }
                            let unmarked =
                                post_f.iter().filter(|q| !(q.stale || q.llgr_stale)).count();
                            if unmarked > 0 {
                                skip_i1 |= 1 << f;
                                let llgr_only = !has(gr, f) && gr != 0;
                                out.push(Finding {
                                    clause: "I2",
                                    event: label.clone(),
                                    fact: if llgr_only { "llgr-only-family-kept-unmarked".into() } else { "kept-unmarked".into() },
                                    detail: format!("{} kept path(s) of negotiated family {} carry neither the stale nor the LLGR-stale mark", unmarked, FNAME[f]),
                                });
                            }
                            if !post_f.is_empty() {
                                self.retained_stale = true;
                                st.add("I2:family-kept-stale");
                            }
                        } else {
                            if !pre_f.is_empty() {
                                st.add("I2:other-family-judged");
                            }
                            if !post_f.is_empty() {
                                skip_i1 |= 1 << f;
                                out.push(Finding {
                                    clause: "I2",
                                    event: label.clone(),
                                    fact: "other-family-survives".into(),
                                    detail: format!("{} path(s) of {} (not negotiated for GR/LLGR) survive the drop", post_f.len(), FNAME[f]),
                                });
                            }
                        }
                    }
                }
                if class == DropClass::MustNot {
                    st.add("I3:judged");
                    if !pre.paths.is_empty() {
                        st.add("I3:judged-with-routes");
                    }
                    if self.retained_stale {
                        self.judged_after_retention = true;
                    }
                    if !post.paths.is_empty() {
                        skip_i1 = 0b11;
                        let flagged = post
                            .paths
                            .iter()
                            .filter(|p| p.stale || p.llgr_stale)
                            .count();
                        out.push(Finding {
                            clause: "I3",
                            event: label.clone(),
                            fact: "routes-survive".into(),
                            detail: format!("{} path(s) of the peer survive a drop that must not enter helper mode ({} marked stale)", post.paths.len(), flagged),
                        });
                    }
                    if post.restarting {
                        out.push(Finding {
                            clause: "I3",
                            event: label.clone(),
                            fact: "helper-state-entered".into(),
                            detail: "GrState::is_peer_restarting() is true after a drop that must not enter helper mode".into(),
                        });
                    }
                    if post.gr_timer || post.llgr_timers != 0 {
                        out.push(Finding {
                            clause: "I3",
                            event: label.clone(),
                            fact: "timer-armed".into(),
                            detail: "a restart / LLGR timer is armed after a drop that must not enter helper mode".into(),
                        });
                    }
                }
            }
            Ev::RestartFired => {
                label = "restart-timer".into();
                st.add("I4:restart-timer:judged");
                self.judged_after_retention = true;
                for f in 0..2 {
                    let left = post
                        .paths
                        .iter()
                        .filter(|p| p.fam == f && self.stale_like(p))
                        .count();
                    if left > 0 && !has(post.llgr_timers, f) && self.live.is_none() {
                        skip_i1 |= 1 << f;
                        out.push(Finding {
                            clause: "I4",
                            event: label.clone(),
                            fact: "stale-remains".into(),
                            detail: format!("{} stale path(s) of {} remain after the restart timer expired and no LLGR timer is armed for {}", left, FNAME[f], FNAME[f]),
                        });
                    }
                }
            }
            Ev::LlgrFired { fam } => {
                label = "llgr-timer".into();
                st.add("I4:llgr-timer:judged");
                self.judged_after_retention = true;
                let left = post
                    .paths
                    .iter()
                    .filter(|p| p.fam == *fam && self.stale_like(p))
                    .count();
                if left > 0 && self.live.is_none() {
                    skip_i1 |= 1 << fam;
                    out.push(Finding {
                        clause: "I4",
                        event: label.clone(),
                        fact: "stale-remains".into(),
                        detail: format!(
                            "{} stale path(s) of {} remain after its LLGR timer expired",
                            left, FNAME[*fam]
                        ),
                    });
                }
            }
            Ev::ForcedDownIdle => {
                label = "force-down".into();
                if post.llgr_timers != 0 {
                    st.add("unjudged:force-down-starts-llgr-period");
                }
            }
            Ev::LateRestart | Ev::LateLlgr { .. } => {
                // only the standing invariants (I1, I5, I7) are judged: a late handler
                // is not "that timer's expiry" of any pending period
                let which = if matches!(ev, Ev::LateRestart) {
                    "restart"
                } else {
                    "llgr"
                };
                label = format!("late-{}-expiry", which);
                // helper state the handler found, as far as it can be told from outside
                let state = if !pre.restarting {
                    "idle"
                } else if self.live.is_some() {
                    "reconnected"
                } else if pre.llgr_timers != 0 && !pre.gr_timer {
                    "llgr-staling"
                } else {
                    "restarting"
                };
                st.add(&format!("late:{}:in-{}", which, state));
                if pre.paths.iter().any(|p| self.stale_like(p)) {
                    st.add(&format!("late:{}:with-stale-routes", which));
                    self.judged_after_retention = true;
                }
                if pre != post {
                    st.add(&format!("late:{}:changed-the-state", which));
                }
            }
        }

        // I1: stale paths exist => a timer is armed or an EOR is awaited
        for f in 0..2 {
            if has(skip_i1, f) {
                continue;
            }
            let stale: Vec<&PathObs> = post
                .paths
                .iter()
                .filter(|p| p.fam == f && self.stale_like(p))
                .collect();
            if stale.is_empty() {
                continue;
            }
            st.add("I1:judged");
            let eor_awaited = self
                .live
                .as_ref()
                .is_some_and(|l| has(l.gr, f) && !has(l.eor_seen, f));
            if post.gr_timer {
                st.add("I1:by-restart-timer");
            } else if has(post.llgr_timers, f) {
                st.add("I1:by-llgr-timer");
            } else if eor_awaited {
                st.add("I1:by-awaited-eor");
            } else {
                let flagged = stale.iter().any(|p| p.stale || p.llgr_stale);
                out.push(Finding {
                    clause: "I1",
                    event: label.clone(),
                    fact: if flagged { "stale-without-timer-or-eor".into() } else { "old-session-path-without-timer-or-eor".into() },
                    detail: format!(
                        "{} path(s) of {} from a previous session exist while no restart timer and no {} LLGR timer is armed and no End-of-RIB for {} is awaited ({})",
                        stale.len(),
                        FNAME[f],
                        FNAME[f],
                        FNAME[f],
                        if self.live.is_some() { "session established" } else { "peer down" }
                    ),
                });
            }
        }

        // I5: paths announced on the live session are never removed by a purge
        if check_i5 && let Some(l) = &self.live {
            for ((f, pfx, pid), (tag, kind)) in &l.announced {
                st.add("I5:judged");
                if !post
                    .paths
                    .iter()
                    .any(|p| p.fam == *f && p.pfx == *pfx && p.pid == *pid && p.tag == *tag)
                {
                    out.push(Finding {
                        clause: "I5",
                        event: label.clone(),
                        fact: if *kind == AttrKind::LlgrStaleComm {
                            "reannounced-path-with-llgr-stale-community-lost".into()
                        } else {
                            "reannounced-path-lost".into()
                        },
                        detail: format!(
                            "path {}/{} path-id {} tag {} announced on the live session is gone",
                            FNAME[*f], pfx, pid, tag
                        ),
                    });
                    break;
                }
            }
        }

        // I7: no NO_LLGR route while the LLGR period runs
        for f in 0..2 {
            let llgr_running = self.live.is_none() && has(post.llgr_timers, f) && !post.gr_timer;
            if llgr_running {
                st.add("I7:judged");
            }
            let bad = post
                .paths
                .iter()
                .filter(|p| {
                    p.fam == f && p.no_llgr && self.is_old(p) && (llgr_running || p.llgr_stale)
                })
                .count();
            if bad > 0 {
                out.push(Finding {
                    clause: "I7",
                    event: label.clone(),
                    fact: "no-llgr-route-kept".into(),
                    detail: format!(
                        "{} path(s) of {} carrying NO_LLGR are kept in the LLGR period",
                        bad, FNAME[f]
                    ),
                });
            }
        }
        if pre.paths.iter().any(|p| p.no_llgr)
            && !post.paths.iter().any(|p| p.no_llgr)
            && post.llgr_timers != 0
            && pre.llgr_timers == 0
        {
            st.add("I7:no-llgr-route-dropped-at-llgr-start");
        }

        if !post.restarting && self.live.is_none() && (post.gr_timer || post.llgr_timers != 0) {
            st.add("unjudged:timer-armed-but-not-restarting");
        }
        if post.restarting
            && post.paths.iter().all(|p| !self.stale_like(p))
            && !post.gr_timer
            && post.llgr_timers == 0
        {
            st.add("unjudged:restarting-with-nothing-pending");
        }
        if post.paths.iter().any(|p| p.stale) {
            st.add("obs:stale-paths-seen");
        }
        if post.paths.iter().any(|p| p.llgr_stale) {
            st.add("obs:llgr-stale-paths-seen");
        }
        self.track_cycles(ev, pre, post, st);
        out
    }

    /// Coverage bookkeeping only (no verdicts): which helper cycle of the peer this
    /// is, how the first one ended, and what the second one got to do.  Everything the
    /// helper keeps per peer (restart-timer slot, per-family LLGR timer map, GrState,
    /// the GR/LLGR parameters remembered for the next drop) outlives a cycle.
    fn track_cycles(&mut self, ev: &Ev, pre: &Obs, post: &Obs, st: &mut Stats) {
        let timers_post = post.gr_timer || post.llgr_timers != 0;
        let mut ended: Option<&'static str> = None;
        let mut llgr_entered = false;
        match ev {
            Ev::Dropped { .. } => {
                if post.restarting && timers_post {
                    if !self.in_cycle {
                        self.cycle += 1;
                        self.in_cycle = true;
                        if self.cycle == 2 {
                            st.add("cycle2:entered");
                            st.add(&format!(
                                "cycle2:entered-after:{}",
                                self.first_end.unwrap_or("?")
                            ));
                        } else if self.cycle > 2 {
                            st.add("cycle3+:entered");
                        }
                    }
                    if post.llgr_timers != 0 && !post.gr_timer && pre.llgr_timers == 0 {
                        llgr_entered = true;
                    }
                } else if self.in_cycle {
                    ended = Some("non-gr-drop");
                }
            }
            Ev::RestartFired => {
                if self.cycle >= 2 && self.in_cycle {
                    st.add("cycle2:restart-expiry");
                }
                if post.llgr_timers != 0 && pre.llgr_timers == 0 {
                    llgr_entered = true;
                } else if self.in_cycle && !timers_post && self.live.is_none() {
                    ended = Some("restart-expiry-without-llgr");
                }
            }
            Ev::LlgrFired { fam } => {
                if self.cycle >= 2
                    && pre
                        .paths
                        .iter()
                        .any(|p| p.fam == *fam && self.stale_like(p))
                    && !post
                        .paths
                        .iter()
                        .any(|p| p.fam == *fam && self.stale_like(p))
                {
                    st.add("cycle2:llgr-expiry-purged");
                }
                if self.in_cycle && !timers_post && self.live.is_none() {
                    ended = Some("llgr-expiry");
                }
            }
            Ev::Established { .. } => {
                if self.in_cycle {
                    ended = Some(if pre.llgr_timers != 0 {
                        "reconnect-during-llgr"
                    } else {
                        "eor"
                    });
                }
            }
            Ev::Eor { fam } => {
                if self.cycle >= 2
                    && pre
                        .paths
                        .iter()
                        .any(|p| p.fam == *fam && self.stale_like(p))
                    && !post
                        .paths
                        .iter()
                        .any(|p| p.fam == *fam && self.stale_like(p))
                {
                    st.add("cycle2:eor-purged");
                }
            }
            Ev::ForcedDownIdle => {
                if self.in_cycle && !timers_post {
                    ended = Some("forced-down");
                }
            }
            _ => {}
        }
        if llgr_entered && self.cycle >= 2 {
            st.add("cycle2:llgr-period-entered");
            st.add(&format!(
                "cycle2:llgr-period-entered-after:{}",
                self.first_end.unwrap_or("?")
            ));
        }
        if let Some(kind) = ended {
            self.in_cycle = false;
            if self.cycle == 1 && self.first_end.is_none() {
                self.first_end = Some(kind);
                st.add(&format!("cycle1-end:{}", kind));
            } else if self.cycle >= 2 {
                st.add(&format!("cycle2-end:{}", kind));
            }
        }
    }
}

// ------------------------------------------------------------------ shared builders

fn peer_v4() -> IpAddr {
    IpAddr::V4(Ipv4Addr::new(127, 0, 0, 1))
}

fn nlri(fam: usize, pfx: u8) -> packet::Nlri {
    if fam == 0 {
        packet::Nlri::V4(bgp::Ipv4Net {
            addr: Ipv4Addr::new(10, pfx, 0, 0),
            mask: 16,
        })
    } else {
        packet::Nlri::V6(bgp::Ipv6Net {
            addr: Ipv6Addr::new(0x2001, 0xdb8, pfx as u16, 0, 0, 0, 0, 0),
            mask: 48,
        })
    }
}

fn nexthop(fam: usize) -> bgp::Nexthop {
    if fam == 0 {
        bgp::Nexthop::V4(Ipv4Addr::new(192, 0, 2, 77))
    } else {
        bgp::Nexthop::V6(Ipv6Addr::new(0x2001, 0xdb8, 0xffff, 0, 0, 0, 0, 0x77))
    }
}

fn mk_attrs(tag: u32, kind: AttrKind) -> Arc<Vec<packet::Attribute>> {
    mk_attrs_rank(tag, kind, 2)
}

/// rank 2 = AS_PATH of length 1 (best), 1 = length 2, 0 = length 3 (worst); nothing else the
/// RIB ranks on differs between two paths of the peer, and a stale path loses a tie
fn mk_attrs_rank(tag: u32, kind: AttrKind, rank: u8) -> Arc<Vec<packet::Attribute>> {
    let mut v = vec![
        packet::Attribute::new_with_value(packet::Attribute::ORIGIN, 0).unwrap(),
        {
            let len = 3 - rank.min(2);
            let mut b = vec![2u8, len];
            b.extend_from_slice(&REMOTE_ASN.to_be_bytes());
            for k in 1..len {
                b.extend_from_slice(&(64900u32 + k as u32).to_be_bytes());
            }
            packet::Attribute::new_with_bin(packet::Attribute::AS_PATH, b).unwrap()
        },
        packet::Attribute::new_with_value(packet::Attribute::MULTI_EXIT_DESC, tag).unwrap(),
    ];
    let comm = match kind {
        AttrKind::Plain => None,
        AttrKind::NoLlgr => Some(0xffff_0007u32),
        AttrKind::LlgrStaleComm => Some(0xffff_0006u32),
    };
    if let Some(c) = comm {
        let mut b = 0xfde8_0001u32.to_be_bytes().to_vec();
        b.extend_from_slice(&c.to_be_bytes());
        v.push(packet::Attribute::new_with_bin(packet::Attribute::COMMUNITY, b).unwrap());
    }
    Arc::new(v)
}

fn spec_caps(spec: &CapSpec, addpath: bool) -> Vec<packet::Capability> {
    let mut v = Vec::new();
    for f in fset_vec(spec.mp) {
        v.push(packet::Capability::MultiProtocol(f));
    }
    v.push(packet::Capability::FourOctetAsNumber(REMOTE_ASN));
    if addpath {
        // RFC 7911 mode 2: the remote speaker sends several paths per prefix
        v.push(packet::Capability::AddPath(
            fset_vec(spec.mp).into_iter().map(|f| (f, 2u8)).collect(),
        ));
    }
    if let Some((fams, nbit, fbits)) = spec.gr {
        v.push(packet::Capability::GracefulRestart {
            flags: if nbit { 0x4 } else { 0 },
            restart_time: RESTART_TIME,
            families: (0..2)
                .filter(|i| has(fams, *i))
                .map(|i| (FAMS[i], if has(fbits, i) { 0x80 } else { 0 }))
                .collect(),
        });
    }
    if spec.llgr != 0 {
        v.push(packet::Capability::LongLivedGracefulRestart(
            (0..2)
                .filter(|i| has(spec.llgr, *i))
                .map(|i| (FAMS[i], 0x80u8, LLGR_TIME))
                .collect(),
        ));
    }
    v
}

fn local_gr_cfg(cfg: &LocalCfg) -> (Option<GrPeerConfig>, Option<LlgrPeerConfig>) {
    let gr = (cfg.gr != 0).then(|| GrPeerConfig {
        restart_time: RESTART_TIME,
        notification_enabled: cfg.nbit,
        families: fset_vec(cfg.gr),
    });
    let llgr = (cfg.llgr != 0).then(|| LlgrPeerConfig {
        families: fset_vec(cfg.llgr)
            .into_iter()
            .map(|f| (f, LLGR_TIME))
            .collect(),
    });
    (gr, llgr)
}

fn local_families() -> FnvHashMap<Family, u8> {
    local_families_ap(false)
}

/// Add-Path mode 1 = the daemon receives several paths per prefix
fn local_families_ap(addpath: bool) -> FnvHashMap<Family, u8> {
    let mut m = FnvHashMap::default();
    let mode = if addpath { 1u8 } else { 0u8 };
    m.insert(Family::IPV4, mode);
    m.insert(Family::IPV6, mode);
    m
}

fn make_global() -> GlobalHandle {
    let (tx, _rx) = mpsc::unbounded_channel();
    let (bfd_tx, _bfd_rx) = mpsc::unbounded_channel();
    let mut g = Global::new(tx, bfd_tx);
    g.asn = LOCAL_ASN;
    g.router_id = Ipv4Addr::new(1, 0, 0, 1);
    Arc::new(tokio::sync::RwLock::new(g))
}

fn reason_of(how: DropHow) -> crate::fsm::SessionDownReason {
    use crate::fsm::SessionDownReason as R;
    match how {
        DropHow::TcpRst | DropHow::TcpFin => R::IoError,
        DropHow::Notif(c, s) => R::RemoteNotification(bgp::Message::Notification(
            packet::Notification::from_notification(c, s, vec![]),
        )),
        DropHow::Garbage => R::LocalNotification(bgp::Message::Notification(
            packet::Notification::BadMessageType { data: vec![9] },
        )),
        DropHow::MaxPrefix => R::LocalNotification(bgp::Message::Notification(
            packet::Notification::CeaseMaxPrefixReached,
        )),
        DropHow::ApiShutdown | DropHow::ApiReset | DropHow::ApiSilent => R::AdminShutdown,
        DropHow::HoldTimer => R::HoldTimerExpired,
    }
}

/// How the L1 executor reproduces the two pieces of glue it cannot call on
/// their own (they live inside `PeerSession::session_loop` / `run`, which need a
/// live TCP stream): the table calls of the session_loop tail and what `run`
/// does for a connection that never reached Established.  `calibrate()` picks,
/// at start-up, the variant whose observable behaviour equals that of the real
/// code (L2) on a few probe histories, so the replica cannot silently drift
/// from the code under test; if no variant matches, L1 is not run (inconclusive).
#[derive(Clone, Copy, PartialEq, Debug)]
struct Replica {
    /// eligibility (gr_on_disconnect) is decided before the table calls and only
    /// eligible GR / LLGR families are kept (HEAD: all negotiated families are kept)
    elig_first: bool,
    /// kept LLGR-only families are marked stale as well (HEAD: only GR families)
    llgr_stale: bool,
    /// a connection that never reached Established does not go through apply_disconnect
    fail_noop: bool,
}

static REPLICA: std::sync::atomic::AtomicU8 = std::sync::atomic::AtomicU8::new(0);

fn replica() -> Replica {
    let v = REPLICA.load(std::sync::atomic::Ordering::Relaxed);
    Replica {
        elig_first: v & 1 != 0,
        llgr_stale: v & 2 != 0,
        fail_noop: v & 4 != 0,
    }
}

/// One step of a history as executed: None = the op was not applicable in the current state.
type StepResult = Result<Option<Ev>, HErr>;

// ------------------------------------------------------------------ L1 executor

struct L1Live {
    sess: PeerSession,
    fams: FSet,
    /// families on which the daemon receives Add-Path path ids from the peer
    addpath_rx: FSet,
    epoch: u32,
    seq: u32,
}

struct L1World {
    global: GlobalHandle,
    tables: TableHandle,
    ctx: Arc<std::sync::Mutex<PeerContext>>,
    addr: IpAddr,
    local_cap: Vec<packet::Capability>,
    live: Option<L1Live>,
    epochs: u32,
    ts: u32,
    addpath: bool,
}

impl L1World {
    fn new(cfg: &LocalCfg) -> L1World {
        let addr = IpAddr::V4(Ipv4Addr::new(192, 0, 2, 10));
        let (gr, llgr) = local_gr_cfg(cfg);
        let local_cap = PeerParams::build_local_cap(
            addr,
            LOCAL_ASN,
            &local_families_ap(cfg.addpath),
            gr.as_ref(),
            llgr.as_ref(),
        );
        let fsm = crate::fsm::PeerFsm::new(
            u32::from(Ipv4Addr::new(1, 0, 0, 1)),
            LOCAL_ASN,
            local_cap.clone(),
            90,
            0,
            FnvHashMap::default(),
        );
        let ctx = Arc::new(std::sync::Mutex::new(PeerContext {
            conn_arbiter: Arc::new(std::sync::Mutex::new(ConnArbiter::new(fsm))),
            active_connect_cancel_tx: None,
            active_connect_join_handle: None,
            gr_state: crate::gr::GrState::new(),
            gr_restart_timer: None,
            llgr_family_timers: FnvHashMap::default(),
            rtc_state: crate::rtc::RtcState::new(),
            rtc_eor_timer: None,
        }));
        L1World {
            global: make_global(),
            tables: Arc::new(TableManager::new(cfg.shards)),
            ctx,
            addr,
            local_cap,
            live: None,
            epochs: 0,
            ts: 1,
            addpath: cfg.addpath,
        }
    }

    fn base(&self) -> usize {
        1 + self.live.is_some() as usize
    }

    fn observe(&self) -> Obs {
        observe(&self.tables, &self.ctx, self.addr)
    }

    async fn quiet(&self) -> Result<(), HErr> {
        wait_quiet(&self.ctx, self.base()).await
    }

    async fn cleanup(&mut self) {
        self.live = None;
        {
            let mut c = self.ctx.lock().unwrap();
            c.cancel_gr_timer();
            c.cancel_llgr_timers();
            c.cancel_rtc_timer();
        }
        let _ = wait_quiet(&self.ctx, 1).await;
    }

    async fn apply(&mut self, op: &Op) -> StepResult {
        self.ts += 1;
        let op = &op.normalized();
        match op {
            Op::Connect { spec, outcome } => {
                if self.live.is_some() || spec.mp == 0 {
                    return Ok(None);
                }
                let mut sess =
                    PeerSession::new_for_test(self.addr, self.ctx.clone(), self.tables.clone());
                sess.local_cap = self.local_cap.clone();
                if *outcome != ConnOutcome::Full {
                    // a session that never reached Established: no sources, nothing negotiated;
                    // session_loop's tail makes no table call and run() calls apply_disconnect
                    let info = DisconnectInfo {
                        role: sess.role,
                        remote_addr: self.addr,
                        export_map: ExportMap::default(),
                        negotiated_gr: None,
                        negotiated_llgr: None,
                    };
                    drop(sess);
                    if replica().fail_noop {
                        let c = self.ctx.lock().unwrap();
                        let _ = c
                            .conn_arbiter
                            .lock()
                            .unwrap()
                            .process(info.role, crate::fsm::Input::Disconnected);
                    } else {
                        apply_disconnect(&self.ctx, self.addr, &self.tables, info).await;
                    }
                    return Ok(Some(Ev::ReconnectFail {
                        after_open: *outcome == ConnOutcome::DieAfterOpen,
                    }));
                }
                // what apply_outputs does for Output::SessionNegotiated / SessionEstablished
                let remote_caps = spec_caps(spec, self.addpath);
                sess.codec = bgp::PeerCodec::negotiate(&sess.local_cap, &remote_caps);
                sess.negotiated_gr = sess.negotiate_gr(&remote_caps);
                sess.negotiated_llgr = sess.negotiate_llgr(&remote_caps);
                let effects = vec![GlobalEffect::GrSessionEstablished {
                    negotiated_gr: sess.negotiated_gr.clone(),
                }];
                // on_established: one Source per session family, register_peer
                let fams: Vec<Family> = sess.codec.families_iter().collect();
                let mut fset = 0;
                for f in &fams {
                    if let Some(i) = fidx(*f) {
                        fset |= 1 << i;
                    }
                    sess.source.insert(
                        *f,
                        Arc::new(table::Source::new(
                            self.addr,
                            IpAddr::V4(Ipv4Addr::new(192, 0, 2, 1)),
                            REMOTE_ASN,
                            LOCAL_ASN,
                            Ipv4Addr::new(10, 0, 0, 1),
                            PeerRole::Ebgp,
                        )),
                    );
                }
                // on_established: the families with Add-Path receive negotiated
                let mut addpath = FnvHashSet::default();
                let mut addpath_rx: FSet = 0;
                for f in &fams {
                    if sess.codec.family_state(*f).is_some_and(|st| st.addpath_rx) {
                        addpath.insert(*f);
                        if let Some(i) = fidx(*f) {
                            addpath_rx |= 1 << i;
                        }
                    }
                }
                let rx = self.tables.register_peer(self.addr, addpath, |_| {});
                sess.peer_event_rx = Some(UnboundedReceiverStream::new(rx));
                sess.process_effects(effects, &self.global).await;
                self.epochs += 1;
                self.live = Some(L1Live {
                    sess,
                    fams: fset,
                    addpath_rx,
                    epoch: self.epochs,
                    seq: 0,
                });
                Ok(Some(Ev::Established { spec: *spec }))
            }
            Op::Announce { .. } | Op::Withdraw { .. } => unreachable!("normalized"),
            Op::AnnouncePath {
                fam,
                pfx,
                pid,
                rank,
                kind,
            } => {
                let ts = self.ts;
                let Some(l) = self.live.as_mut() else {
                    return Ok(None);
                };
                if !has(l.fams, *fam) || (*pid != 0 && !has(l.addpath_rx, *fam)) {
                    return Ok(None);
                }
                l.seq += 1;
                let tag = l.epoch * 1000 + l.seq;
                // rx_update
                let source = l.sess.source[&FAMS[*fam]].clone();
                self.tables.insert_route(
                    source,
                    FAMS[*fam],
                    packet::PathNlri {
                        path_id: *pid,
                        nlri: nlri(*fam, *pfx),
                    },
                    Some(nexthop(*fam)),
                    mk_attrs_rank(tag, *kind, *rank),
                    None,
                    ts,
                );
                Ok(Some(Ev::Announced {
                    fam: *fam,
                    pfx: *pfx,
                    pid: *pid,
                    tag,
                    kind: *kind,
                }))
            }
            Op::WithdrawPath { fam, pfx, pid } => {
                let ts = self.ts;
                let Some(l) = self.live.as_mut() else {
                    return Ok(None);
                };
                if !has(l.fams, *fam) || (*pid != 0 && !has(l.addpath_rx, *fam)) {
                    return Ok(None);
                }
                let source = l.sess.source[&FAMS[*fam]].clone();
                self.tables.remove_route(
                    source,
                    FAMS[*fam],
                    packet::PathNlri {
                        path_id: *pid,
                        nlri: nlri(*fam, *pfx),
                    },
                    None,
                    ts,
                );
                Ok(Some(Ev::Withdrawn {
                    fam: *fam,
                    pfx: *pfx,
                    pid: *pid,
                }))
            }
            Op::Eor { fam } => {
                let Some(l) = self.live.as_mut() else {
                    return Ok(None);
                };
                if !has(l.fams, *fam) {
                    return Ok(None);
                }
                // rx_msg, End-of-RIB arm
                let family = FAMS[*fam];
                if let Some(source) = l.sess.source.get(&family) {
                    self.tables.notify_eor(source.clone(), family);
                }
                if l.sess.negotiated_gr.is_some() {
                    l.sess
                        .process_effects(vec![GlobalEffect::GrEorReceived { family }], &self.global)
                        .await;
                }
                Ok(Some(Ev::Eor { fam: *fam }))
            }
            Op::Drop { how } => {
                if self.live.is_none() || *how == DropHow::MaxPrefix {
                    return Ok(None);
                }
                if matches!(
                    how,
                    DropHow::ApiShutdown | DropHow::ApiReset | DropHow::ApiSilent
                ) {
                    // the API call: fires pending timers and signals the session task
                    self.ctx
                        .lock()
                        .unwrap()
                        .force_down(CloseReason::AdminShutdown, false);
                }
                let L1Live { mut sess, .. } = self.live.take().unwrap();
                let shutdown_reason = Some(reason_of(*how));
                // ---- tail of session_loop, same calls in the same order
                let mode = replica();
                let raw_gr = sess.negotiated_gr.take();
                let raw_llgr = sess.negotiated_llgr.take();
                let elig_gr = raw_gr
                    .clone()
                    .and_then(|gr| gr_on_disconnect(&shutdown_reason, gr));
                let llgr_eligible = elig_gr.is_some()
                    || matches!(
                        shutdown_reason,
                        None | Some(crate::fsm::SessionDownReason::IoError)
                    );
                if !sess.source.is_empty() {
                    let (keep_gr, keep_llgr) = if mode.elig_first {
                        (
                            elig_gr.as_ref(),
                            if llgr_eligible {
                                raw_llgr.as_ref()
                            } else {
                                None
                            },
                        )
                    } else {
                        (raw_gr.as_ref(), raw_llgr.as_ref())
                    };
                    let drop_families =
                        families_to_drop_on_disconnect(sess.source.keys(), keep_gr, keep_llgr);
                    let mut stale_families: Vec<Family> =
                        keep_gr.map(|g| g.families.clone()).unwrap_or_default();
                    if mode.llgr_stale
                        && let Some(l) = keep_llgr
                    {
                        for (f, _) in &l.families {
                            if !stale_families.contains(f) {
                                stale_families.push(*f);
                            }
                        }
                    }
                    let any_source = sess.source.values().next().unwrap().clone();
                    let bmp_reason = crate::bmp::session_down_to_bmp(shutdown_reason.clone());
                    sess.peer_event_rx = None;
                    self.tables
                        .unregister_peer(self.addr, &drop_families, &stale_families);
                    self.tables.peer_down(PeerDownData {
                        peer_addr: any_source.remote_addr,
                        peer_asn: any_source.remote_asn,
                        peer_id: any_source.router_id,
                        uptime: 0,
                        reason: bmp_reason,
                    });
                }
                let info = DisconnectInfo {
                    role: sess.role,
                    remote_addr: self.addr,
                    export_map: std::mem::take(&mut sess.export_map),
                    negotiated_gr: elig_gr,
                    negotiated_llgr: if llgr_eligible { raw_llgr } else { None },
                };
                drop(sess);
                // ---- PeerSession::run
                apply_disconnect(&self.ctx, self.addr, &self.tables, info).await;
                Ok(Some(Ev::Dropped { how: *how }))
            }
            Op::FireRestart => fire_restart(&self.ctx),
            Op::FireLlgr { fam } => fire_llgr(&self.ctx, *fam),
            Op::ForceDownIdle => {
                if self.live.is_some() {
                    return Ok(None);
                }
                self.ctx
                    .lock()
                    .unwrap()
                    .force_down(CloseReason::AdminShutdown, false);
                Ok(Some(Ev::ForcedDownIdle))
            }
            Op::LateRestart | Op::LateLlgr { .. } => {
                late_expiry(op, &self.ctx, &self.tables, self.addr).await
            }
            Op::ExpireRestart => expire_restart(&self.ctx),
            Op::ExpireLlgr { fam } => expire_llgr(&self.ctx, *fam),
        }
    }
}

/// Exactly what the spawned timer tasks call when they decide to run.
async fn late_expiry(
    op: &Op,
    ctx: &Arc<std::sync::Mutex<PeerContext>>,
    tables: &TableHandle,
    addr: IpAddr,
) -> StepResult {
    match op {
        Op::LateRestart => {
            gr_restart_timer_expired(Arc::clone(ctx), tables.clone(), addr).await;
            Ok(Some(Ev::LateRestart))
        }
        Op::LateLlgr { fam } => {
            llgr_timer_expired(Arc::clone(ctx), tables.clone(), addr, FAMS[*fam]).await;
            Ok(Some(Ev::LateLlgr { fam: *fam }))
        }
        _ => Ok(None),
    }
}

fn fire_restart(ctx: &Arc<std::sync::Mutex<PeerContext>>) -> StepResult {
    let mut c = ctx.lock().unwrap();
    if !c.gr_restart_timer.as_ref().is_some_and(|t| !t.is_closed()) {
        return Ok(None);
    }
    c.fire_gr_timer();
    Ok(Some(Ev::RestartFired))
}

/// a sender whose receiver is gone: what a slot holds after its timer elapsed by itself
fn dead_sender() -> tokio::sync::oneshot::Sender<()> {
    let (tx, rx) = tokio::sync::oneshot::channel::<()>();
    drop(rx);
    tx
}

/// Natural expiry of the restart timer.  The timer task is woken through its own
/// channel (the advertised 4095 s cannot be waited for); what distinguishes a
/// natural expiry from `fire_gr_timer` is reproduced: the slot keeps a sender
/// whose receiver is gone while the handler runs and afterwards.
fn expire_restart(ctx: &Arc<std::sync::Mutex<PeerContext>>) -> StepResult {
    let mut c = ctx.lock().unwrap();
    if !c.gr_restart_timer.as_ref().is_some_and(|t| !t.is_closed()) {
        return Ok(None);
    }
    if let Some(tx) = c.gr_restart_timer.take() {
        let _ = tx.send(());
    }
    c.gr_restart_timer = Some(dead_sender());
    Ok(Some(Ev::RestartFired))
}

fn expire_llgr(ctx: &Arc<std::sync::Mutex<PeerContext>>, fam: usize) -> StepResult {
    let mut c = ctx.lock().unwrap();
    if !c
        .llgr_family_timers
        .get(&FAMS[fam])
        .is_some_and(|t| !t.is_closed())
    {
        return Ok(None);
    }
    if let Some(tx) = c.llgr_family_timers.insert(FAMS[fam], dead_sender()) {
        let _ = tx.send(());
    }
    Ok(Some(Ev::LlgrFired { fam }))
}

fn fire_llgr(ctx: &Arc<std::sync::Mutex<PeerContext>>, fam: usize) -> StepResult {
    let mut c = ctx.lock().unwrap();
    if !c
        .llgr_family_timers
        .get(&FAMS[fam])
        .is_some_and(|t| !t.is_closed())
    {
        return Ok(None);
    }
    // fire exactly one family, the way fire_llgr_timers does for all of them
    if let Some(tx) = c.llgr_family_timers.remove(&FAMS[fam]) {
        let _ = tx.send(());
    }
    Ok(Some(Ev::LlgrFired { fam }))
}

// ------------------------------------------------------------------ L2 executor (real sessions over loopback TCP)

struct L2Live {
    client: TcpStream,
    codec: bgp::PeerCodec,
    rxbuf: BytesMut,
    join: tokio::task::JoinHandle<()>,
    eors: [u32; 2],
    keepalives: u32,
    opens: u32,
    fams: FSet,
    epoch: u32,
    seq: u32,
    /// last NOTIFICATION read from the daemon (code, subcode)
    notif: Option<(u8, u8)>,
    /// family carrying the barrier's sentinel prefix (None: v6 if negotiated, else v4)
    barrier_fam: Option<usize>,
}

/// C15 e2e: per-family prefix limit, Add-Path receive and an import policy for the peer
#[derive(Clone, Debug)]
struct LimitCfg {
    fam: usize,
    max: u32,
    addpath: bool,
    /// import policy rejecting the prefixes with index >= FILTERED_FROM
    policy: bool,
}

struct L2World<'a> {
    cfg: LocalCfg,
    global: GlobalHandle,
    tables: TableHandle,
    ctx: Arc<std::sync::Mutex<PeerContext>>,
    addr: IpAddr,
    listener: &'a TcpListener,
    active_tx: mpsc::UnboundedSender<TcpStream>,
    _active_rx: mpsc::UnboundedReceiver<TcpStream>,
    live: Option<L2Live>,
    epochs: u32,
    rng: Rng,
}

const IO_WAIT: std::time::Duration = std::time::Duration::from_secs(15);

impl L2Live {
    async fn send(&mut self, msg: &bgp::Message) -> Result<(), HErr> {
        let mut b = BytesMut::with_capacity(4096);
        self.codec
            .encode_to(msg, &mut b)
            .map_err(|e| HErr::Harness(format!("encode: {:?}", e)))?;
        self.client
            .write_all(&b)
            .await
            .map_err(|e| HErr::Io(format!("write: {}", e)))
    }

    fn fold(&mut self, m: bgp::ParsedMessage) {
        match m {
            bgp::ParsedMessage::Open(_) => self.opens += 1,
            bgp::ParsedMessage::Keepalive => self.keepalives += 1,
            bgp::ParsedMessage::Notification(n) => {
                self.notif = Some((n.notification_code(), n.notification_subcode()))
            }
            bgp::ParsedMessage::Update(bgp::ParsedUpdate::EndOfRib(f)) => {
                if let Some(i) = fidx(f) {
                    self.eors[i] += 1;
                }
            }
            _ => {}
        }
    }

    /// read from the socket until `done(self)`; EOF / reset is an error
    async fn read_until<F: Fn(&L2Live) -> bool>(
        &mut self,
        done: F,
        what: &str,
    ) -> Result<(), HErr> {
        let deadline = std::time::Instant::now() + IO_WAIT;
        loop {
            loop {
                match self.codec.try_parse(&mut self.rxbuf) {
                    Ok(Some(m)) => self.fold(m),
                    Ok(None) => break,
                    Err(n) => {
                        return Err(HErr::Harness(format!(
                            "frame from the daemon rejected by the peer-side codec: {:?}",
                            n
                        )));
                    }
                }
            }
            if done(self) {
                return Ok(());
            }
            if std::time::Instant::now() > deadline {
                return Err(HErr::Watchdog(format!("waiting for {}", what)));
            }
            match tokio::time::timeout(IO_WAIT, self.client.readable()).await {
                Ok(Ok(())) => {}
                Ok(Err(e)) => return Err(HErr::Io(format!("{}: {}", what, e))),
                Err(_) => return Err(HErr::Watchdog(format!("waiting for {}", what))),
            }
            match self.client.try_read_buf(&mut self.rxbuf) {
                Ok(0) => return Err(HErr::Io(format!("EOF while waiting for {}", what))),
                Ok(_) => {}
                Err(ref e) if e.kind() == std::io::ErrorKind::WouldBlock => {}
                Err(e) => return Err(HErr::Io(format!("{}: {}", what, e))),
            }
        }
    }

    /// Everything sent before this call has been processed by the session task
    /// when it returns.  The session task handles messages strictly in order
    /// (rx_msg is awaited per message), so a sentinel prefix announced after
    /// them is in the RIB only once they are done; it is then withdrawn again.
    /// (ROUTE-REFRESH cannot serve as the barrier: with an empty Loc-RIB the
    /// answering End-of-RIB is not flushed before the next KEEPALIVE.)
    /// The sentinel (prefix index 200) is excluded from every observation.
    async fn barrier(&mut self, tables: &TableHandle, addr: IpAddr) -> Result<(), HErr> {
        let fi = self
            .barrier_fam
            .unwrap_or(if has(self.fams, 1) { 1 } else { 0 });
        let entries = vec![packet::PathNlri::new(nlri(fi, SENTINEL))];
        let reach = bgp::Message::Update(bgp::Update::Reach {
            family: FAMS[fi],
            entries: entries.clone(),
            nexthop: Some(nexthop(fi)),
            attr: mk_attrs(self.epoch * 1000 + 999, AttrKind::Plain),
        });
        self.send(&reach).await?;
        poll_sentinel(tables, addr, fi, true).await?;
        self.send(&bgp::Message::Update(bgp::Update::Unreach {
            family: FAMS[fi],
            entries,
        }))
        .await?;
        poll_sentinel(tables, addr, fi, false).await?;
        // keep the receive side drained
        loop {
            match self.client.try_read_buf(&mut self.rxbuf) {
                Ok(0) => return Err(HErr::Io("EOF at a barrier".into())),
                Ok(_) => {}
                Err(_) => break,
            }
        }
        loop {
            match self.codec.try_parse(&mut self.rxbuf) {
                Ok(Some(m)) => self.fold(m),
                _ => break,
            }
        }
        Ok(())
    }
}

const SENTINEL: u8 = 200;

/// set once a session was seen to survive a limit-exceeding UPDATE: max-prefix drops are skipped afterwards
static MAXPREFIX_UNSIGNALLED: std::sync::atomic::AtomicBool =
    std::sync::atomic::AtomicBool::new(false);

/// After messages that must end the session: true if the session task is still
/// there and installs a sentinel prefix sent after them (it keeps processing
/// UPDATEs) or has not finished within IO_WAIT, false once the session task has finished.
async fn session_survives(l: &mut L2Live, tables: &TableHandle, addr: IpAddr) -> bool {
    let fi = l.barrier_fam.unwrap_or(if has(l.fams, 1) { 1 } else { 0 });
    let reach = bgp::Message::Update(bgp::Update::Reach {
        family: FAMS[fi],
        entries: vec![packet::PathNlri::new(nlri(fi, SENTINEL))],
        nexthop: Some(nexthop(fi)),
        attr: mk_attrs(l.epoch * 1000 + 999, AttrKind::Plain),
    });
    let _ = l.send(&reach).await;
    let deadline = std::time::Instant::now() + IO_WAIT;
    let mut i = 0u32;
    loop {
        if l.join.is_finished() {
            return false;
        }
        if sentinel_present(tables, addr, fi) {
            return true;
        }
        if std::time::Instant::now() > deadline {
            // not torn down within the watchdog either (e.g. the sentinel's own family is the limited one)
            return true;
        }
        if i < 200 {
            tokio::task::yield_now().await;
        } else {
            tokio::time::sleep(std::time::Duration::from_millis(1)).await;
        }
        i += 1;
    }
}

fn sentinel_present(tables: &TableHandle, addr: IpAddr, fi: usize) -> bool {
    tables
        .collect_paths(
            table::TableQuery::AdjIn(addr),
            FAMS[fi],
            vec![table::PrefixFilter {
                prefix: nlri(fi, SENTINEL),
                lookup_type: table::LookupType::Exact,
            }],
            true,
        )
        .iter()
        .any(|d| !d.paths.is_empty())
}

async fn poll_sentinel(
    tables: &TableHandle,
    addr: IpAddr,
    fi: usize,
    want: bool,
) -> Result<(), HErr> {
    let deadline = std::time::Instant::now() + IO_WAIT;
    let mut i = 0u32;
    loop {
        if sentinel_present(tables, addr, fi) == want {
            return Ok(());
        }
        if std::time::Instant::now() > deadline {
            return Err(HErr::Watchdog(format!(
                "barrier: sentinel prefix did not become {}",
                if want { "present" } else { "absent" }
            )));
        }
        if i < 200 {
            tokio::task::yield_now().await;
        } else {
            tokio::time::sleep(std::time::Duration::from_millis(1)).await;
        }
        i += 1;
    }
}

async fn join_session(join: tokio::task::JoinHandle<()>) -> Result<(), HErr> {
    match tokio::time::timeout(IO_WAIT, join).await {
        Ok(Ok(())) => Ok(()),
        Ok(Err(e)) => {
            if e.is_panic() {
                std::panic::resume_unwind(e.into_panic());
            }
            Err(HErr::Harness(format!("session task: {}", e)))
        }
        Err(_) => Err(HErr::Watchdog(
            "session task did not finish after the disconnect".into(),
        )),
    }
}

impl<'a> L2World<'a> {
    async fn new(
        cfg: &LocalCfg,
        listener: &'a TcpListener,
        seed: u64,
    ) -> Result<L2World<'a>, HErr> {
        Self::new_limit(cfg, listener, seed, None).await
    }

    async fn new_limit(
        cfg: &LocalCfg,
        listener: &'a TcpListener,
        seed: u64,
        limit: Option<&LimitCfg>,
    ) -> Result<L2World<'a>, HErr> {
        let global = make_global();
        let tables: TableHandle = Arc::new(TableManager::new(cfg.shards));
        let addr = peer_v4();
        let (gr, llgr) = local_gr_cfg(cfg);
        let mut prefix_limits = FnvHashMap::default();
        if cfg.prefix_limit {
            prefix_limits.insert(Family::IPV4, PREFIX_LIMIT);
        }
        let mut families = local_families_ap(cfg.addpath);
        if let Some(lc) = limit {
            prefix_limits.clear();
            prefix_limits.insert(FAMS[lc.fam], lc.max);
            if lc.addpath {
                // RFC 7911 mode 1 = we receive multiple paths
                families.insert(FAMS[lc.fam], 1u8);
            }
            if lc.policy {
                tables
                    .import_policy
                    .store(Some(limit_import_policy(lc.fam)));
            }
        }
        let params = PeerParams {
            remote_addr: addr,
            remote_port: Global::BGP_PORT,
            expected_remote_asn: REMOTE_ASN,
            local_asn: 0,
            passive: true,
            rs_client: false,
            route_reflector: RouteReflectorConfig::default(),
            delete_on_disconnected: false,
            admin_down: false,
            state: SessionState::Idle,
            holdtime: 90,
            connect_retry_time: PeerParams::DEFAULT_CONNECT_RETRY_TIME,
            multihop_ttl: None,
            ttl_security: None,
            password: None,
            families,
            send_max: FnvHashMap::default(),
            prefix_limits,
            graceful_restart: gr,
            llgr,
            bfd_config: None,
            neighbor_interface: None,
            bind_interface: None,
            export_policy: None,
        };
        let ctx = {
            let mut g = global.write().await;
            g.add_peer(params, None)
                .map_err(|_| HErr::Harness("add_peer failed".into()))?;
            g.peers.get(&addr).unwrap().context.clone()
        };
        let (active_tx, active_rx) = mpsc::unbounded_channel();
        Ok(L2World {
            cfg: cfg.clone(),
            global,
            tables,
            ctx,
            addr,
            listener,
            active_tx,
            _active_rx: active_rx,
            live: None,
            epochs: 0,
            rng: Rng::new(seed),
        })
    }

    fn base(&self) -> usize {
        // this struct + Peer.context in Global + the session task
        2 + self.live.is_some() as usize
    }

    fn observe(&self) -> Obs {
        observe(&self.tables, &self.ctx, self.addr)
    }

    async fn quiet(&self) -> Result<(), HErr> {
        wait_quiet(&self.ctx, self.base()).await
    }

    async fn cleanup(&mut self) {
        if let Some(l) = self.live.take() {
            drop(l.client);
            let _ = tokio::time::timeout(IO_WAIT, l.join).await;
        }
        {
            let mut c = self.ctx.lock().unwrap();
            c.cancel_gr_timer();
            c.cancel_llgr_timers();
            c.cancel_rtc_timer();
        }
        let _ = wait_quiet(&self.ctx, 2).await;
    }

    async fn connect(&mut self, spec: &CapSpec) -> Result<L2Live, HErr> {
        self.connect_caps(spec_caps(spec, self.cfg.addpath), spec.mp & 0b11, true)
            .await
    }

    async fn connect_caps(
        &mut self,
        my_caps: Vec<packet::Capability>,
        fams: FSet,
        server_rst: bool,
    ) -> Result<L2Live, HErr> {
        let la = self
            .listener
            .local_addr()
            .map_err(|e| HErr::Io(e.to_string()))?;
        let client = crate::verif_hooks::connect_retry(la)
            .await
            .map_err(|e| HErr::Io(format!("connect: {}", e)))?;
        let (server, _) = self
            .listener
            .accept()
            .await
            .map_err(|e| HErr::Io(format!("accept: {}", e)))?;
        // close with RST: no TIME_WAIT sockets pile up over thousands of sessions
        #[allow(deprecated)]
        let _ = client.set_linger(Some(std::time::Duration::ZERO));
        if server_rst {
            #[allow(deprecated)]
            let _ = server.set_linger(Some(std::time::Duration::ZERO));
        }
        let _ = client.set_nodelay(true);
        let sess = accept_connection(
            &self.global,
            &self.tables,
            server,
            crate::fsm::Role::Passive,
        )
        .await
        .ok_or_else(|| HErr::Harness("accept_connection refused the connection".into()))?;
        let local_cap = sess.local_cap.clone();
        // Global::serve: tokio::spawn(h.run(global.clone(), active_tx.clone()))
        let join = tokio::spawn(sess.run(self.global.clone(), self.active_tx.clone()));
        Ok(L2Live {
            client,
            codec: bgp::PeerCodec::negotiate(&my_caps, &local_cap),
            rxbuf: BytesMut::with_capacity(1 << 16),
            join,
            eors: [0, 0],
            keepalives: 0,
            opens: 0,
            fams,
            epoch: 0,
            seq: 0,
            notif: None,
            barrier_fam: None,
        })
    }

    fn open_msg(spec: &CapSpec, addpath: bool) -> bgp::Message {
        bgp::Message::Open(bgp::Open {
            as_number: REMOTE_ASN,
            holdtime: HoldTime::new(90).unwrap(),
            router_id: u32::from(Ipv4Addr::new(10, 0, 0, 1)),
            capability: spec_caps(spec, addpath),
        })
    }

    async fn apply(&mut self, op: &Op) -> StepResult {
        let op = &op.normalized();
        match op {
            Op::Connect { spec, outcome } => {
                if self.live.is_some() || spec.mp == 0 {
                    return Ok(None);
                }
                let mut l = self.connect(spec).await?;
                match outcome {
                    ConnOutcome::DieBeforeOpen => {
                        if self.rng.bool() {
                            l.read_until(|l| l.opens > 0, "the daemon's OPEN").await?;
                        }
                        if self.rng.bool() {
                            let _ = l.client.shutdown().await;
                        }
                        let L2Live { client, join, .. } = l;
                        drop(client);
                        join_session(join).await?;
                        Ok(Some(Ev::ReconnectFail { after_open: false }))
                    }
                    ConnOutcome::DieAfterOpen => {
                        l.send(&Self::open_msg(spec, self.cfg.addpath)).await?;
                        // the daemon answers our OPEN with KEEPALIVE: it is in OpenConfirm now
                        l.read_until(
                            |l| l.opens > 0 && l.keepalives > 0,
                            "OPEN + KEEPALIVE from the daemon",
                        )
                        .await?;
                        if self.rng.bool() {
                            let _ = l.client.shutdown().await;
                        }
                        let L2Live { client, join, .. } = l;
                        drop(client);
                        join_session(join).await?;
                        Ok(Some(Ev::ReconnectFail { after_open: true }))
                    }
                    ConnOutcome::Full => {
                        l.send(&Self::open_msg(spec, self.cfg.addpath)).await?;
                        l.send(&bgp::Message::Keepalive).await?;
                        // initial End-of-RIB per session family, then a barrier so that
                        // process_effects(GrSessionEstablished) has run as well
                        let fams = l.fams;
                        l.read_until(
                            move |l| (0..2).all(|i| !has(fams, i) || l.eors[i] > 0),
                            "initial End-of-RIB markers",
                        )
                        .await?;
                        l.barrier(&self.tables, self.addr).await?;
                        self.epochs += 1;
                        l.epoch = self.epochs;
                        self.live = Some(l);
                        Ok(Some(Ev::Established { spec: *spec }))
                    }
                }
            }
            Op::Announce { .. } | Op::Withdraw { .. } => unreachable!("normalized"),
            Op::AnnouncePath {
                fam,
                pfx,
                pid,
                rank,
                kind,
            } => {
                let addpath = self.cfg.addpath;
                let Some(l) = self.live.as_mut() else {
                    return Ok(None);
                };
                if !has(l.fams, *fam) || (*pid != 0 && !addpath) {
                    return Ok(None);
                }
                l.seq += 1;
                let tag = l.epoch * 1000 + l.seq;
                let msg = bgp::Message::Update(bgp::Update::Reach {
                    family: FAMS[*fam],
                    entries: vec![packet::PathNlri {
                        path_id: *pid,
                        nlri: nlri(*fam, *pfx),
                    }],
                    nexthop: Some(nexthop(*fam)),
                    attr: mk_attrs_rank(tag, *kind, *rank),
                });
                l.send(&msg).await?;
                l.barrier(&self.tables, self.addr).await?;
                Ok(Some(Ev::Announced {
                    fam: *fam,
                    pfx: *pfx,
                    pid: *pid,
                    tag,
                    kind: *kind,
                }))
            }
            Op::WithdrawPath { fam, pfx, pid } => {
                let addpath = self.cfg.addpath;
                let Some(l) = self.live.as_mut() else {
                    return Ok(None);
                };
                if !has(l.fams, *fam) || (*pid != 0 && !addpath) {
                    return Ok(None);
                }
                let msg = bgp::Message::Update(bgp::Update::Unreach {
                    family: FAMS[*fam],
                    entries: vec![packet::PathNlri {
                        path_id: *pid,
                        nlri: nlri(*fam, *pfx),
                    }],
                });
                l.send(&msg).await?;
                l.barrier(&self.tables, self.addr).await?;
                Ok(Some(Ev::Withdrawn {
                    fam: *fam,
                    pfx: *pfx,
                    pid: *pid,
                }))
            }
            Op::Eor { fam } => {
                let Some(l) = self.live.as_mut() else {
                    return Ok(None);
                };
                if !has(l.fams, *fam) {
                    return Ok(None);
                }
                l.send(&bgp::Message::eor(FAMS[*fam])).await?;
                l.barrier(&self.tables, self.addr).await?;
                Ok(Some(Ev::Eor { fam: *fam }))
            }
            Op::Drop { how } => {
                if self.live.is_none() {
                    return Ok(None);
                }
                if *how == DropHow::HoldTimer {
                    return Ok(None);
                }
                if *how == DropHow::MaxPrefix
                    && (!(self.cfg.prefix_limit && has(self.live.as_ref().unwrap().fams, 0))
                        || MAXPREFIX_UNSIGNALLED.load(std::sync::atomic::Ordering::Relaxed))
                {
                    return Ok(None);
                }
                let mut l = self.live.take().unwrap();
                match how {
                    DropHow::TcpRst => {}
                    DropHow::TcpFin => {
                        let _ = l.client.shutdown().await;
                    }
                    DropHow::Notif(c, s) => {
                        let n = packet::Notification::from_notification(*c, *s, vec![]);
                        l.send(&bgp::Message::Notification(n)).await?;
                        if self.rng.bool() {
                            let _ = l.client.shutdown().await;
                        } else {
                            // let the daemon close first
                            let _ = l.read_until(|_| false, "close").await;
                        }
                    }
                    DropHow::Garbage => {
                        // well-formed header, unknown message type 9
                        let mut b = vec![0xffu8; 16];
                        b.extend_from_slice(&[0, 19, 9]);
                        l.client
                            .write_all(&b)
                            .await
                            .map_err(|e| HErr::Io(e.to_string()))?;
                        let _ = l.read_until(|_| false, "close").await;
                    }
                    DropHow::MaxPrefix => {
                        for k in 0..(PREFIX_LIMIT as u8 + 3) {
                            l.seq += 1;
                            let tag = l.epoch * 1000 + l.seq;
                            let msg = bgp::Message::Update(bgp::Update::Reach {
                                family: FAMS[0],
                                entries: vec![packet::PathNlri::new(nlri(0, 100 + k))],
                                nexthop: Some(nexthop(0)),
                                attr: mk_attrs(tag, AttrKind::Plain),
                            });
                            if l.send(&msg).await.is_err() {
                                break;
                            }
                        }
                        // The daemon must tear the session down (C15's subject).  If it keeps
                        // processing UPDATEs instead, do not wait for a teardown that never comes.
                        if session_survives(&mut l, &self.tables, self.addr).await {
                            MAXPREFIX_UNSIGNALLED.store(true, std::sync::atomic::Ordering::Relaxed);
                            self.live = Some(l);
                            return Err(HErr::Harness(
                                "the session survived UPDATEs exceeding its prefix limit (judged by C15 limit-e2e); max-prefix drops are skipped from here on".into(),
                            ));
                        }
                    }
                    DropHow::ApiShutdown | DropHow::ApiReset | DropHow::ApiSilent => {
                        let reason = match how {
                            DropHow::ApiShutdown => CloseReason::AdminShutdown,
                            DropHow::ApiReset => {
                                CloseReason::SendMessage(bgp::Message::Notification(
                                    packet::Notification::CeasePeerDeconfigured,
                                ))
                            }
                            _ => CloseReason::Silent,
                        };
                        // what GrpcService::shutdown_peer / reset_peer and the BFD arm of Global::serve do
                        let g = self.global.read().await;
                        let peer = g
                            .peers
                            .get(&self.addr)
                            .ok_or_else(|| HErr::Harness("peer vanished".into()))?;
                        peer.context.lock().unwrap().force_down(reason, false);
                    }
                    DropHow::HoldTimer => unreachable!(),
                }
                let L2Live { client, join, .. } = l;
                let r = if matches!(how, DropHow::TcpRst | DropHow::TcpFin) {
                    drop(client);
                    join_session(join).await
                } else {
                    let r = join_session(join).await;
                    drop(client);
                    r
                };
                r?;
                Ok(Some(Ev::Dropped { how: *how }))
            }
            Op::FireRestart => fire_restart(&self.ctx),
            Op::FireLlgr { fam } => fire_llgr(&self.ctx, *fam),
            Op::ForceDownIdle => {
                if self.live.is_some() {
                    return Ok(None);
                }
                let g = self.global.read().await;
                let peer = g
                    .peers
                    .get(&self.addr)
                    .ok_or_else(|| HErr::Harness("peer vanished".into()))?;
                peer.context
                    .lock()
                    .unwrap()
                    .force_down(CloseReason::AdminShutdown, false);
                Ok(Some(Ev::ForcedDownIdle))
            }
            Op::LateRestart | Op::LateLlgr { .. } => {
                late_expiry(op, &self.ctx, &self.tables, self.addr).await
            }
            Op::ExpireRestart => expire_restart(&self.ctx),
            Op::ExpireLlgr { fam } => expire_llgr(&self.ctx, *fam),
        }
    }
}

// ------------------------------------------------------------------ running one history

enum World<'a> {
    L1(L1World),
    L2(L2World<'a>),
}

impl<'a> World<'a> {
    async fn apply(&mut self, op: &Op) -> StepResult {
        match self {
            World::L1(w) => w.apply(op).await,
            World::L2(w) => w.apply(op).await,
        }
    }
    fn observe(&self) -> Obs {
        match self {
            World::L1(w) => w.observe(),
            World::L2(w) => w.observe(),
        }
    }
    async fn quiet(&self) -> Result<(), HErr> {
        match self {
            World::L1(w) => w.quiet().await,
            World::L2(w) => w.quiet().await,
        }
    }
    async fn cleanup(&mut self) {
        match self {
            World::L1(w) => w.cleanup().await,
            World::L2(w) => w.cleanup().await,
        }
    }
}

struct HistOut {
    findings: Vec<Finding>,
    fail_step: Option<usize>,
    stats: Stats,
    trace: Vec<String>,
    applied: Vec<bool>,
    herr: Option<HErr>,
    judged: u64,
    nontrivial: bool,
}

async fn run_history(
    layer: u8,
    cfg: &LocalCfg,
    ops: &[Op],
    listener: Option<&TcpListener>,
    seed: u64,
    want_trace: bool,
) -> HistOut {
    let mut out = HistOut {
        findings: vec![],
        fail_step: None,
        stats: Stats::default(),
        trace: vec![],
        applied: vec![false; ops.len()],
        herr: None,
        judged: 0,
        nontrivial: false,
    };
    let mut world = if layer == 1 {
        World::L1(L1World::new(cfg))
    } else {
        match L2World::new(cfg, listener.expect("listener"), seed).await {
            Ok(w) => World::L2(w),
            Err(e) => {
                out.herr = Some(e);
                return out;
            }
        }
    };
    let mut model = Model::new(cfg);
    let mut pre = world.observe();
    // timers that were cancelled (not fired) so far: each may still have a handler in flight
    let mut late_restart_credit = 0u32;
    let mut late_llgr_credit = [0u32; 2];
    for (i, op) in ops.iter().enumerate() {
        match op {
            Op::LateRestart => {
                if late_restart_credit == 0 {
                    continue;
                }
                late_restart_credit -= 1;
            }
            Op::LateLlgr { fam } => {
                if late_llgr_credit[*fam] == 0 {
                    continue;
                }
                late_llgr_credit[*fam] -= 1;
            }
            _ => {}
        }
        let ev = match world.apply(op).await {
            Ok(Some(ev)) => ev,
            Ok(None) => continue,
            Err(e) => {
                out.herr = Some(e);
                break;
            }
        };
        out.applied[i] = true;
        if let Err(e) = world.quiet().await {
            out.herr = Some(e);
            break;
        }
        let post = world.observe();
        if let Ev::Announced {
            fam, pfx, pid, tag, ..
        } = &ev
            && !post
                .paths
                .iter()
                .any(|p| p.fam == *fam && p.pfx == *pfx && p.pid == *pid && p.tag == *tag)
        {
            out.herr = Some(HErr::Harness(format!(
                "announced path {}/{} tag {} is not in the Adj-RIB-In",
                FNAME[*fam], pfx, tag
            )));
            break;
        }
        out.stats.add(&format!("op:{}", op.kind()));
        {
            // a slot that was armed and is now empty / replaced without having been fired
            let fires_all = matches!(
                op,
                Op::ForceDownIdle
                    | Op::Drop {
                        how: DropHow::ApiShutdown | DropHow::ApiReset | DropHow::ApiSilent
                    }
            );
            let replaced = matches!(op, Op::Drop { .. });
            if pre.gr_timer
                && !fires_all
                && !matches!(op, Op::FireRestart | Op::ExpireRestart)
                && (!post.gr_timer || replaced)
            {
                late_restart_credit += 1;
            }
            for f in 0..2 {
                let fired =
                    matches!(op, Op::FireLlgr { fam } | Op::ExpireLlgr { fam } if *fam == f);
                if has(pre.llgr_timers, f)
                    && !fires_all
                    && !fired
                    && (!has(post.llgr_timers, f) || replaced)
                {
                    late_llgr_credit[f] += 1;
                }
            }
        }
        let f = model.step(&ev, &pre, &post, &mut out.stats);
        out.judged += 1;
        if want_trace {
            out.trace
                .push(format!("#{} {:?} => {}", i, op, post.render()));
        }
        if !f.is_empty() {
            out.findings = f;
            out.fail_step = Some(i);
            break;
        }
        pre = post;
    }
    out.nontrivial = model.retained_stale && model.judged_after_retention;
    world.cleanup().await;
    out
}

// ------------------------------------------------------------------ generators

fn gen_cfg(rng: &mut Rng, layer: u8) -> LocalCfg {
    LocalCfg {
        gr: *rng.pick(&[0b11, 0b11, 0b11, 0b11, 0b01, 0b01, 0b10, 0]),
        nbit: rng.bool(),
        llgr: *rng.pick(&[0, 0, 0, 0b11, 0b11, 0b01, 0b10]),
        shards: *rng.pick(&[1usize, 2, 4]),
        prefix_limit: layer == 2 && rng.chance(1, 6),
        addpath: rng.chance(1, 3),
    }
}

fn subset_nonempty(rng: &mut Rng, of: FSet) -> FSet {
    let c: Vec<FSet> = [0b01u8, 0b10, 0b11]
        .iter()
        .copied()
        .filter(|s| s & of == *s)
        .collect();
    if c.is_empty() { 0 } else { *rng.pick(&c) }
}

fn gen_spec(rng: &mut Rng, prev: Option<&CapSpec>) -> CapSpec {
    if let Some(p) = prev
        && rng.chance(2, 5)
    {
        return *p;
    }
    let mp = *rng.pick(&[0b11u8, 0b11, 0b11, 0b01, 0b10]);
    let gr = if rng.chance(5, 6) {
        let f = if rng.chance(2, 3) {
            mp
        } else {
            subset_nonempty(rng, mp)
        };
        Some((f, rng.bool(), rng.below(4) as u8 & f))
    } else {
        None
    };
    let llgr = if rng.chance(1, 2) {
        if rng.chance(1, 2) {
            mp
        } else {
            subset_nonempty(rng, mp)
        }
    } else {
        0
    };
    CapSpec { mp, gr, llgr }
}

fn gen_drop(rng: &mut Rng, layer: u8) -> DropHow {
    let k = rng.below(100);
    match k {
        0..=17 => DropHow::TcpRst,
        18..=26 => DropHow::TcpFin,
        27..=36 => DropHow::Notif(6, 9),
        37..=43 => DropHow::Notif(6, 2),
        44..=49 => DropHow::Notif(6, 4),
        50..=52 => DropHow::Notif(6, 6),
        53..=58 => DropHow::Notif(3, 1),
        59..=61 => DropHow::Notif(5, 0),
        62..=63 => DropHow::Notif(1, 2),
        64..=67 => DropHow::Notif(4, 0),
        68..=74 => DropHow::Garbage,
        75..=79 => {
            if layer == 2 {
                DropHow::MaxPrefix
            } else {
                DropHow::HoldTimer
            }
        }
        80..=86 => DropHow::ApiShutdown,
        87..=92 => DropHow::ApiReset,
        93..=96 => DropHow::ApiSilent,
        _ => {
            if layer == 1 {
                DropHow::HoldTimer
            } else {
                DropHow::TcpRst
            }
        }
    }
}

fn gen_kind(rng: &mut Rng) -> AttrKind {
    match rng.below(10) {
        0..=5 => AttrKind::Plain,
        6..=7 => AttrKind::NoLlgr,
        _ => AttrKind::LlgrStaleComm,
    }
}

/// Directed skeleton: a full GR -> LLGR -> reconnect -> End-of-RIB cycle with
/// re-announcements (some carrying LLGR_STALE / NO_LLGR), random extras in between.
fn gen_llgr_cycle(rng: &mut Rng, layer: u8) -> (LocalCfg, Vec<Op>) {
    let cfg = LocalCfg {
        gr: 0b11,
        nbit: rng.bool(),
        llgr: *rng.pick(&[0b11u8, 0b11, 0b10, 0b01]),
        shards: *rng.pick(&[1usize, 2, 4]),
        prefix_limit: false,
        addpath: false,
    };
    let spec = CapSpec {
        mp: 0b11,
        gr: Some((0b11, rng.bool(), 0b11)),
        llgr: *rng.pick(&[0b11u8, 0b11, 0b10, 0b01]),
    };
    let mut ops = vec![Op::Connect {
        spec,
        outcome: ConnOutcome::Full,
    }];
    for f in 0..2 {
        for p in 0..2u8 {
            ops.push(Op::Announce {
                fam: f,
                pfx: p,
                kind: gen_kind(rng),
            });
        }
        ops.push(Op::Eor { fam: f });
    }
    ops.push(Op::Drop {
        how: if rng.chance(3, 4) {
            DropHow::TcpRst
        } else {
            DropHow::TcpFin
        },
    });
    if rng.chance(1, 4) {
        ops.push(Op::Connect {
            spec,
            outcome: if rng.bool() {
                ConnOutcome::DieBeforeOpen
            } else {
                ConnOutcome::DieAfterOpen
            },
        });
    }
    if rng.chance(4, 5) {
        ops.push(Op::FireRestart);
    }
    if rng.chance(1, 4) {
        ops.push(Op::FireLlgr { fam: rng.usize(2) });
    }
    if rng.chance(1, 5) {
        ops.push(Op::Connect {
            spec,
            outcome: ConnOutcome::DieAfterOpen,
        });
    }
    let spec2 = if rng.chance(2, 3) {
        spec
    } else {
        gen_spec(rng, None)
    };
    ops.push(Op::Connect {
        spec: spec2,
        outcome: ConnOutcome::Full,
    });
    for _ in 0..rng.range(1, 4) {
        ops.push(Op::Announce {
            fam: rng.usize(2),
            pfx: rng.below(3) as u8,
            kind: gen_kind(rng),
        });
    }
    let mut fams = [0usize, 1];
    rng.shuffle(&mut fams);
    for f in fams {
        if rng.chance(4, 5) {
            ops.push(Op::Eor { fam: f });
        }
    }
    if rng.chance(1, 2) {
        ops.push(Op::Drop {
            how: gen_drop(rng, layer),
        });
        ops.push(Op::FireRestart);
    }
    (cfg, ops)
}

/// Directed skeleton for the "timer handler runs late" race: a GR(-LLGR) cycle in
/// which the handlers of the cancelled timers run at random later points (right
/// after the reconnect, between re-announcements, after End-of-RIB, after a
/// second drop, after the next reconnect).
fn gen_late_cycle(rng: &mut Rng, layer: u8) -> (LocalCfg, Vec<Op>) {
    let mut cfg = gen_cfg(rng, layer);
    if cfg.gr == 0 {
        cfg.gr = 0b11;
    }
    cfg.prefix_limit = false;
    let spec = CapSpec {
        mp: 0b11,
        gr: Some((*rng.pick(&[0b11u8, 0b11, 0b01, 0b10]), rng.bool(), 0)),
        llgr: if rng.bool() {
            *rng.pick(&[0b11u8, 0b01, 0b10])
        } else {
            0
        },
    };
    let mut ops = vec![Op::Connect {
        spec,
        outcome: ConnOutcome::Full,
    }];
    for f in 0..2 {
        for p in 0..2u8 {
            ops.push(Op::Announce {
                fam: f,
                pfx: p,
                kind: gen_kind(rng),
            });
        }
        ops.push(Op::Eor { fam: f });
    }
    ops.push(Op::Drop {
        how: DropHow::TcpRst,
    });
    if rng.chance(1, 3) {
        ops.push(Op::FireRestart);
    }
    if rng.chance(1, 5) {
        ops.push(Op::Connect {
            spec,
            outcome: ConnOutcome::DieAfterOpen,
        });
    }
    let spec2 = if rng.chance(3, 4) {
        spec
    } else {
        gen_spec(rng, None)
    };
    ops.push(Op::Connect {
        spec: spec2,
        outcome: ConnOutcome::Full,
    });
    // the new session's traffic, with the late handlers dropped in at random positions
    let mut mid: Vec<Op> = Vec::new();
    for _ in 0..rng.range(0, 3) {
        mid.push(Op::Announce {
            fam: rng.usize(2),
            pfx: rng.below(3) as u8,
            kind: gen_kind(rng),
        });
    }
    let mut fams = [0usize, 1];
    rng.shuffle(&mut fams);
    for f in fams {
        if rng.chance(5, 6) {
            mid.push(Op::Eor { fam: f });
        }
    }
    let mut late = vec![Op::LateRestart];
    for f in 0..2 {
        if rng.chance(2, 3) {
            late.push(Op::LateLlgr { fam: f });
        }
    }
    if rng.chance(1, 4) {
        late.clear();
    }
    for l in late {
        let at = rng.usize(mid.len() + 1);
        mid.insert(at, l);
    }
    ops.extend(mid);
    if rng.chance(1, 2) {
        ops.push(Op::Drop {
            how: gen_drop(rng, layer),
        });
        for l in [
            Op::LateRestart,
            Op::LateLlgr { fam: 0 },
            Op::LateLlgr { fam: 1 },
        ] {
            if rng.chance(1, 2) {
                ops.push(l);
            }
        }
        if rng.chance(1, 2) {
            ops.push(Op::FireRestart);
        }
        if rng.chance(1, 2) {
            ops.push(Op::LateLlgr { fam: rng.usize(2) });
        }
        if rng.chance(1, 2) {
            ops.push(Op::Connect {
                spec: spec2,
                outcome: ConnOutcome::Full,
            });
            ops.push(Op::LateRestart);
            ops.push(Op::Eor { fam: 0 });
            ops.push(Op::Eor { fam: 1 });
        }
    }
    (cfg, ops)
}

/// Directed skeleton: two (sometimes three) complete helper cycles of the same peer.
/// The first cycle ends in one of the ways a cycle can end (LLGR timers elapse, End-of-RIB
/// after a reconnect in the restart period, reconnect during the LLGR period, restart
/// timer elapses without LLGR, non-GR drop of the re-established session, forced down);
/// then the peer comes back, announces again, drops again and the second cycle runs to
/// its own end.  State that outlives a cycle (timer slots / map entries of timers that
/// fired, GrState, negotiated parameters) must not disturb the next one.
fn gen_two_cycles(rng: &mut Rng, layer: u8) -> (LocalCfg, Vec<Op>) {
    let cfg = LocalCfg {
        gr: *rng.pick(&[0b11u8, 0b11, 0b11, 0b01, 0]),
        nbit: rng.bool(),
        llgr: *rng.pick(&[0b11u8, 0b11, 0b01, 0b10, 0]),
        shards: *rng.pick(&[1usize, 2, 4]),
        prefix_limit: false,
        addpath: false,
    };
    let mk_spec = |rng: &mut Rng| CapSpec {
        mp: 0b11,
        gr: if cfg.gr != 0 && rng.chance(9, 10) {
            Some((*rng.pick(&[0b11u8, 0b11, 0b11, 0b01, 0b10]), rng.bool(), 0))
        } else {
            None
        },
        llgr: if rng.chance(3, 4) {
            *rng.pick(&[0b11u8, 0b11, 0b01, 0b10])
        } else {
            0
        },
    };
    let spec = mk_spec(rng);
    let restart = |rng: &mut Rng| {
        if rng.chance(3, 4) {
            Op::ExpireRestart
        } else {
            Op::FireRestart
        }
    };
    let llgr = |rng: &mut Rng, fam: usize| {
        if rng.chance(3, 4) {
            Op::ExpireLlgr { fam }
        } else {
            Op::FireLlgr { fam }
        }
    };
    let session = |rng: &mut Rng, ops: &mut Vec<Op>, spec: CapSpec, eor: bool| {
        ops.push(Op::Connect {
            spec,
            outcome: ConnOutcome::Full,
        });
        for f in 0..2 {
            for p in 0..rng.range(1, 2) as u8 {
                ops.push(Op::Announce {
                    fam: f,
                    pfx: p,
                    kind: gen_kind(rng),
                });
            }
        }
        if eor {
            let mut fams = [0usize, 1];
            rng.shuffle(&mut fams);
            for f in fams {
                ops.push(Op::Eor { fam: f });
            }
        }
    };
    let mut ops = Vec::new();
    session(rng, &mut ops, spec, true);
    let cycles = if rng.chance(1, 4) { 3 } else { 2 };
    let mut cur = spec;
    for c in 0..cycles {
        ops.push(Op::Drop {
            how: if rng.chance(5, 6) {
                DropHow::TcpRst
            } else {
                DropHow::TcpFin
            },
        });
        if rng.chance(1, 6) {
            ops.push(Op::Connect {
                spec: cur,
                outcome: if rng.bool() {
                    ConnOutcome::DieAfterOpen
                } else {
                    ConnOutcome::DieBeforeOpen
                },
            });
        }
        // how this cycle ends; the last one mostly runs the timers to their end
        let kind = if c + 1 == cycles {
            rng.below(4)
        } else {
            rng.below(8)
        };
        match kind {
            0..=2 => {
                // timers run out: restart timer, then every LLGR timer
                ops.push(restart(rng));
                let mut fams = [0usize, 1];
                rng.shuffle(&mut fams);
                for f in fams {
                    ops.push(llgr(rng, f));
                }
            }
            3 | 4 => {
                // reconnect in the LLGR period (or after the purge when there is no LLGR)
                ops.push(restart(rng));
                if rng.bool() {
                    let f = rng.usize(2);
                    ops.push(llgr(rng, f));
                }
            }
            5 => {} // reconnect in the restart period
            6 => {
                // re-established, then a drop that must not enter helper mode
                let eor = rng.bool();
                session(rng, &mut ops, cur, eor);
                ops.push(Op::Drop {
                    how: *rng.pick(&[
                        DropHow::Notif(6, 9),
                        DropHow::ApiShutdown,
                        DropHow::Notif(3, 1),
                    ]),
                });
            }
            _ => ops.push(Op::ForceDownIdle),
        }
        if c + 1 < cycles {
            if rng.chance(1, 4) {
                cur = mk_spec(rng);
            }
            // the peer is back: its routes again, End-of-RIB mostly
            let eor = rng.chance(5, 6);
            session(rng, &mut ops, cur, eor);
        }
    }
    let _ = layer;
    (cfg, ops)
}

/// Directed skeleton: an Add-Path peer with several path ids per prefix goes through a
/// GR (and, in half of the cases, LLGR) cycle and the new session re-announces only some
/// of the ids, ranked before or after their stale siblings; one id may be withdrawn;
/// then End-of-RIB per family, a second drop and the timers.
fn gen_addpath_cycle(rng: &mut Rng, layer: u8) -> (LocalCfg, Vec<Op>) {
    let cfg = LocalCfg {
        gr: *rng.pick(&[0b11u8, 0b11, 0b11, 0b01]),
        nbit: rng.bool(),
        llgr: *rng.pick(&[0u8, 0, 0b11, 0b11, 0b01, 0b10]),
        shards: *rng.pick(&[1usize, 2, 4]),
        prefix_limit: false,
        addpath: true,
    };
    let spec = CapSpec {
        mp: 0b11,
        gr: Some((*rng.pick(&[0b11u8, 0b11, 0b01, 0b10]), rng.bool(), 0)),
        llgr: if cfg.llgr != 0 { *rng.pick(&[0b11u8, 0b11, 0b01, 0b10]) } else { 0 },
    };
    let mut ops = vec![Op::Connect { spec, outcome: ConnOutcome::Full }];
    let mut held: Vec<(usize, u8, u32)> = Vec::new();
    for f in 0..2 {
        for p in 0..rng.range(1, 2) as u8 {
            let n = rng.range(1, 3) as u32;
            for pid in 0..n {
                ops.push(Op::AnnouncePath { fam: f, pfx: p, pid, rank: rng.below(3) as u8, kind: gen_kind(rng) });
                held.push((f, p, pid));
            }
        }
        ops.push(Op::Eor { fam: f });
    }
    ops.push(Op::Drop { how: if rng.chance(5, 6) { DropHow::TcpRst } else { DropHow::TcpFin } });
    match rng.below(6) {
        0 | 1 => ops.push(Op::ExpireRestart), // reconnect from the LLGR period (or after the purge)
        2 => {
            ops.push(Op::ExpireRestart);
            ops.push(Op::ExpireLlgr { fam: rng.usize(2) });
        }
        _ => {}
    }
    let spec2 = if rng.chance(4, 5) { spec } else { gen_spec(rng, None) };
    ops.push(Op::Connect { spec: spec2, outcome: ConnOutcome::Full });
    // the new session re-announces a part of the path ids, in random order and rank
    rng.shuffle(&mut held);
    let keep = rng.usize(held.len() + 1);
    let mut fresh: Vec<(usize, u8, u32)> = Vec::new();
    for (f, p, pid) in held.iter().take(keep) {
        ops.push(Op::AnnouncePath { fam: *f, pfx: *p, pid: *pid, rank: rng.below(3) as u8, kind: gen_kind(rng) });
        fresh.push((*f, *p, *pid));
    }
    if rng.chance(1, 3) {
        // a path id the old session never used
        ops.push(Op::AnnouncePath { fam: rng.usize(2), pfx: 0, pid: 3, rank: rng.below(3) as u8, kind: AttrKind::Plain });
    }
    if rng.chance(1, 3) && !fresh.is_empty() {
        let (f, p, pid) = *rng.pick(&fresh);
        ops.push(Op::WithdrawPath { fam: f, pfx: p, pid });
    }
    if rng.chance(1, 4) && !held.is_empty() {
        // withdraw an id that is only there as a stale path
        let (f, p, pid) = *rng.pick(&held);
        ops.push(Op::WithdrawPath { fam: f, pfx: p, pid });
    }
    let mut fams = [0usize, 1];
    rng.shuffle(&mut fams);
    for f in fams {
        if rng.chance(5, 6) {
            ops.push(Op::Eor { fam: f });
        }
    }
    if rng.chance(1, 2) {
        ops.push(Op::Drop { how: gen_drop(rng, layer) });
        ops.push(Op::ExpireRestart);
        for f in 0..2 {
            if rng.bool() {
                ops.push(Op::ExpireLlgr { fam: f });
            }
        }
    }
    (cfg, ops)
}

fn gen_ops(rng: &mut Rng, layer: u8, len: usize, addpath: bool) -> Vec<Op> {
    let raw = gen_ops_plain(rng, layer, len);
    if !addpath {
        return raw;
    }
    // Add-Path peer: path ids 0..2 and a rank per announcement; withdrawals name a path id
    raw.into_iter()
        .map(|o| match o {
            Op::Announce { fam, pfx, kind } => Op::AnnouncePath {
                fam,
                pfx,
                pid: rng.below(3) as u32,
                rank: rng.below(3) as u8,
                kind,
            },
            Op::Withdraw { fam, pfx } => Op::WithdrawPath {
                fam,
                pfx,
                pid: rng.below(3) as u32,
            },
            o => o,
        })
        .collect()
}

fn gen_ops_plain(rng: &mut Rng, layer: u8, len: usize) -> Vec<Op> {
    let mut ops = Vec::new();
    let first = gen_spec(rng, None);
    let mut last_spec = first;
    ops.push(Op::Connect {
        spec: first,
        outcome: ConnOutcome::Full,
    });
    for f in 0..2 {
        for p in 0..rng.range(1, 3) as u8 {
            ops.push(Op::Announce {
                fam: f,
                pfx: p,
                kind: gen_kind(rng),
            });
        }
    }
    for f in 0..2 {
        if rng.chance(3, 4) {
            ops.push(Op::Eor { fam: f });
        }
    }
    let mut live = true;
    for _ in 0..len {
        let k = rng.below(100);
        let op = if live {
            match k {
                0..=29 => Op::Announce {
                    fam: rng.usize(2),
                    pfx: rng.below(3) as u8,
                    kind: gen_kind(rng),
                },
                30..=34 => Op::Withdraw {
                    fam: rng.usize(2),
                    pfx: rng.below(3) as u8,
                },
                35..=59 => Op::Eor { fam: rng.usize(2) },
                60..=94 => {
                    live = false;
                    Op::Drop {
                        how: gen_drop(rng, layer),
                    }
                }
                95..=97 => Op::LateRestart,
                98 => Op::LateLlgr { fam: rng.usize(2) },
                _ => {
                    if rng.bool() {
                        Op::FireRestart
                    } else {
                        Op::FireLlgr { fam: rng.usize(2) }
                    }
                }
            }
        } else {
            match k {
                0..=39 => {
                    live = true;
                    let s = gen_spec(rng, Some(&last_spec));
                    last_spec = s;
                    Op::Connect {
                        spec: s,
                        outcome: ConnOutcome::Full,
                    }
                }
                40..=51 => Op::Connect {
                    spec: gen_spec(rng, Some(&last_spec)),
                    outcome: ConnOutcome::DieBeforeOpen,
                },
                52..=63 => Op::Connect {
                    spec: gen_spec(rng, Some(&last_spec)),
                    outcome: ConnOutcome::DieAfterOpen,
                },
                64..=76 => {
                    if rng.bool() {
                        Op::ExpireRestart
                    } else {
                        Op::FireRestart
                    }
                }
                77..=88 => {
                    if rng.bool() {
                        Op::ExpireLlgr { fam: rng.usize(2) }
                    } else {
                        Op::FireLlgr { fam: rng.usize(2) }
                    }
                }
                89..=91 => Op::LateRestart,
                92..=93 => Op::LateLlgr { fam: rng.usize(2) },
                _ => Op::ForceDownIdle,
            }
        };
        ops.push(op);
    }
    ops
}

// ---- exhaustive L1 enumeration

fn exh_configs() -> Vec<(&'static str, LocalCfg, CapSpec)> {
    let c = |gr, nbit, llgr| LocalCfg {
        gr,
        nbit,
        llgr,
        shards: 2,
        prefix_limit: false,
        addpath: false,
    };
    vec![
        (
            "gr-all",
            c(0b11, false, 0),
            CapSpec {
                mp: 0b11,
                gr: Some((0b11, false, 0)),
                llgr: 0,
            },
        ),
        (
            "gr-all+llgr-all+nbit",
            c(0b11, true, 0b11),
            CapSpec {
                mp: 0b11,
                gr: Some((0b11, true, 0b11)),
                llgr: 0b11,
            },
        ),
        (
            "gr-v4+llgr-all+nbit",
            c(0b01, true, 0b11),
            CapSpec {
                mp: 0b11,
                gr: Some((0b01, true, 0)),
                llgr: 0b11,
            },
        ),
        (
            "gr-all+llgr-v6",
            c(0b11, false, 0b11),
            CapSpec {
                mp: 0b11,
                gr: Some((0b11, false, 0)),
                llgr: 0b10,
            },
        ),
        (
            "llgr-only-v4",
            c(0, false, 0b01),
            CapSpec {
                mp: 0b11,
                gr: None,
                llgr: 0b01,
            },
        ),
        (
            "gr-v4",
            c(0b01, false, 0),
            CapSpec {
                mp: 0b11,
                gr: Some((0b01, false, 0)),
                llgr: 0,
            },
        ),
        (
            // Add-Path receive: several path ids per prefix, re-announced in part by the next session
            "gr-all+llgr-all+addpath",
            LocalCfg {
                addpath: true,
                ..c(0b11, false, 0b11)
            },
            CapSpec {
                mp: 0b11,
                gr: Some((0b11, false, 0)),
                llgr: 0b11,
            },
        ),
    ]
}

fn exh_prelude(spec: &CapSpec, addpath: bool) -> Vec<Op> {
    let mut v = exh_prelude_plain(spec);
    if addpath {
        // siblings of v4/0 (path id 0 has rank 2): a middle one and a worst one carrying NO_LLGR;
        // a sibling of v6/0 of equal rank
        let at = v.len() - 2;
        let extra = vec![
            Op::AnnouncePath { fam: 0, pfx: 0, pid: 1, rank: 1, kind: AttrKind::Plain },
            Op::AnnouncePath { fam: 0, pfx: 0, pid: 2, rank: 0, kind: AttrKind::NoLlgr },
            Op::AnnouncePath { fam: 1, pfx: 0, pid: 1, rank: 2, kind: AttrKind::Plain },
        ];
        for (k, o) in extra.into_iter().enumerate() {
            v.insert(at + k, o);
        }
    }
    v
}

fn exh_prelude_plain(spec: &CapSpec) -> Vec<Op> {
    vec![
        Op::Connect {
            spec: *spec,
            outcome: ConnOutcome::Full,
        },
        Op::Announce {
            fam: 0,
            pfx: 0,
            kind: AttrKind::Plain,
        },
        Op::Announce {
            fam: 0,
            pfx: 1,
            kind: AttrKind::NoLlgr,
        },
        Op::Announce {
            fam: 1,
            pfx: 0,
            kind: AttrKind::Plain,
        },
        Op::Announce {
            fam: 1,
            pfx: 1,
            kind: AttrKind::LlgrStaleComm,
        },
        Op::Eor { fam: 0 },
        Op::Eor { fam: 1 },
    ]
}

fn exh_alphabet(spec: &CapSpec) -> Vec<(&'static str, Vec<Op>)> {
    let nbit = spec.gr.is_some_and(|g| g.1);
    vec![
        (
            "D-tcp",
            vec![Op::Drop {
                how: DropHow::TcpRst,
            }],
        ),
        (
            "D-hard-reset",
            vec![Op::Drop {
                how: DropHow::Notif(6, 9),
            }],
        ),
        (
            "D-cease",
            vec![Op::Drop {
                how: DropHow::Notif(6, 4),
            }],
        ),
        (
            "D-update-error",
            vec![Op::Drop {
                how: DropHow::Notif(3, 1),
            }],
        ),
        (
            "D-admin",
            vec![Op::Drop {
                how: DropHow::ApiShutdown,
            }],
        ),
        (
            "R-fail",
            vec![Op::Connect {
                spec: *spec,
                outcome: ConnOutcome::DieAfterOpen,
            }],
        ),
        (
            "R-same",
            vec![Op::Connect {
                spec: *spec,
                outcome: ConnOutcome::Full,
            }],
        ),
        (
            "R-gr-v4-only",
            vec![Op::Connect {
                spec: CapSpec {
                    mp: 0b11,
                    gr: Some((0b01, nbit, 0)),
                    llgr: 0,
                },
                outcome: ConnOutcome::Full,
            }],
        ),
        (
            "R-no-gr",
            vec![Op::Connect {
                spec: CapSpec {
                    mp: 0b11,
                    gr: None,
                    llgr: 0,
                },
                outcome: ConnOutcome::Full,
            }],
        ),
        (
            "A",
            vec![
                Op::Announce {
                    fam: 0,
                    pfx: 0,
                    kind: AttrKind::Plain,
                },
                Op::Announce {
                    fam: 1,
                    pfx: 0,
                    kind: AttrKind::LlgrStaleComm,
                },
                Op::Announce {
                    fam: 0,
                    pfx: 2,
                    kind: AttrKind::Plain,
                },
            ],
        ),
        ("E-v4", vec![Op::Eor { fam: 0 }]),
        ("E-v6", vec![Op::Eor { fam: 1 }]),
        // the timers elapse by themselves (forced firing is what the letter F does)
        ("T", vec![Op::ExpireRestart]),
        ("L-v4", vec![Op::ExpireLlgr { fam: 0 }]),
        ("L-v6", vec![Op::ExpireLlgr { fam: 1 }]),
        ("F", vec![Op::ForceDownIdle]),
        ("late-T", vec![Op::LateRestart]),
        ("late-L-v4", vec![Op::LateLlgr { fam: 0 }]),
        ("late-L-v6", vec![Op::LateLlgr { fam: 1 }]),
        // Add-Path sessions only: re-announce low-ranked path ids (the stale siblings rank first)
        (
            "A-low",
            vec![
                Op::AnnouncePath { fam: 0, pfx: 0, pid: 2, rank: 0, kind: AttrKind::Plain },
                Op::AnnouncePath { fam: 1, pfx: 0, pid: 1, rank: 0, kind: AttrKind::Plain },
            ],
        ),
    ]
}

// ------------------------------------------------------------------ driver

struct Ctl<'a> {
    rt: &'a tokio::runtime::Runtime,
    listener: Option<&'a TcpListener>,
    params: &'a Params,
}

fn exec(
    ctl: &Ctl,
    layer: u8,
    cfg: &LocalCfg,
    ops: &[Op],
    seed: u64,
    trace: bool,
) -> Result<HistOut, PanicInfo> {
    guard(|| {
        ctl.rt
            .block_on(run_history(layer, cfg, ops, ctl.listener, seed, trace))
    })
}

fn ops_json(ops: &[Op]) -> Json {
    Json::strs(ops.iter().map(|o| format!("{:?}", o)))
}

/// Evaluate one history, fold what was observed into the report, shrink + report findings.
/// Returns (any op of `tail` applied, violated).
fn evaluate(
    ctl: &Ctl,
    rep: &mut Report,
    layer: u8,
    cfg: &LocalCfg,
    ops: &[Op],
    seed: u64,
    origin: &str,
    tail_from: usize,
) -> (bool, bool) {
    let lname = if layer == 1 { "l1" } else { "l2" };
    let out = match exec(ctl, layer, cfg, ops, seed, false) {
        Ok(o) => o,
        Err(p) => {
            let sig = format!("C10/panic/{}:{}", p.location, panic_class(&p.message));
            rep.violation(
                &sig,
                &format!(
                    "panic in the daemon while running a GR history: {}",
                    p.message
                ),
                Json::obj(vec![
                    ("layer", Json::s(lname)),
                    ("config", Json::s(format!("{:?}", cfg))),
                    ("ops", ops_json(ops)),
                    ("origin", Json::s(origin)),
                ]),
            );
            return (true, true);
        }
    };
    let tail_applied = out.applied[tail_from.min(ops.len())..].iter().any(|a| *a);
    if tail_from > 0 && !tail_applied && out.herr.is_none() && out.findings.is_empty() {
        // enumeration: the last letter was not applicable, the sequence equals a shorter one
        return (false, false);
    }
    rep.count(&format!("{}:histories", lname));
    rep.evals(out.judged);
    for (k, v) in &out.stats.c {
        rep.count_n(k, *v);
        if layer == 2 && k == "addpath:destinations-with-fresh-and-stale-siblings-at-purge" {
            rep.count_n("l2:addpath:mixed-sibling-purges", *v);
        }
    }
    rep.count_n(&format!("{}:steps-judged", lname), out.judged);
    if let Some(e) = &out.herr {
        match e {
            HErr::Panic(l, m) => rep.violation(
                &format!("C10/panic/{}:{}", l, panic_class(m)),
                m,
                ops_json(ops),
            ),
            other => {
                rep.count(&format!("{}:harness-error", lname));
                rep.inconclusive(&format!(
                    "{} harness error: {:?} (config {:?}, origin {})",
                    lname, other, cfg, origin
                ));
            }
        }
        return (tail_applied, false);
    }
    if out.nontrivial {
        rep.count(&format!("{}:nontrivial-histories", lname));
        rep.nontrivial(fnv64(format!("{}{:?}{:?}", layer, cfg, ops).as_bytes()));
    }
    if out.findings.is_empty() {
        if rep.want_sample() && out.nontrivial && layer == 2 {
            if let Ok(t) = exec(ctl, layer, cfg, ops, seed, true) {
                rep.sample(Json::obj(vec![
                    ("layer", Json::s(lname)),
                    ("config", Json::s(format!("{:?}", cfg))),
                    ("steps", Json::strs(t.trace)),
                ]));
            }
        }
        return (tail_applied, false);
    }
    for f in &out.findings {
        rep.count(&format!("alarm:{}", f.clause));
    }
    // one report per signature; shrink the first occurrence
    let fresh: Vec<Finding> = out
        .findings
        .iter()
        .filter(|f| !rep.has_violation(&f.sig()))
        .cloned()
        .collect();
    for f in &out.findings {
        if rep.has_violation(&f.sig()) {
            rep.violation(&f.sig(), "", Json::Null);
        }
    }
    for f in fresh {
        let sig = f.sig();
        if rep.has_violation(&sig) {
            continue;
        }
        let end = out.fail_step.map(|s| s + 1).unwrap_or(ops.len());
        let mut cur: Vec<Op> = ops[..end].to_vec();
        let mut budget: i32 = if layer == 1 { 300 } else { 80 };
        loop {
            let before = cur.len();
            let mut i = 0;
            while i < cur.len() && budget > 0 {
                let mut cand = cur.clone();
                cand.remove(i);
                budget -= 1;
                let keep = match exec(ctl, layer, cfg, &cand, seed, false) {
                    Ok(o) => o.herr.is_none() && o.findings.iter().any(|g| g.sig() == sig),
                    Err(_) => false,
                };
                if keep {
                    cur = cand;
                } else {
                    i += 1;
                }
            }
            if cur.len() == before || budget <= 0 {
                break;
            }
        }
        let (trace, detail) = match exec(ctl, layer, cfg, &cur, seed, true) {
            Ok(o) => {
                let d = o
                    .findings
                    .iter()
                    .find(|g| g.sig() == sig)
                    .map(|g| g.detail.clone())
                    .unwrap_or(f.detail.clone());
                (o.trace, d)
            }
            Err(_) => (vec![], f.detail.clone()),
        };
        rep.violation(
            &sig,
            &detail,
            Json::obj(vec![
                ("layer", Json::s(if layer == 1 { "L1 (apply_disconnect / process_effects / timer tasks on new_for_test sessions)" } else { "L2 (accept_connection + PeerSession::run over loopback TCP)" })),
                ("local_config", Json::s(format!("{:?}", cfg))),
                ("minimal_ops", ops_json(&cur)),
                ("steps_observed", Json::strs(trace)),
                ("clause", Json::s(f.clause)),
                ("observed", Json::s(detail.clone())),
                ("original_len", Json::Int(ops.len() as i128)),
                ("origin", Json::s(origin)),
                ("shard_seed", Json::Int(ctl.params.seed as i128)),
            ]),
        );
    }
    (tail_applied, true)
}

/// Pick the L1 replica variant that behaves like the real session_loop / run (see `Replica`).
fn calibrate(ctl: &Ctl, rep: &mut Report) -> bool {
    let c = |gr, nbit, llgr| LocalCfg {
        gr,
        nbit,
        llgr,
        shards: 1,
        prefix_limit: false,
        addpath: false,
    };
    let s_gr = CapSpec {
        mp: 0b11,
        gr: Some((0b11, false, 0)),
        llgr: 0,
    };
    let s_mix = CapSpec {
        mp: 0b11,
        gr: Some((0b01, true, 0)),
        llgr: 0b11,
    };
    let ann = |v: &mut Vec<Op>| {
        v.push(Op::Announce {
            fam: 0,
            pfx: 0,
            kind: AttrKind::Plain,
        });
        v.push(Op::Announce {
            fam: 1,
            pfx: 0,
            kind: AttrKind::NoLlgr,
        });
    };
    let mut probes: Vec<(LocalCfg, Vec<Op>)> = Vec::new();
    for how in [
        DropHow::Notif(6, 9),
        DropHow::Notif(6, 4),
        DropHow::ApiShutdown,
        DropHow::TcpRst,
        DropHow::Garbage,
    ] {
        for (cfg, spec) in [(c(0b11, false, 0), s_gr), (c(0b01, true, 0b11), s_mix)] {
            let mut v = vec![Op::Connect {
                spec,
                outcome: ConnOutcome::Full,
            }];
            ann(&mut v);
            v.push(Op::Drop { how });
            v.push(Op::Connect {
                spec,
                outcome: ConnOutcome::DieAfterOpen,
            });
            v.push(Op::Connect {
                spec,
                outcome: ConnOutcome::DieBeforeOpen,
            });
            v.push(Op::FireRestart);
            probes.push((cfg, v));
        }
    }
    // failed reconnection attempts while LLGR timers run (LLGR-only peer; GR followed by LLGR)
    for (cfg, spec, fire) in [
        (
            c(0, false, 0b01),
            CapSpec {
                mp: 0b11,
                gr: None,
                llgr: 0b01,
            },
            false,
        ),
        (
            c(0b11, true, 0b11),
            CapSpec {
                mp: 0b11,
                gr: Some((0b11, true, 0)),
                llgr: 0b11,
            },
            true,
        ),
    ] {
        let mut v = vec![Op::Connect {
            spec,
            outcome: ConnOutcome::Full,
        }];
        ann(&mut v);
        v.push(Op::Drop {
            how: DropHow::TcpRst,
        });
        if fire {
            v.push(Op::FireRestart);
        }
        v.push(Op::Connect {
            spec,
            outcome: ConnOutcome::DieAfterOpen,
        });
        v.push(Op::FireLlgr { fam: 0 });
        v.push(Op::Connect {
            spec,
            outcome: ConnOutcome::DieBeforeOpen,
        });
        probes.push((cfg, v));
    }
    let mut real: Vec<Vec<String>> = Vec::new();
    for (cfg, ops) in &probes {
        match exec(ctl, 2, cfg, ops, 7, true) {
            Ok(o) if o.herr.is_none() => real.push(o.trace),
            Ok(o) => {
                rep.inconclusive(&format!("calibration: L2 probe failed: {:?}", o.herr));
                return false;
            }
            Err(p) => {
                rep.inconclusive(&format!("calibration: L2 probe panicked at {}", p.location));
                return false;
            }
        }
    }
    for cand in 0u8..8 {
        REPLICA.store(cand, std::sync::atomic::Ordering::Relaxed);
        let ok = probes.iter().zip(real.iter()).all(|((cfg, ops), want)| {
            match exec(ctl, 1, cfg, ops, 7, true) {
                Ok(o) => o.herr.is_none() && &o.trace == want,
                Err(_) => false,
            }
        });
        if ok {
            rep.count(&format!("calibration:replica-variant-{}", cand));
            rep.extra("l1_replica", Json::s(format!("{:?}", replica())));
            return true;
        }
    }
    REPLICA.store(0, std::sync::atomic::Ordering::Relaxed);
    rep.inconclusive("calibration: no L1 replica variant of the session_loop tail / run glue behaves like the real code (L2); the L1 executor must be updated");
    false
}

fn shard_index(params: &Params) -> usize {
    params
        .shard
        .rsplit('-')
        .next()
        .and_then(|s| s.parse().ok())
        .unwrap_or(0)
}

fn part_l1x(ctl: &Ctl, rep: &mut Report) {
    let depth = ctl
        .params
        .get_u64("depth", if ctl.params.thorough() { 6 } else { 5 }) as usize;
    let nshards = ctl.params.get_u64("nshards", 1).max(1) as usize;
    let me = shard_index(ctl.params) % nshards;
    let mut item = 0usize;
    let mut complete = true;
    // work items = (configuration, first letter, second letter); the prelude leaves a live
    // session, so only drop / announce / End-of-RIB letters apply in first position
    'outer: for (cname, cfg, spec) in exh_configs() {
        let alpha = exh_alphabet(&spec);
        let prelude = exh_prelude(&spec, cfg.addpath);
        let run_seq = |rep: &mut Report, seq: &[usize]| -> (bool, bool) {
            let mut ops = prelude.clone();
            let mut tail_from = 0;
            for (k, li) in seq.iter().enumerate() {
                if k + 1 == seq.len() {
                    tail_from = ops.len();
                }
                ops.extend(alpha[*li].1.iter().cloned());
            }
            let origin = format!(
                "l1x cfg={} letters={}",
                cname,
                seq.iter()
                    .map(|i| alpha[*i].0)
                    .collect::<Vec<_>>()
                    .join(",")
            );
            let r = evaluate(ctl, rep, 1, &cfg, &ops, 0, &origin, tail_from);
            if r.0 {
                rep.count(&format!("l1x:sequences:d{}", seq.len()));
            }
            r
        };
        for first in 0..alpha.len() {
            if !matches!(
                alpha[first].1[0],
                Op::Drop { .. } | Op::Announce { .. } | Op::Eor { .. }
            ) {
                continue;
            }
            // every shard needs the verdict of the one-letter sequence to know whether to extend it
            let (applied, violated) = run_seq(rep, &[first]);
            if !applied || violated || depth < 2 {
                continue;
            }
            for second in 0..alpha.len() {
                item += 1;
                if (item - 1) % nshards != me {
                    continue;
                }
                let mut stack: Vec<Vec<usize>> = vec![vec![first, second]];
                while let Some(seq) = stack.pop() {
                    if !rep.in_budget() {
                        complete = false;
                        break 'outer;
                    }
                    let (applied, violated) = run_seq(rep, &seq);
                    if applied && !violated && seq.len() < depth {
                        for nx in (0..alpha.len()).rev() {
                            let mut s = seq.clone();
                            s.push(nx);
                            stack.push(s);
                        }
                    }
                }
            }
        }
    }
    if complete {
        rep.count(&format!("l1x:d{}:complete-shards", depth));
        rep.count("l1x:complete-shards");
        rep.exhaustive = Some(true);
    } else {
        rep.count("l1x:budget-cut");
        rep.exhaustive = Some(false);
    }
}

/// Directed exhaustive part: the first helper cycle is fixed (one prefix per way it can
/// end), every sequence of `depth` letters is enumerated for what follows.  Reaches the
/// second LLGR period of GR+LLGR configurations, which plain `l1x` would need depth 8 for.
fn part_l1c(ctl: &Ctl, rep: &mut Report) {
    let depth = ctl
        .params
        .get_u64("depth", if ctl.params.thorough() { 4 } else { 3 }) as usize;
    let nshards = ctl.params.get_u64("nshards", 1).max(1) as usize;
    let me = shard_index(ctl.params) % nshards;
    let first_cycles: [(&str, &[&str]); 7] = [
        (
            "timers-run-out",
            &["D-tcp", "T", "L-v4", "L-v6", "R-same", "A", "E-v4", "E-v6"],
        ),
        (
            "one-llgr-timer-runs-out",
            &["D-tcp", "T", "L-v4", "R-same", "A", "E-v4", "E-v6"],
        ),
        ("eor", &["D-tcp", "R-same", "A", "E-v4", "E-v6"]),
        (
            "reconnect-after-restart-expiry",
            &["D-tcp", "T", "R-same", "A", "E-v4", "E-v6"],
        ),
        ("reconnect-no-eor", &["D-tcp", "T", "R-same", "A"]),
        (
            "non-gr-drop",
            &["D-tcp", "R-same", "D-hard-reset", "R-same", "A"],
        ),
        ("forced-down", &["D-tcp", "F", "R-same", "A"]),
    ];
    let mut item = 0usize;
    let mut complete = true;
    'outer: for (cname, cfg, spec) in exh_configs() {
        let alpha = exh_alphabet(&spec);
        let idx = |name: &str| alpha.iter().position(|(n, _)| *n == name).expect("letter");
        for (kname, letters) in first_cycles.iter() {
            let mut prefix = exh_prelude(&spec, cfg.addpath);
            for l in letters.iter() {
                prefix.extend(alpha[idx(l)].1.iter().cloned());
            }
            for first in 0..alpha.len() {
                item += 1;
                if (item - 1) % nshards != me {
                    continue;
                }
                let mut stack: Vec<Vec<usize>> = vec![vec![first]];
                while let Some(seq) = stack.pop() {
                    if !rep.in_budget() {
                        complete = false;
                        break 'outer;
                    }
                    let mut ops = prefix.clone();
                    let mut tail_from = ops.len();
                    for (k, li) in seq.iter().enumerate() {
                        if k + 1 == seq.len() {
                            tail_from = ops.len();
                        }
                        ops.extend(alpha[*li].1.iter().cloned());
                    }
                    let origin = format!(
                        "l1c cfg={} first-cycle={} then letters={}",
                        cname,
                        kname,
                        seq.iter()
                            .map(|i| alpha[*i].0)
                            .collect::<Vec<_>>()
                            .join(",")
                    );
                    let (applied, violated) =
                        evaluate(ctl, rep, 1, &cfg, &ops, 0, &origin, tail_from);
                    if !applied {
                        continue;
                    }
                    rep.count(&format!("l1c:sequences:d{}", seq.len()));
                    if !violated && seq.len() < depth {
                        for nx in (0..alpha.len()).rev() {
                            let mut s2 = seq.clone();
                            s2.push(nx);
                            stack.push(s2);
                        }
                    }
                }
            }
        }
    }
    if complete {
        rep.count("l1c:complete-shards");
    } else {
        rep.count("l1c:budget-cut");
    }
}

fn part_random(ctl: &Ctl, rep: &mut Report, layer: u8) {
    let lname = if layer == 1 { "l1r" } else { "l2" };
    let count = ctl.params.get_u64(
        "count",
        if layer == 1 {
            ctl.params.n(1500, 40000)
        } else {
            ctl.params.n(80, 1200)
        },
    );
    let only = ctl.params.get("only").and_then(|s| s.parse::<u64>().ok());
    let mut rng = Rng::new(ctl.params.seed ^ (0xC10 + layer as u64));
    for idx in 0..count {
        if !rep.in_budget() {
            rep.count(&format!("{}:budget-cut", lname));
            break;
        }
        let profile = rng.below(10);
        let (cfg, ops) = if profile < 2 {
            rep.count(&format!("{}:profile:llgr-cycle", lname));
            gen_llgr_cycle(&mut rng, layer)
        } else if profile < 4 {
            rep.count(&format!("{}:profile:late-cycle", lname));
            gen_late_cycle(&mut rng, layer)
        } else if profile < 6 {
            rep.count(&format!("{}:profile:two-cycles", lname));
            gen_two_cycles(&mut rng, layer)
        } else if profile < 8 {
            rep.count(&format!("{}:profile:addpath-cycle", lname));
            gen_addpath_cycle(&mut rng, layer)
        } else {
            rep.count(&format!("{}:profile:free", lname));
            let cfg = gen_cfg(&mut rng, layer);
            let len = rng.range(3, if layer == 1 { 24 } else { 14 }) as usize;
            let ops = gen_ops(&mut rng, layer, len, cfg.addpath);
            (cfg, ops)
        };
        let seed = rng.next_u64();
        if only.is_some_and(|o| o != idx) {
            continue;
        }
        let origin = format!(
            "{} history {} (VERIF_PART={} VERIF_ONLY={})",
            lname, idx, lname, idx
        );
        evaluate(ctl, rep, layer, &cfg, &ops, seed, &origin, 0);
    }
}

#[test]
fn run() {
    let params = Params::from_args_env();
    let mut rep = Report::new("C10", &params);
    let rt = tokio::runtime::Builder::new_current_thread()
        .enable_all()
        .build()
        .expect("runtime");
    let part = params.get("part").unwrap_or("all").to_string();
    let listener = match rt.block_on(crate::verif_hooks::bind_retry(
        "127.0.0.1:0".parse().unwrap(),
    )) {
        Ok(l) => Some(l),
        Err(e) => {
            rep.inconclusive(&format!("cannot bind a loopback listener: {}", e));
            let _ = rep.finish();
            return;
        }
    };
    {
        let ctl = Ctl {
            rt: &rt,
            listener: listener.as_ref(),
            params: &params,
        };
        let l1_ok = if part != "l2" {
            calibrate(&ctl, &mut rep)
        } else {
            false
        };
        if l1_ok && (part == "l1x" || part == "all") {
            part_l1x(&ctl, &mut rep);
        }
        if l1_ok && (part == "l1c" || part == "all") {
            part_l1c(&ctl, &mut rep);
        }
        if l1_ok && (part == "l1r" || part == "all") {
            part_random(&ctl, &mut rep, 1);
        }
        if part == "l2" || part == "all" {
            part_random(&ctl, &mut rep, 2);
        }
    }
    let _ = rep.finish();
}

// ====================================================================================
// C15, end-to-end half: "a peer's distinct accepted prefixes never exceed its configured
// maximum without the limit being signalled".  The table-level half (counter == recount,
// PrefixLimitExceeded returned) is judged by the E1 monitor c15; what the session does
// with that return value is only visible here: real accept_connection + PeerSession::run
// with PeerParams.prefix_limits, the harness being the remote speaker.
//
// Counting follows the statement and c15.rs: *distinct prefixes*; a replacement, an extra
// Add-Path path of a held prefix and a filtered <-> unfiltered flip do not add a prefix.
// The daemon's per-session counter also counts prefixes whose paths the import policy
// filtered; the statement only speaks of accepted ones, so:
//   announced distinct prefixes <= N            -> the session must stay up      (early)
//   accepted  distinct prefixes would be  > N   -> Cease/1 + close is required   (not-signalled)
//   in between (filtered prefixes fill the gap) -> both outcomes accepted
//   at every quiescent point: accepted distinct prefixes in the RIB <= N         (exceeded)
// ====================================================================================

/// prefixes with an index in this range are rejected by the import policy (LimitCfg.policy)
const FILTERED_LO: u8 = 64;
const FILTERED_HI: u8 = 127;

fn limit_import_policy(fam: usize) -> Arc<table::PolicyAssignment> {
    let mut pt = table::PolicyTable::new();
    let pfx = if fam == 0 {
        table::PrefixConfig {
            ip_prefix: "10.64.0.0/10".into(),
            mask_length_min: 16,
            mask_length_max: 16,
        }
    } else {
        table::PrefixConfig {
            ip_prefix: "2001:db8:40::/42".into(),
            mask_length_min: 48,
            mask_length_max: 48,
        }
    };
    pt.add_defined_set(table::DefinedSetConfig::Prefix {
        name: "ps".into(),
        prefixes: vec![pfx],
    })
    .unwrap();
    pt.add_statement(
        "rej",
        vec![table::ConditionConfig::PrefixSet(
            "ps".into(),
            table::MatchOption::Any,
        )],
        Some(table::Disposition::Reject),
        table::Actions::default(),
    )
    .unwrap();
    pt.add_policy("p", vec!["rej".into()]).unwrap();
    pt.build_assignment(
        None,
        "i",
        table::PolicyDirection::Import,
        table::Disposition::Accept,
        vec!["p".into()],
    )
    .unwrap()
}

#[derive(Clone, Debug, PartialEq)]
enum LOp {
    Announce {
        pfx: u8,
        pid: u32,
        med: u32,
    },
    Withdraw {
        pfx: u8,
        pid: u32,
    },
    /// new connection after the previous session was torn down
    Reconnect,
}

fn limit_filtered(cfg: &LimitCfg, pfx: u8) -> bool {
    cfg.policy && (FILTERED_LO..=FILTERED_HI).contains(&pfx)
}

/// script generated by simulating the remote end's own view (what it holds announced)
fn gen_limit_script(rng: &mut Rng, cfg: &LimitCfg) -> Vec<LOp> {
    let n = cfg.max as usize;
    let mut ops = Vec::new();
    let mut med = 0u32;
    let rounds = if rng.chance(1, 2) { 2 } else { 1 };
    for round in 0..rounds {
        if round > 0 {
            ops.push(LOp::Reconnect);
        }
        let mut held: BTreeMap<u8, BTreeSet<u32>> = BTreeMap::new();
        let mut next_plain: u8 = rng.below(8) as u8;
        let mut next_filt: u8 = FILTERED_LO + rng.below(8) as u8;
        let accepted = |h: &BTreeMap<u8, BTreeSet<u32>>| {
            h.keys().filter(|p| !limit_filtered(cfg, **p)).count()
        };
        for _ in 0..rng.range(3, 22) {
            let k = rng.below(100);
            med += 1;
            let any = !held.is_empty();
            if k < 35 && held.len() < n {
                held.entry(next_plain).or_default().insert(0);
                ops.push(LOp::Announce {
                    pfx: next_plain,
                    pid: 0,
                    med,
                });
                next_plain += 1;
            } else if k < 47
                && cfg.policy
                && (held.len() < n || rng.chance(1, 4))
                && next_filt < FILTERED_HI
            {
                // a prefix the import policy rejects; beyond N announced prefixes the outcome is open
                held.entry(next_filt).or_default().insert(0);
                ops.push(LOp::Announce {
                    pfx: next_filt,
                    pid: 0,
                    med,
                });
                next_filt += 1;
            } else if k < 65 && any {
                let pfx = *rng.pick(&held.keys().copied().collect::<Vec<_>>());
                let pid = *rng.pick(&held[&pfx].iter().copied().collect::<Vec<_>>());
                ops.push(LOp::Announce { pfx, pid, med });
            } else if k < 80 && any && cfg.addpath {
                let pfx = *rng.pick(&held.keys().copied().collect::<Vec<_>>());
                let pid = held[&pfx].iter().max().copied().unwrap_or(0) + 1;
                if pid < 4 {
                    held.get_mut(&pfx).unwrap().insert(pid);
                    ops.push(LOp::Announce { pfx, pid, med });
                }
            } else if any {
                let pfx = *rng.pick(&held.keys().copied().collect::<Vec<_>>());
                let pid = *rng.pick(&held[&pfx].iter().copied().collect::<Vec<_>>());
                let e = held.get_mut(&pfx).unwrap();
                e.remove(&pid);
                if e.is_empty() {
                    held.remove(&pfx);
                }
                ops.push(LOp::Withdraw { pfx, pid });
            }
        }
        // fill up to N accepted prefixes, then the (N+1)th
        while accepted(&held) < n + 1 && next_plain < FILTERED_LO - 1 {
            med += 1;
            held.entry(next_plain).or_default().insert(0);
            ops.push(LOp::Announce {
                pfx: next_plain,
                pid: 0,
                med,
            });
            next_plain += 1;
        }
        if rng.chance(1, 3) {
            // one more, in case the session is (wrongly) still there
            med += 1;
            ops.push(LOp::Announce {
                pfx: next_plain,
                pid: 0,
                med,
            });
        }
    }
    ops
}

#[derive(Clone, Copy, PartialEq, Debug)]
enum Probe {
    Alive,
    Dead,
    Watchdog,
}

/// Did the session survive what was just sent?  Alive = a sentinel prefix of the *other*
/// family, sent afterwards, was installed and withdrawn again (the session task handles
/// messages in order, so everything before it has been processed).  Dead = the session
/// task finished.  `grace`: first give the session a moment to tear down before the
/// sentinel is sent (used when a teardown is expected or possible).
async fn limit_probe(l: &mut L2Live, tables: &TableHandle, addr: IpAddr, grace: bool) -> Probe {
    if grace {
        let until = std::time::Instant::now() + std::time::Duration::from_millis(400);
        while std::time::Instant::now() < until {
            if l.join.is_finished() {
                return Probe::Dead;
            }
            tokio::time::sleep(std::time::Duration::from_millis(1)).await;
        }
    }
    let fi = l.barrier_fam.unwrap_or(1);
    let entries = vec![packet::PathNlri::new(nlri(fi, SENTINEL))];
    let reach = bgp::Message::Update(bgp::Update::Reach {
        family: FAMS[fi],
        entries: entries.clone(),
        nexthop: Some(nexthop(fi)),
        attr: mk_attrs(999, AttrKind::Plain),
    });
    let unreach = bgp::Message::Update(bgp::Update::Unreach {
        family: FAMS[fi],
        entries,
    });
    let _ = l.send(&reach).await;
    let deadline = std::time::Instant::now() + IO_WAIT;
    let mut want = true;
    let mut i = 0u32;
    loop {
        if l.join.is_finished() {
            return Probe::Dead;
        }
        if sentinel_present(tables, addr, fi) == want {
            if !want {
                return Probe::Alive;
            }
            want = false;
            let _ = l.send(&unreach).await;
            continue;
        }
        if std::time::Instant::now() > deadline {
            return Probe::Watchdog;
        }
        if i < 200 {
            tokio::task::yield_now().await;
        } else {
            tokio::time::sleep(std::time::Duration::from_millis(1)).await;
        }
        i += 1;
    }
}

/// paths of the peer in the limited family: (prefix, path id, filtered)
fn limit_rib(tables: &TableHandle, addr: IpAddr, fam: usize) -> Vec<(u8, u32, bool)> {
    let mut v = Vec::new();
    for d in tables.collect_paths(table::TableQuery::AdjIn(addr), FAMS[fam], vec![], true) {
        let pfx = match &d.net {
            packet::Nlri::V4(n) => n.addr.octets()[1],
            packet::Nlri::V6(n) => n.addr.segments()[2] as u8,
            _ => 255,
        };
        for p in d.paths {
            v.push((pfx, p.remote_path_id, p.filtered));
        }
    }
    v.sort();
    v
}

struct LimitOut {
    finding: Option<(String, String)>,
    trace: Vec<String>,
    stats: Stats,
    herr: Option<HErr>,
    judged: u64,
    nontrivial: bool,
}

async fn limit_connect(w: &mut L2World<'_>, cfg: &LimitCfg) -> Result<L2Live, HErr> {
    let mut caps = vec![
        packet::Capability::MultiProtocol(Family::IPV4),
        packet::Capability::MultiProtocol(Family::IPV6),
        packet::Capability::FourOctetAsNumber(REMOTE_ASN),
    ];
    if cfg.addpath {
        // RFC 7911 mode 2 = we send multiple paths
        caps.push(packet::Capability::AddPath(vec![(FAMS[cfg.fam], 2)]));
    }
    // the daemon closes first in this workload: a normal close, so that its NOTIFICATION is not lost to a reset
    let mut l = w.connect_caps(caps.clone(), 0b11, false).await?;
    l.barrier_fam = Some(1 - cfg.fam);
    l.send(&bgp::Message::Open(bgp::Open {
        as_number: REMOTE_ASN,
        holdtime: HoldTime::new(90).unwrap(),
        router_id: u32::from(Ipv4Addr::new(10, 0, 0, 1)),
        capability: caps,
    }))
    .await?;
    l.send(&bgp::Message::Keepalive).await?;
    l.read_until(
        |l| l.eors[0] > 0 && l.eors[1] > 0,
        "initial End-of-RIB markers",
    )
    .await?;
    Ok(l)
}

async fn run_limit_history(
    cfg: &LimitCfg,
    shards: usize,
    script: &[LOp],
    listener: &TcpListener,
    want_trace: bool,
) -> LimitOut {
    let mut out = LimitOut {
        finding: None,
        trace: vec![],
        stats: Stats::default(),
        herr: None,
        judged: 0,
        nontrivial: false,
    };
    let base = LocalCfg {
        gr: 0,
        nbit: false,
        llgr: 0,
        shards,
        prefix_limit: false,
        addpath: false,
    };
    let mut w = match L2World::new_limit(&base, listener, 1, Some(cfg)).await {
        Ok(w) => w,
        Err(e) => {
            out.herr = Some(e);
            return out;
        }
    };
    let n = cfg.max as usize;
    let mut live: Option<L2Live> = match limit_connect(&mut w, cfg).await {
        Ok(l) => Some(l),
        Err(e) => {
            out.herr = Some(e);
            return out;
        }
    };
    match limit_probe(live.as_mut().unwrap(), &w.tables, w.addr, false).await {
        Probe::Alive => {}
        p => {
            out.herr = Some(HErr::Harness(format!("fresh session: {:?}", p)));
            w.live = live;
            w.cleanup().await;
            return out;
        }
    }
    // what the remote end holds announced on the live session
    let mut held: BTreeMap<u8, BTreeSet<u32>> = BTreeMap::new();
    let mut reached_max = false;
    let mut freed_slot = false;
    for (i, op) in script.iter().enumerate() {
        if let LOp::Reconnect = op {
            if live.is_some() {
                continue;
            }
            match limit_connect(&mut w, cfg).await {
                Ok(l) => live = Some(l),
                Err(e) => {
                    out.herr = Some(e);
                    break;
                }
            }
            held.clear();
            out.stats.add("limit:reconnect");
            let rib = limit_rib(&w.tables, w.addr, cfg.fam);
            if !rib.is_empty() {
                out.stats.add("unjudged:routes-left-after-limit-teardown");
            }
            if want_trace {
                out.trace.push(format!("#{} Reconnect => rib={:?}", i, rib));
            }
            continue;
        }
        let Some(l) = live.as_mut() else { continue };
        let before_announced = held.len();
        let before_accepted = held.keys().filter(|p| !limit_filtered(cfg, **p)).count();
        let msg = match op {
            LOp::Announce { pfx, pid, med } => {
                let kind = if !held.contains_key(pfx) {
                    if limit_filtered(cfg, *pfx) {
                        "new-filtered-prefix"
                    } else {
                        "new-prefix"
                    }
                } else if held[pfx].contains(pid) {
                    "replacement"
                } else {
                    "extra-addpath-path"
                };
                out.stats.add(&format!("limit:op:{}", kind));
                if kind == "new-prefix" && freed_slot && before_accepted + 1 == n {
                    out.stats.add("limit:op:announce-into-freed-slot");
                }
                held.entry(*pfx).or_default().insert(*pid);
                bgp::Message::Update(bgp::Update::Reach {
                    family: FAMS[cfg.fam],
                    entries: vec![packet::PathNlri {
                        path_id: *pid,
                        nlri: nlri(cfg.fam, *pfx),
                    }],
                    nexthop: Some(nexthop(cfg.fam)),
                    attr: mk_attrs(*med, AttrKind::Plain),
                })
            }
            LOp::Withdraw { pfx, pid } => {
                if !held.get(pfx).is_some_and(|s| s.contains(pid)) {
                    continue;
                }
                let e = held.get_mut(pfx).unwrap();
                e.remove(pid);
                if e.is_empty() {
                    held.remove(pfx);
                    out.stats.add("limit:op:withdraw-last-path");
                    if before_accepted == n {
                        freed_slot = true;
                    }
                } else {
                    out.stats.add("limit:op:withdraw-one-of-several");
                }
                bgp::Message::Update(bgp::Update::Unreach {
                    family: FAMS[cfg.fam],
                    entries: vec![packet::PathNlri {
                        path_id: *pid,
                        nlri: nlri(cfg.fam, *pfx),
                    }],
                })
            }
            LOp::Reconnect => unreachable!(),
        };
        let announced = held.len();
        let accepted = held.keys().filter(|p| !limit_filtered(cfg, **p)).count();
        if accepted == n {
            reached_max = true;
        }
        let must_survive = announced <= n;
        let must_die = accepted > n;
        if l.send(&msg).await.is_err() {
            out.herr = Some(HErr::Io(
                "write to a session that should be up failed".into(),
            ));
            break;
        }
        let probe = limit_probe(l, &w.tables, w.addr, !must_survive).await;
        out.judged += 1;
        let rib = limit_rib(&w.tables, w.addr, cfg.fam);
        let rib_accepted: BTreeSet<u8> = rib
            .iter()
            .filter(|(_, _, f)| !*f)
            .map(|(p, _, _)| *p)
            .collect();
        if want_trace {
            out.trace.push(format!(
                "#{} {:?} (announced {} accepted {} of max {}) => {:?}, rib={:?}",
                i, op, announced, accepted, n, probe, rib
            ));
        }
        match probe {
            Probe::Watchdog => {
                out.herr = Some(HErr::Watchdog(
                    "neither a teardown nor a processed sentinel after an UPDATE".into(),
                ));
                break;
            }
            Probe::Dead => {
                let mut l = live.take().unwrap();
                // collect what the daemon sent before it closed
                let _ = l.read_until(|_| false, "close").await;
                let notif = l.notif;
                let L2Live { client, join, .. } = l;
                let _ = join_session(join).await;
                drop(client);
                if want_trace {
                    out.trace
                        .push(format!("   session ended, NOTIFICATION read: {:?}", notif));
                }
                if must_survive {
                    out.finding = Some((
                        "early".into(),
                        format!(
                            "the session was torn down (NOTIFICATION {:?}) although the peer holds only {} distinct prefixes announced, max {}",
                            notif, announced, n
                        ),
                    ));
                    break;
                }
                if must_die {
                    out.stats.add("limit:teardown-at-n-plus-1");
                    if reached_max {
                        out.nontrivial = true;
                    }
                    if notif == Some((6, 1)) {
                        out.stats.add("limit:cease-1-read");
                    } else {
                        out.finding = Some((
                            "closed-without-cease-1".into(),
                            format!(
                                "the session ended at the (N+1)th accepted prefix but the remote end read NOTIFICATION {:?}, not Cease/1",
                                notif
                            ),
                        ));
                        break;
                    }
                } else {
                    out.stats
                        .add("unjudged:teardown-while-filtered-prefixes-fill-the-limit");
                }
                if !limit_rib(&w.tables, w.addr, cfg.fam).is_empty() {
                    out.stats.add("unjudged:routes-left-after-limit-teardown");
                }
            }
            Probe::Alive => {
                if rib_accepted.len() > n {
                    out.finding = Some((
                        "exceeded".into(),
                        format!(
                            "the RIB holds {} distinct accepted prefixes of the peer, max {}, and the session is up",
                            rib_accepted.len(),
                            n
                        ),
                    ));
                    break;
                }
                if must_die {
                    // demonstrably alive: the sentinel sent after the (N+1)th prefix was processed;
                    // does it take a further prefix as well?
                    let further = bgp::Message::Update(bgp::Update::Reach {
                        family: FAMS[cfg.fam],
                        entries: vec![packet::PathNlri::new(nlri(cfg.fam, 59))],
                        nexthop: Some(nexthop(cfg.fam)),
                        attr: mk_attrs(9999, AttrKind::Plain),
                    });
                    let _ = l.send(&further).await;
                    let p2 = limit_probe(l, &w.tables, w.addr, true).await;
                    let kept_up = l.keepalives;
                    out.finding = Some((
                        "not-signalled".into(),
                        format!(
                            "the (N+1)th distinct accepted prefix (N = {}) was processed and the session stayed up without a NOTIFICATION (a later sentinel UPDATE was processed; a further prefix afterwards: {:?}; {} KEEPALIVEs read; RIB holds {} accepted prefixes)",
                            n,
                            p2,
                            kept_up,
                            rib_accepted.len()
                        ),
                    ));
                    break;
                }
                if must_survive {
                    out.stats.add("limit:survive-judged");
                    if accepted == n {
                        out.stats.add("limit:survive-judged-at-max");
                    }
                    // the model of what is installed must agree, else later verdicts mean nothing
                    let want: Vec<(u8, u32, bool)> = held
                        .iter()
                        .flat_map(|(p, s)| s.iter().map(|i| (*p, *i, limit_filtered(cfg, *p))))
                        .collect();
                    if rib != want {
                        out.stats
                            .add("unjudged:rib-differs-from-what-was-announced");
                        out.herr = Some(HErr::Harness(format!(
                            "RIB {:?} differs from what the remote end announced {:?}",
                            rib, want
                        )));
                        break;
                    }
                } else {
                    out.stats
                        .add("unjudged:alive-while-filtered-prefixes-fill-the-limit");
                }
            }
        }
        let _ = before_announced;
    }
    w.live = live;
    w.cleanup().await;
    out
}

#[test]
fn c15_limit_signalled() {
    let params = Params::from_args_env();
    let mut rep = Report::new("C15", &params);
    let rt = tokio::runtime::Builder::new_current_thread()
        .enable_all()
        .build()
        .expect("runtime");
    let listener = match rt.block_on(crate::verif_hooks::bind_retry(
        "127.0.0.1:0".parse().unwrap(),
    )) {
        Ok(l) => l,
        Err(e) => {
            rep.inconclusive(&format!("cannot bind a loopback listener: {}", e));
            let _ = rep.finish();
            return;
        }
    };
    let count = params.get_u64("count", params.n(400, 4000));
    let only = params.get("only").and_then(|s| s.parse::<u64>().ok());
    let mut rng = Rng::new(params.seed ^ 0xC15E);
    for idx in 0..count {
        if !rep.in_budget() {
            rep.count("limit:budget-cut");
            break;
        }
        let cfg = LimitCfg {
            fam: rng.usize(2),
            max: *rng.pick(&[1u32, 2, 3, 5, 10]),
            addpath: rng.chance(1, 2),
            policy: rng.chance(1, 3),
        };
        let shards = *rng.pick(&[1usize, 2, 4]);
        let script = gen_limit_script(&mut rng, &cfg);
        if only.is_some_and(|o| o != idx) {
            continue;
        }
        let exec = |script: &[LOp], trace: bool| {
            guard(|| rt.block_on(run_limit_history(&cfg, shards, script, &listener, trace)))
        };
        let out = match exec(&script, false) {
            Ok(o) => o,
            Err(p) => {
                rep.violation(
                    &format!("C15/panic/{}:{}", p.location, panic_class(&p.message)),
                    &format!(
                        "panic in the daemon while a session with a prefix limit was driven: {}",
                        p.message
                    ),
                    Json::obj(vec![
                        ("config", Json::s(format!("{:?}", cfg))),
                        (
                            "script",
                            Json::strs(script.iter().map(|o| format!("{:?}", o))),
                        ),
                    ]),
                );
                continue;
            }
        };
        rep.count("limit:histories");
        rep.count(&format!("limit:max={}", cfg.max));
        if cfg.addpath {
            rep.count("limit:with-addpath");
        }
        if cfg.policy {
            rep.count("limit:with-import-policy");
        }
        rep.evals(out.judged);
        for (k, v) in &out.stats.c {
            rep.count_n(k, *v);
        }
        if let Some(e) = &out.herr {
            rep.count("limit:harness-error");
            rep.inconclusive(&format!(
                "limit-e2e harness error: {:?} (config {:?}, history {})",
                e, cfg, idx
            ));
            continue;
        }
        if out.nontrivial {
            rep.nontrivial(fnv64(format!("{:?}{:?}", cfg, script).as_bytes()));
        }
        let Some((fact, detail)) = out.finding else {
            if rep.want_sample() && out.nontrivial {
                if let Ok(t) = exec(&script, true) {
                    rep.sample(Json::obj(vec![
                        ("config", Json::s(format!("{:?}", cfg))),
                        ("steps", Json::strs(t.trace)),
                    ]));
                }
            }
            continue;
        };
        let sig = format!("C15/limit-e2e/{}", fact);
        if rep.has_violation(&sig) {
            rep.violation(&sig, "", Json::Null);
            continue;
        }
        // shrink: drop ops while the same fact is reported
        let mut cur = script.clone();
        let mut budget = 40;
        loop {
            let before = cur.len();
            let mut i = 0;
            while i < cur.len() && budget > 0 {
                let mut cand = cur.clone();
                cand.remove(i);
                budget -= 1;
                let keep = matches!(exec(&cand, false), Ok(o) if o.herr.is_none() && o.finding.as_ref().is_some_and(|f| f.0 == fact));
                if keep {
                    cur = cand;
                } else {
                    i += 1;
                }
            }
            if cur.len() == before || budget <= 0 {
                break;
            }
        }
        let (trace, detail) = match exec(&cur, true) {
            Ok(o) => (o.trace, o.finding.map(|f| f.1).unwrap_or(detail)),
            Err(_) => (vec![], detail),
        };
        rep.violation(
            &sig,
            &detail,
            Json::obj(vec![
                ("config", Json::s(format!("{:?} shards={}", cfg, shards))),
                ("minimal_script", Json::strs(cur.iter().map(|o| format!("{:?}", o)))),
                ("steps_observed", Json::strs(trace)),
                ("original_len", Json::Int(script.len() as i128)),
                ("replay", Json::s(format!("VERIF_SEED={} VERIF_ONLY={} <e2 test binary> event::verif::c10::c15_limit_signalled --exact --nocapture", params.seed, idx))),
            ]),
        );
    }
    let _ = rep.finish();
}
