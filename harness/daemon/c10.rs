//! C10 stub (being written)
use super::super::*;
use super::common::*;

#[test]
fn run() {
    let params = Params::from_args_env();
    let rep = Report::new("C10", &params);
    let _ = rep.finish();
}
