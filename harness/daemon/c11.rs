//! C11 — Restarting speaker selects nothing until all helpers sent EOR or the
//! timer fires.
//!
//! Workload: the real `RestartingDeferral` coupled to a real `TableManager`
//! (1–2 shards) through the real `process_restarting_outputs` and
//! `gr_selection_deferral_timer_expired` (and, in "session" mode, through the
//! real `PeerSession::process_effects`), driven by sequences of
//! PeerEstablished(p, family subset) / EorReceived(p,f) / PeerWithdrawn(p) /
//! TimerExpired over 3 peers × 3 families, interleaved with `insert_route`
//! calls into deferred and non-deferred families, with an observer channel
//! registered via `TableManager::register_peer`.  Startup follows `serve`:
//! `RestartingDeferral::new(configured GR peers)`, `start_deferral_families`
//! for `DeferFamilies`, `Global.selection_deferral = Some(..)`.  The timer is
//! fired through `gr_selection_deferral_timer_expired` only while the glue
//! holds a timer handle (logical time, no wall clock).
//!
//! Parts (`VERIF_PART`): `exh` all event sequences of length `depth` (optionally
//! up to peer renaming, `sym=1`), `machine` the same enumeration on the bare
//! state machine (outputs + `is_completed()` judged), `rnd` random
//! configurations and sequences up to 40 events in both drive modes, plus the
//! early-session scenarios.  Histories also contain `Op::Sess`: a new session
//! goes through the real `PeerSession::on_established` at that point and its
//! initial dump is judged (a held family must not be advertised to it); the
//! early-session scenarios keep such a session up across the release and
//! count how often it is sent each held prefix (exactly once).
//! `conc`: concurrent trials — OS threads doing `insert_route` / `remove_route`
//! on a few hot prefixes while another thread ends the deferral through the
//! glue, with `verif_hooks` delay injection (sched points 1, 2 and 8); judged
//! at quiescence only (final view of the observer channel = RIB, untouched held
//! prefixes announced exactly once, no shard left deferring).
//! `VERIF_REPLAY=<file>` re-executes a recorded witness.
//!
//! Oracle: a pending-map model written from the property statement (see
//! `Model`).  Where the statement is silent the model keeps extra statuses
//! (`Maybe`, `AwaitingMaybe`) and neither "must hold" nor "must release" is
//! demanded; such steps are counted as `unjudged:*`.
#![allow(clippy::too_many_arguments, clippy::needless_range_loop)]

use super::super::*;
use crate::gr::{RestartingDeferral, RestartingInput, RestartingOutput};
use crate::verif_common::{Json, Params, Report, Rng, fnv64, guard, panic_class};
use std::collections::BTreeMap;

const NP: usize = 3; // peers that appear in events
const NF: usize = 3; // families that appear in events (IPv4, IPv6, IPv4-VPN)
const NTF: usize = 4; // families in the tables (+ IPv6-VPN, never deferred)
const NSRC: usize = 4; // route sources: the 3 peers + one unrelated peer
const NPFX: usize = 4; // prefixes per family; even index -> shard 0, odd -> shard 1 (2-shard tables)

const FAM_NAME: [&str; NTF] = ["ipv4", "ipv6", "vpnv4", "vpnv6"];

fn fam_of(i: usize) -> Family {
    match i {
        0 => Family::IPV4,
        1 => Family::IPV6,
        2 => Family::IPV4_VPN,
        _ => Family::IPV6_VPN,
    }
}

fn fam_index(f: Family) -> Option<usize> {
    (0..NTF).find(|&i| fam_of(i) == f)
}

// ------------------------------------------------------------------ events

#[derive(Clone, Copy, PartialEq, Eq, Debug, Hash)]
enum Ev {
    /// peer, negotiated GR family mask (0 = peer without graceful restart)
    Est(u8, u8),
    Eor(u8, u8),
    Wd(u8),
    Timer,
}

#[derive(Clone, Copy, PartialEq, Eq, Debug, Hash)]
enum Op {
    Ev(Ev),
    /// family index (0..NTF), prefix index, source index
    Ins(u8, u8, u8),
    /// a new BGP session reaches Established now: the real
    /// `PeerSession::on_established` runs (initial dump), then the session ends
    Sess,
    /// table side of the end of peer p's current session, as session_loop does it:
    /// `unregister_peer(addr, drop_families, stale_families)` + `peer_down`; `hard`
    /// = the disconnect is not GR-eligible (hard reset / NOTIFICATION without
    /// N-bit), so every family is dropped.  The peer's next session uses a new Source.
    TDrop(u8, bool),
}

fn mask_str(m: u8) -> String {
    let v: Vec<&str> = (0..NF)
        .filter(|f| m & (1 << f) != 0)
        .map(|f| FAM_NAME[f])
        .collect();
    format!("{{{}}}", v.join(","))
}

fn op_str(op: &Op) -> String {
    match op {
        Op::Ev(Ev::Est(p, m)) => format!("PeerEstablished(p{}, {})", p + 1, mask_str(*m)),
        Op::Ev(Ev::Eor(p, f)) => format!("EorReceived(p{}, {})", p + 1, FAM_NAME[*f as usize]),
        Op::Ev(Ev::Wd(p)) => format!("PeerWithdrawn(p{})", p + 1),
        Op::Ev(Ev::Timer) => "TimerExpired".to_string(),
        Op::Ins(f, x, s) => format!("insert_route({}, prefix#{}, from src{})", FAM_NAME[*f as usize], x, s + 1),
        Op::TDrop(p, hard) => format!("session of p{} ends on the table side ({})", p + 1, if *hard { "not GR-eligible: all families dropped" } else { "GR families marked stale, the others dropped" }),
        Op::Sess => "new session established (real PeerSession::on_established), then route refresh of every family".to_string(),
    }
}

/// Compact machine-readable form of (configuration, op list) for `--replay`.
fn replay_code(cfg: &Cfg, ops: &[Op]) -> String {
    let mut s = format!(
        "h={}.{}.{};t={};s={};m={};o=",
        cfg.helper[0],
        cfg.helper[1],
        cfg.helper[2],
        cfg.timer as u8,
        cfg.shards,
        if cfg.mode == Mode::Session { "s" } else { "g" }
    );
    let v: Vec<String> = ops
        .iter()
        .map(|op| match *op {
            Op::Ev(Ev::Est(p, m)) => format!("E{}.{}", p, m),
            Op::Ev(Ev::Eor(p, f)) => format!("R{}.{}", p, f),
            Op::Ev(Ev::Wd(p)) => format!("W{}", p),
            Op::Ev(Ev::Timer) => "T".to_string(),
            Op::Ins(f, x, sr) => format!("I{}.{}.{}", f, x, sr),
            Op::Sess => "S".to_string(),
            Op::TDrop(p, h) => format!("D{}.{}", p, h as u8),
        })
        .collect();
    s.push_str(&v.join(","));
    s
}

fn parse_replay_code(code: &str) -> Option<(Cfg, Vec<Op>)> {
    let mut cfg = Cfg {
        helper: [0; NP],
        timer: true,
        shards: 1,
        mode: Mode::Glue,
    };
    let mut ops = Vec::new();
    for part in code.split(';') {
        let (k, v) = part.split_once('=')?;
        match k {
            "h" => {
                let n: Vec<u8> = v.split('.').filter_map(|x| x.parse().ok()).collect();
                if n.len() != NP {
                    return None;
                }
                cfg.helper = [n[0] & 7, n[1] & 7, n[2] & 7];
            }
            "t" => cfg.timer = v == "1",
            "s" => {
                cfg.shards = v
                    .parse::<u8>()
                    .ok()
                    .filter(|n| [1, 2, 4].contains(n))
                    .unwrap_or(1)
            }
            "m" => cfg.mode = if v == "s" { Mode::Session } else { Mode::Glue },
            "o" => {
                for w in v.split(',').filter(|w| !w.is_empty()) {
                    let n: Vec<u8> = w[1..].split('.').filter_map(|x| x.parse().ok()).collect();
                    let op = match (&w[..1], n.len()) {
                        ("E", 2) if (n[0] as usize) < NP && n[1] < 8 => Op::Ev(Ev::Est(n[0], n[1])),
                        ("R", 2) if (n[0] as usize) < NP && (n[1] as usize) < NF => {
                            Op::Ev(Ev::Eor(n[0], n[1]))
                        }
                        ("W", 1) if (n[0] as usize) < NP => Op::Ev(Ev::Wd(n[0])),
                        ("T", 0) => Op::Ev(Ev::Timer),
                        ("S", 0) => Op::Sess,
                        ("D", 2) if (n[0] as usize) < NP => Op::TDrop(n[0], n[1] != 0),
                        ("I", 3)
                            if (n[0] as usize) < NTF
                                && (n[1] as usize) < NPFX
                                && (n[2] as usize) < NSRC =>
                        {
                            Op::Ins(n[0], n[1], n[2])
                        }
                        _ => return None,
                    };
                    ops.push(op);
                }
            }
            _ => {}
        }
    }
    Some((cfg, ops))
}

fn ev_kind(ev: &Ev) -> &'static str {
    match ev {
        Ev::Est(_, 0) => "est-nogr",
        Ev::Est(..) => "est",
        Ev::Eor(..) => "eor",
        Ev::Wd(..) => "withdrawn",
        Ev::Timer => "timer",
    }
}

fn alphabet(peers: usize, fams: usize) -> Vec<Ev> {
    let mut a = Vec::new();
    for p in 0..peers {
        for m in 0..(1u8 << fams) {
            a.push(Ev::Est(p as u8, m));
        }
    }
    for p in 0..peers {
        for f in 0..fams {
            a.push(Ev::Eor(p as u8, f as u8));
        }
    }
    for p in 0..peers {
        a.push(Ev::Wd(p as u8));
    }
    a.push(Ev::Timer);
    a
}

#[derive(Clone, Copy, PartialEq, Eq, Debug)]
enum Mode {
    /// events fed the way the call sites in event/mod.rs do it: `rd.process`
    /// under the global write lock, then `process_restarting_outputs`
    Glue,
    /// PeerEstablished / EorReceived go through the real `PeerSession::process_effects`
    Session,
}

#[derive(Clone, Debug)]
struct Cfg {
    /// configured GR families of each peer (mask; 0 = not a configured helper)
    helper: [u8; NP],
    /// selection-deferral timer configured (false = disabled, wait for EOR indefinitely)
    timer: bool,
    shards: u8,
    mode: Mode,
}

impl Cfg {
    fn deferred(&self) -> u8 {
        self.helper.iter().fold(0, |a, b| a | b)
    }
    fn json(&self) -> Json {
        Json::obj(vec![
            (
                "configured_helpers",
                Json::arr((0..NP).map(|p| {
                    Json::s(format!(
                        "p{}:{}",
                        p + 1,
                        if self.helper[p] == 0 {
                            "none".to_string()
                        } else {
                            mask_str(self.helper[p])
                        }
                    ))
                })),
            ),
            ("timer", Json::Bool(self.timer)),
            ("table_shards", Json::Int(self.shards as i128)),
            ("mode", Json::s(format!("{:?}", self.mode))),
        ])
    }
}

// ------------------------------------------------------------------ model (from the statement)

/// Status of (helper peer, deferred family).
#[derive(Clone, Copy, PartialEq, Eq, Debug)]
enum St {
    /// the peer is not a configured helper for this family: never blocks
    NotCfg,
    /// configured helper that has not come back yet: blocks until it drops,
    /// re-establishes without the family, or the timer fires
    Awaiting,
    /// re-established with the family, End-of-RIB awaited: blocks
    Negotiated,
    /// has not come back, but an End-of-RIB attributed to it was fed: cannot
    /// happen on the wire and the statement does not cover it — not judged until
    /// the peer drops or re-establishes
    AwaitingMaybe,
    /// re-established with the family, but the statement does not say whether
    /// it blocks (see `apply`)
    Maybe,
    /// sent End-of-RIB, dropped, or re-established without the family
    Resolved,
}

#[derive(Clone)]
struct Model {
    helper: [u8; NP],
    deferred: u8,
    st: [[St; NF]; NP],
    /// per helper peer: negotiated families that are not deferred at all and
    /// whose EOR is outstanding (the statement does not say whether such a peer
    /// is "pending"): while any exists the *terminates* clause is not judged
    stray: [u8; NP],
    timer_fired: bool,
}

impl Model {
    fn new(cfg: &Cfg) -> Model {
        let mut st = [[St::NotCfg; NF]; NP];
        for p in 0..NP {
            for f in 0..NF {
                if cfg.helper[p] & (1 << f) != 0 {
                    st[p][f] = St::Awaiting;
                }
            }
        }
        Model {
            helper: cfg.helper,
            deferred: cfg.deferred(),
            st,
            stray: [0; NP],
            timer_fired: false,
        }
    }
    fn is_deferred(&self, f: usize) -> bool {
        f < NF && self.deferred & (1 << f) != 0
    }
    fn must_hold(&self, f: usize) -> bool {
        self.is_deferred(f)
            && !self.timer_fired
            && (0..NP).any(|p| matches!(self.st[p][f], St::Awaiting | St::Negotiated))
    }
    fn must_release(&self, f: usize) -> bool {
        self.is_deferred(f)
            && (self.timer_fired
                || (0..NP).all(|p| matches!(self.st[p][f], St::NotCfg | St::Resolved)))
    }
    fn blocker_fact(&self, f: usize) -> &'static str {
        if (0..NP).any(|p| self.st[p][f] == St::Negotiated) {
            "peer-awaiting-eor"
        } else {
            "peer-not-back-yet"
        }
    }
    fn all_must_release(&self) -> bool {
        (0..NF).all(|f| !self.is_deferred(f) || self.must_release(f))
            && (self.timer_fired || self.stray.iter().all(|s| *s == 0))
    }
    fn any_must_hold(&self) -> bool {
        (0..NF).any(|f| self.must_hold(f))
    }
    /// `Timer` must only be applied when the timer was armed (the caller checks).
    fn apply(&mut self, ev: &Ev) {
        match *ev {
            Ev::Est(p, m) => {
                let p = p as usize;
                if self.helper[p] == 0 {
                    return; // not a configured helper: never pending
                }
                for f in 0..NF {
                    let has = m & (1 << f) != 0;
                    if !self.is_deferred(f) {
                        continue;
                    }
                    self.st[p][f] = match (self.st[p][f], has) {
                        // re-established without the family (or without GR at all)
                        (St::NotCfg, false) => St::NotCfg,
                        (_, false) => St::Resolved,
                        (St::Awaiting, true) | (St::Negotiated, true) => St::Negotiated,
                        // negotiated a deferred family it is not configured for; or came
                        // back with a family it had already resolved (EOR / drop) — the
                        // statement does not say whether it blocks again
                        (St::NotCfg, true)
                        | (St::Resolved, true)
                        | (St::Maybe, true)
                        | (St::AwaitingMaybe, true) => St::Maybe,
                    };
                }
                self.stray[p] = m & !self.deferred;
            }
            Ev::Eor(p, f) => {
                let (p, f) = (p as usize, f as usize);
                self.stray[p] &= !(1 << f);
                if !self.is_deferred(f) {
                    return;
                }
                self.st[p][f] = match self.st[p][f] {
                    St::Negotiated | St::Maybe => St::Resolved,
                    // End-of-RIB from a helper that has not re-established: cannot
                    // happen on the wire, the statement does not cover it
                    St::Awaiting | St::AwaitingMaybe => St::AwaitingMaybe,
                    s => s,
                };
            }
            Ev::Wd(p) => {
                let p = p as usize;
                self.stray[p] = 0;
                for f in 0..NF {
                    if self.st[p][f] != St::NotCfg {
                        self.st[p][f] = St::Resolved;
                    }
                }
            }
            Ev::Timer => {
                self.timer_fired = true;
            }
        }
    }
    fn describe(&self) -> String {
        let mut s = String::new();
        for f in 0..NF {
            if !self.is_deferred(f) {
                continue;
            }
            let v: Vec<String> = (0..NP)
                .filter(|p| self.st[*p][f] != St::NotCfg)
                .map(|p| format!("p{}={:?}", p + 1, self.st[p][f]))
                .collect();
            s.push_str(&format!("{}:[{}] ", FAM_NAME[f], v.join(" ")));
        }
        if self.timer_fired {
            s.push_str("timer-fired");
        }
        s
    }
}

// ------------------------------------------------------------------ environment (pools)

struct Env {
    peers: [IpAddr; NSRC],
    observer: IpAddr,
    sources: Vec<Arc<table::Source>>,
    nlri: Vec<Vec<packet::Nlri>>,
    nh: Vec<bgp::Nexthop>,
    net_index: FnvHashMap<packet::Nlri, (u8, u8)>,
    /// attribute lists for tags 0..ATTR_POOL (MED = tag), shared across histories
    attrs: Vec<Arc<Vec<packet::Attribute>>>,
    /// shard_of[log2(shards)][family][prefix]: where the real tables put the prefix
    shard_of: Vec<Vec<Vec<u8>>>,
}

fn new_source(env_peers: &[IpAddr; NSRC], i: usize) -> Arc<table::Source> {
    Arc::new(table::Source::new(
        env_peers[i],
        IpAddr::V4(Ipv4Addr::new(10, 0, 0, 254)),
        65100 + i as u32,
        65001,
        Ipv4Addr::new(2, 0, 0, 1 + i as u8),
        PeerRole::Ebgp,
    ))
}

const ATTR_POOL: u32 = 256;

fn cand_nlri(f: usize, k: u32) -> packet::Nlri {
    let v4 = bgp::Ipv4Net {
        addr: Ipv4Addr::new(10, f as u8, k as u8, 0),
        mask: 24,
    };
    let v6 = bgp::Ipv6Net {
        addr: Ipv6Addr::new(0x2001, 0xdb8, f as u16, k as u16, 0, 0, 0, 0),
        mask: 64,
    };
    let rd = packet::rd::RouteDistinguisher::TwoOctetAs {
        admin: 65000,
        assigned: 1,
    };
    let labels = || packet::mpls::MplsLabelStack::new(vec![packet::mpls::MplsLabel::new(100)]);
    match f {
        0 => packet::Nlri::V4(v4),
        1 => packet::Nlri::V6(v6),
        2 => packet::Nlri::VpnV4(packet::vpn::VpnV4Nlri {
            labels: labels(),
            rd,
            prefix: v4,
        }),
        _ => packet::Nlri::VpnV6(packet::vpn::VpnV6Nlri {
            labels: labels(),
            rd,
            prefix: v6,
        }),
    }
}

fn mk_attrs(tag: u32) -> Arc<Vec<packet::Attribute>> {
    Arc::new(vec![
        packet::Attribute::new_with_value(packet::Attribute::ORIGIN, 0).unwrap(),
        packet::Attribute::empty_as_path(),
        packet::Attribute::new_with_value(packet::Attribute::MULTI_EXIT_DESC, tag).unwrap(),
    ])
}

impl Env {
    fn new() -> Env {
        let peers: [IpAddr; NSRC] = [
            IpAddr::V4(Ipv4Addr::new(10, 0, 0, 1)),
            IpAddr::V4(Ipv4Addr::new(10, 0, 0, 2)),
            IpAddr::V4(Ipv4Addr::new(10, 0, 0, 3)),
            IpAddr::V4(Ipv4Addr::new(10, 0, 0, 9)),
        ];
        let sources: Vec<Arc<table::Source>> = (0..NSRC)
            .map(|i| {
                Arc::new(table::Source::new(
                    peers[i],
                    IpAddr::V4(Ipv4Addr::new(10, 0, 0, 254)),
                    65100 + i as u32,
                    65001,
                    Ipv4Addr::new(2, 0, 0, 1 + i as u8),
                    PeerRole::Ebgp,
                ))
            })
            .collect();
        let nh = vec![
            bgp::Nexthop::V4(Ipv4Addr::new(10, 0, 0, 1)),
            bgp::Nexthop::V6(Ipv6Addr::new(0x2001, 0xdb8, 0, 0, 0, 0, 0, 1)),
            bgp::Nexthop::V4(Ipv4Addr::new(10, 0, 0, 1)),
            bgp::Nexthop::V6(Ipv6Addr::new(0x2001, 0xdb8, 0, 0, 0, 0, 0, 1)),
        ];
        // choose prefixes so that in a 2-shard TableManager even indices live in
        // shard 0 and odd indices in shard 1 (found by asking the real tables)
        let scratch = TableManager::new(2);
        let mut nlri: Vec<Vec<packet::Nlri>> = Vec::new();
        for f in 0..NTF {
            let mut by_shard: [Vec<packet::Nlri>; 2] = [Vec::new(), Vec::new()];
            let mut k = 0u32;
            while (by_shard[0].len() < NPFX / 2 || by_shard[1].len() < NPFX / 2) && k < 200 {
                let n = cand_nlri(f, k);
                k += 1;
                scratch.insert_route(
                    sources[0].clone(),
                    fam_of(f),
                    packet::PathNlri::new(n.clone()),
                    Some(nh[f]),
                    mk_attrs(0),
                    None,
                    0,
                );
                for s in 0..2 {
                    let t = scratch.shards[s].lock().unwrap();
                    if t.rtable
                        .collect_loc_rib_paths(&fam_of(f))
                        .iter()
                        .any(|c| c.net == n)
                        && by_shard[s].len() < NPFX / 2
                    {
                        by_shard[s].push(n.clone());
                    }
                }
            }
            let mut v = Vec::new();
            for i in 0..NPFX / 2 {
                v.push(by_shard[0][i].clone());
                v.push(by_shard[1][i].clone());
            }
            nlri.push(v);
        }
        let mut net_index = FnvHashMap::default();
        for f in 0..NTF {
            for x in 0..NPFX {
                net_index.insert(nlri[f][x].clone(), (f as u8, x as u8));
            }
        }
        let mut shard_of = Vec::new();
        for lg in 0..3 {
            let n = 1usize << lg;
            let sc = TableManager::new(n);
            let mut per_f = Vec::new();
            for f in 0..NTF {
                let mut per_x = Vec::new();
                for x in 0..NPFX {
                    sc.insert_route(
                        sources[0].clone(),
                        fam_of(f),
                        packet::PathNlri::new(nlri[f][x].clone()),
                        Some(nh[f]),
                        mk_attrs(0),
                        None,
                        0,
                    );
                    let sh = (0..n)
                        .find(|sh| {
                            sc.shards[*sh]
                                .lock()
                                .unwrap()
                                .rtable
                                .collect_loc_rib_paths(&fam_of(f))
                                .iter()
                                .any(|c| c.net == nlri[f][x])
                        })
                        .unwrap_or(0);
                    per_x.push(sh as u8);
                }
                per_f.push(per_x);
            }
            shard_of.push(per_f);
        }
        Env {
            shard_of,
            peers,
            observer: IpAddr::V4(Ipv4Addr::new(10, 0, 0, 100)),
            sources,
            nlri,
            nh,
            net_index,
            attrs: (0..ATTR_POOL).map(mk_attrs).collect(),
        }
    }
}

// ------------------------------------------------------------------ violations, stats

#[derive(Clone, Debug)]
struct Viol {
    clause: &'static str,
    ev: &'static str,
    fact: String,
    what: String,
    step: usize,
    observed: String,
    expected: String,
}

impl Viol {
    fn sig(&self) -> String {
        format!("C11/{}/{}/{}", self.clause, self.ev, self.fact)
    }
}

#[derive(Default, Clone)]
struct Stats {
    /// keyed by the address of the static string (cheap in the hot loop);
    /// merged by name when flushed
    c: Vec<(&'static str, u64)>,
}

impl Stats {
    #[inline]
    fn add(&mut self, k: &'static str) {
        self.add_n(k, 1);
    }
    fn add_n(&mut self, k: &'static str, n: u64) {
        for e in self.c.iter_mut() {
            if std::ptr::eq(e.0.as_ptr(), k.as_ptr()) && e.0.len() == k.len() {
                e.1 += n;
                return;
            }
        }
        self.c.push((k, n));
    }
    fn flush(&mut self, rep: &mut Report) {
        for (k, v) in std::mem::take(&mut self.c) {
            rep.count_n(k, v);
        }
    }
}

struct RunOut {
    viol: Option<Viol>,
    judged: u64,
    /// a deferred family was held across ≥1 insert and then released with a non-empty table
    nontrivial: bool,
    trace: Vec<String>,
}

// ------------------------------------------------------------------ the coupled system

type Change = (u8, u8, Vec<(u8, u32)>); // family, prefix, paths as (source, tag) sorted

struct Sys<'a> {
    env: &'a Env,
    cfg: &'a Cfg,
    tables: TableHandle,
    global: GlobalHandle,
    rx: mpsc::UnboundedReceiver<ToPeerEvent>,
    sessions: Vec<Option<PeerSession>>,
    /// session mode: the peer's current session negotiated GR (EOR is only signalled then)
    sess_gr: [bool; NP],
    /// negotiated GR family mask of the peer's current (established) session
    sess_mask: [Option<u8>; NP],
    /// the Source routes of each origin are inserted with; a peer gets a new one per session
    cur_src: Vec<Arc<table::Source>>,
    unknown_net: bool,
}

fn summarize_outputs(outs: &[RestartingOutput]) -> String {
    let mut v = Vec::new();
    for o in outs {
        v.push(match o {
            RestartingOutput::DeferFamilies(f) => format!("DeferFamilies({})", fams_str(f)),
            RestartingOutput::StartDeferralTimer(d) => format!(
                "StartDeferralTimer({})",
                if d.is_some() { "on" } else { "disabled" }
            ),
            RestartingOutput::FamilyDeferralComplete(f) => {
                format!("FamilyDeferralComplete({})", fams_str(&[*f]))
            }
            RestartingOutput::EndDeferral(f) => format!("EndDeferral({})", fams_str(f)),
        });
    }
    format!("[{}]", v.join(", "))
}

fn fams_str(f: &[Family]) -> String {
    let mut v: Vec<String> = f
        .iter()
        .map(|x| {
            fam_index(*x)
                .map(|i| FAM_NAME[i].to_string())
                .unwrap_or_else(|| format!("{:?}", x))
        })
        .collect();
    v.sort();
    v.join(",")
}

fn mask_families(m: u8) -> Vec<Family> {
    (0..NF).filter(|f| m & (1 << f) != 0).map(fam_of).collect()
}

fn make_peer_context() -> Arc<std::sync::Mutex<PeerContext>> {
    let fsm = crate::fsm::PeerFsm::new(
        u32::from(Ipv4Addr::new(1, 0, 0, 1)),
        65001,
        vec![],
        90,
        0,
        FnvHashMap::default(),
    );
    let conn_arbiter = Arc::new(std::sync::Mutex::new(ConnArbiter::new(fsm)));
    Arc::new(std::sync::Mutex::new(PeerContext {
        conn_arbiter,
        active_connect_cancel_tx: None,
        active_connect_join_handle: None,
        gr_state: crate::gr::GrState::new(),
        gr_restart_timer: None,
        llgr_family_timers: FnvHashMap::default(),
        rtc_state: crate::rtc::RtcState::new(),
        rtc_eor_timer: None,
    }))
}

impl<'a> Sys<'a> {
    /// Startup as `serve` does it for `--graceful-restart` with a config file:
    /// `RestartingDeferral::new(configured GR peers)`, `start_deferral_families`
    /// for the `DeferFamilies` output, `Global.selection_deferral = Some(..)`.
    async fn start(
        env: &'a Env,
        cfg: &'a Cfg,
        global: GlobalHandle,
        trace: Option<&mut Vec<String>>,
    ) -> Sys<'a> {
        let tables: TableHandle = Arc::new(TableManager::new(cfg.shards as usize));
        let gr_peers: FnvHashMap<IpAddr, Vec<Family>> = (0..NP)
            .filter(|p| cfg.helper[*p] != 0)
            .map(|p| (env.peers[p], mask_families(cfg.helper[p])))
            .collect();
        let dur = if cfg.timer {
            Some(Duration::from_secs(3600))
        } else {
            None
        };
        let (deferral, init_outputs) = RestartingDeferral::new(gr_peers, dur);
        if let Some(t) = trace {
            t.push(format!("startup -> {}", summarize_outputs(&init_outputs)));
        }
        {
            let mut g = global.write().await;
            g.selection_deferral = None;
            g.selection_deferral_timer = None;
        }
        if !deferral.is_completed() {
            for output in &init_outputs {
                if let RestartingOutput::DeferFamilies(families) = output {
                    tables.start_deferral_families(families);
                }
            }
            global.write().await.selection_deferral = Some(deferral);
        }
        let rx = tables.register_peer(env.observer, FnvHashSet::default(), |_| {});
        Sys {
            env,
            cfg,
            tables,
            global,
            rx,
            sessions: (0..NP).map(|_| None).collect(),
            sess_gr: [false; NP],
            sess_mask: [None; NP],
            cur_src: (0..NSRC).map(|i| new_source(&env.peers, i)).collect(),
            unknown_net: false,
        }
    }

    fn shard_of(&self, f: usize, x: usize) -> usize {
        let lg = match self.cfg.shards {
            1 => 0,
            2 => 1,
            _ => 2,
        };
        self.env.shard_of[lg][f][x] as usize
    }

    /// What session_loop does with the tables when peer p's session ends.
    /// Returns (dropped families, stale families) as family indices, or None when
    /// the peer has no established session (nothing was registered).
    fn table_side_of_session_end(
        &mut self,
        p: usize,
        hard: bool,
    ) -> Option<(Vec<usize>, Vec<usize>)> {
        let mask = self.sess_mask[p]?;
        let gr_mask = if hard { 0 } else { mask };
        // every session negotiates all four table families; GR only for `mask`
        let stale: Vec<usize> = (0..NTF)
            .filter(|f| *f < NF && gr_mask & (1 << f) != 0)
            .collect();
        let dropf: Vec<usize> = (0..NTF).filter(|f| !stale.contains(f)).collect();
        let drop_families: Vec<Family> = dropf.iter().map(|f| fam_of(*f)).collect();
        let stale_families: Vec<Family> = stale.iter().map(|f| fam_of(*f)).collect();
        let addr = self.env.peers[p];
        self.tables
            .unregister_peer(addr, &drop_families, &stale_families);
        self.tables.peer_down(crate::table_manager::PeerDownData {
            peer_addr: addr,
            peer_asn: 65100 + p as u32,
            peer_id: u32::from(Ipv4Addr::new(2, 0, 0, 1 + p as u8)),
            uptime: 0,
            reason: crate::bmp::session_down_to_bmp(None),
        });
        self.sess_mask[p] = None;
        self.cur_src[p] = new_source(&self.env.peers, p);
        Some((dropf, stale))
    }

    async fn timer_armed(&self) -> bool {
        self.global.read().await.selection_deferral_timer.is_some()
    }

    /// Returns false when the event is not applicable under the real call
    /// protocol (timer not armed; EOR on a session without GR in session mode).
    async fn feed(&mut self, ev: &Ev, trace: Option<&mut Vec<String>>) -> bool {
        match *ev {
            Ev::Timer => {
                if !self.timer_armed().await {
                    return false;
                }
                gr_selection_deferral_timer_expired(self.global.clone(), self.tables.clone()).await;
                true
            }
            Ev::Wd(p) => {
                // tail of PeerSession::run
                let addr = self.env.peers[p as usize];
                let rd_outputs = {
                    let mut server = self.global.write().await;
                    if let Some(rd) = &mut server.selection_deferral {
                        rd.process(RestartingInput::PeerWithdrawn(addr))
                    } else {
                        vec![]
                    }
                };
                if let Some(t) = trace {
                    t.push(format!("  machine -> {}", summarize_outputs(&rd_outputs)));
                }
                let _ = process_restarting_outputs(rd_outputs, &self.global, &self.tables).await;
                self.sess_gr[p as usize] = false;
                true
            }
            Ev::Est(p, m) => {
                let addr = self.env.peers[p as usize];
                let fams = mask_families(m);
                match self.cfg.mode {
                    Mode::Glue => {
                        // GlobalEffect::GrSessionEstablished arm of process_effects
                        let (is_restarting, rd_outputs) = {
                            let mut server = self.global.write().await;
                            if let Some(rd) = &mut server.selection_deferral {
                                (
                                    true,
                                    rd.process(RestartingInput::PeerEstablished(addr, fams)),
                                )
                            } else {
                                (false, vec![])
                            }
                        };
                        if let Some(t) = trace {
                            t.push(format!("  machine -> {}", summarize_outputs(&rd_outputs)));
                        }
                        if is_restarting {
                            if let Some(dur) =
                                process_restarting_outputs(rd_outputs, &self.global, &self.tables)
                                    .await
                            {
                                let global_c = self.global.clone();
                                let tables_c = self.tables.clone();
                                let handle = tokio::spawn(async move {
                                    tokio::time::sleep(dur).await;
                                    gr_selection_deferral_timer_expired(global_c, tables_c).await;
                                })
                                .abort_handle();
                                self.global.write().await.selection_deferral_timer = Some(handle);
                            }
                        }
                    }
                    Mode::Session => {
                        let negotiated_gr = if fams.is_empty() {
                            None
                        } else {
                            Some(NegotiatedGr {
                                families: fams,
                                restart_time: Duration::from_secs(90),
                                notification_enabled: false,
                            })
                        };
                        self.sess_gr[p as usize] = negotiated_gr.is_some();
                        if self.sessions[p as usize].is_none() {
                            self.sessions[p as usize] = Some(PeerSession::new_for_test(
                                addr,
                                make_peer_context(),
                                self.tables.clone(),
                            ));
                        }
                        let global = self.global.clone();
                        let s = self.sessions[p as usize].as_mut().unwrap();
                        s.process_effects(
                            vec![GlobalEffect::GrSessionEstablished { negotiated_gr }],
                            &global,
                        )
                        .await;
                    }
                }
                true
            }
            Ev::Eor(p, f) => {
                let addr = self.env.peers[p as usize];
                let family = fam_of(f as usize);
                match self.cfg.mode {
                    Mode::Glue => {
                        let rd_outputs = {
                            let mut server = self.global.write().await;
                            if let Some(rd) = &mut server.selection_deferral {
                                rd.process(RestartingInput::EorReceived(addr, family))
                            } else {
                                vec![]
                            }
                        };
                        if let Some(t) = trace {
                            t.push(format!("  machine -> {}", summarize_outputs(&rd_outputs)));
                        }
                        let _ = process_restarting_outputs(rd_outputs, &self.global, &self.tables)
                            .await;
                        true
                    }
                    Mode::Session => {
                        // rx path: `if self.negotiated_gr.is_some() { process_effects(GrEorReceived) }`
                        if !self.sess_gr[p as usize] || self.sessions[p as usize].is_none() {
                            return false;
                        }
                        let global = self.global.clone();
                        let s = self.sessions[p as usize].as_mut().unwrap();
                        s.process_effects(vec![GlobalEffect::GrEorReceived { family }], &global)
                            .await;
                        true
                    }
                }
            }
        }
    }

    fn insert(&self, f: usize, x: usize, s: usize, tag: u32) {
        let _ = self.tables.insert_route(
            self.cur_src[s].clone(),
            fam_of(f),
            packet::PathNlri::new(self.env.nlri[f][x].clone()),
            Some(self.env.nh[f]),
            if tag < ATTR_POOL {
                self.env.attrs[tag as usize].clone()
            } else {
                mk_attrs(tag)
            },
            None,
            0,
        );
    }

    /// Everything that reached the registered peer channel since the last drain.
    fn drain(&mut self) -> Vec<Change> {
        let mut out = Vec::new();
        while let Ok(ev) = self.rx.try_recv() {
            if let ToPeerEvent::NlriChange(c) = ev {
                match self.env.net_index.get(&c.net) {
                    Some(&(f, x)) if fam_of(f as usize) == c.family => {
                        let mut paths: Vec<(u8, u32)> = c
                            .current_paths
                            .iter()
                            .map(|p| {
                                let src = (0..NSRC)
                                    .find(|i| self.env.peers[*i] == p.source.remote_addr)
                                    .unwrap_or(99) as u8;
                                let tag = p
                                    .attr
                                    .iter()
                                    .find(|a| a.code() == packet::Attribute::MULTI_EXIT_DESC)
                                    .and_then(|a| a.value())
                                    .unwrap_or(u32::MAX);
                                (src, tag)
                            })
                            .collect();
                        paths.sort();
                        out.push((f, x, paths));
                    }
                    _ => self.unknown_net = true,
                }
            }
        }
        out
    }

    async fn finish(self) {
        let mut g = self.global.write().await;
        if let Some(h) = g.selection_deferral_timer.take() {
            h.abort();
        }
        g.selection_deferral = None;
    }
}

fn changes_str(ch: &[Change]) -> String {
    let v: Vec<String> = ch
        .iter()
        .map(|(f, x, p)| {
            format!(
                "{}#{}:[{}]",
                FAM_NAME[*f as usize],
                x,
                p.iter()
                    .map(|(s, t)| format!("src{}/med{}", s + 1, t))
                    .collect::<Vec<_>>()
                    .join(",")
            )
        })
        .collect();
    format!("[{}]", v.join(" "))
}

struct Judge {
    model: Model,
    /// model of the table contents: (family, prefix) -> source -> tag
    tbl: Vec<Vec<BTreeMap<u8, u32>>>,
    /// the family's release (deferral end) was observed on the peer channel
    obs_released: [bool; NTF],
    /// ≥1 insert was held back for the family
    held_inserts: [u32; NTF],
    /// (peer, family): the peer re-established with a family it had already
    /// resolved / is not configured for / that is not deferred, and has not
    /// resolved it since — only used to name the cause of a second dump in the
    /// signature
    readded: [[bool; NTF]; NP],
    /// (family, shard): while the family was still held, a session drop left this
    /// shard's table of the family empty (or found it empty) — coverage counters only
    emptied_by_drop: [[bool; 4]; NTF],
    next_tag: u32,
    nontrivial: bool,
    judged: u64,
}

impl Judge {
    fn table_nonempty(&self, f: usize) -> bool {
        self.tbl[f].iter().any(|m| !m.is_empty())
    }
    fn want_paths(&self, f: usize, x: usize) -> Vec<(u8, u32)> {
        let mut v: Vec<(u8, u32)> = self.tbl[f][x].iter().map(|(s, t)| (*s, *t)).collect();
        v.sort();
        v
    }
}

fn viol(
    clause: &'static str,
    ev: &'static str,
    fact: &str,
    what: String,
    step: usize,
    observed: String,
    expected: String,
) -> Viol {
    Viol {
        clause,
        ev,
        fact: fact.to_string(),
        what,
        step,
        observed,
        expected,
    }
}

/// One insert through the real `insert_route`, judged against the model.
/// `probe`: the insert was added by the oracle to decide whether a family was released.
fn judged_insert(
    sys: &mut Sys,
    j: &mut Judge,
    st: &mut Stats,
    f: usize,
    x: usize,
    s: usize,
    step: usize,
    evk: &'static str,
) -> Result<bool, Viol> {
    let was_nonempty = j.table_nonempty(f);
    let tag = j.next_tag;
    j.next_tag += 1;
    sys.insert(f, x, s, tag);
    j.tbl[f][x].insert(s as u8, tag);
    let ch = sys.drain();
    j.judged += 1;
    let announced = !ch.is_empty();
    let deferred = j.model.is_deferred(f);
    // what the statement demands for this insert
    let (must_announce, must_silent) = if !deferred {
        (true, false)
    } else if j.model.must_hold(f) {
        (false, true)
    } else if j.model.must_release(f) {
        (true, false)
    } else {
        (false, false)
    };
    if announced && must_silent {
        return Err(viol(
            "held",
            evk,
            &format!("insert-announced-while-{}", j.model.blocker_fact(f)),
            format!(
                "a route inserted into deferred family {} reached the peer channel although a helper peer is still pending",
                FAM_NAME[f]
            ),
            step,
            changes_str(&ch),
            format!(
                "no NlriChange for {} (model: {})",
                FAM_NAME[f],
                j.model.describe()
            ),
        ));
    }
    if !announced && must_announce {
        if !deferred {
            return Err(viol(
                "non-deferred",
                evk,
                "insert-silent",
                format!(
                    "a route inserted into {} (not a deferred family) was not announced",
                    FAM_NAME[f]
                ),
                step,
                "no NlriChange".into(),
                "one NlriChange".into(),
            ));
        }
        return Err(viol(
            "terminates",
            evk,
            if j.model.timer_fired {
                "insert-silent-after-timer"
            } else {
                "insert-silent-after-release"
            },
            format!(
                "{} must be released (no helper pending / timer fired) but a later insert is still suppressed{}",
                FAM_NAME[f],
                if sys.cfg.shards > 1 {
                    " (on at least one shard)"
                } else {
                    ""
                }
            ),
            step,
            "no NlriChange".into(),
            format!("one NlriChange (model: {})", j.model.describe()),
        ));
    }
    if announced {
        // content: exactly one change, for this prefix, carrying the full path list
        let want = j.want_paths(f, x);
        let ok = ch.len() == 1 && ch[0].0 as usize == f && ch[0].1 as usize == x && ch[0].2 == want;
        if !ok {
            return Err(viol(
                "exactly-once",
                evk,
                if ch.len() != 1 { "insert-announced-more-than-once" } else { "insert-wrong-paths" },
                "an insert into a released / non-deferred family was not announced as exactly one NlriChange with the prefix's full path list".into(),
                step,
                changes_str(&ch),
                changes_str(&[(f as u8, x as u8, want)]),
            ));
        }
        if deferred && !j.obs_released[f] {
            // the code had cleared the flag earlier without any visible dump
            if was_nonempty {
                return Err(viol(
                    "exactly-once",
                    evk,
                    "released-without-announcing-held-prefixes",
                    format!(
                        "{} stopped deferring but the prefixes received meanwhile were never announced",
                        FAM_NAME[f]
                    ),
                    step,
                    changes_str(&ch),
                    "a dump of every held prefix at release".into(),
                ));
            }
            j.obs_released[f] = true;
        }
        st.add(if deferred {
            "insert:announced-after-release"
        } else {
            "insert:announced-non-deferred"
        });
    } else {
        if deferred {
            j.held_inserts[f] += 1;
            st.add("insert:held-back");
            if j.emptied_by_drop[f][sys.shard_of(f, x)] {
                st.add("insert:held-back-after-drop-emptied-the-shard-table");
            }
        }
        if !must_silent {
            st.add("unjudged:insert-in-ambiguous-state");
        }
    }
    Ok(announced)
}

const NEW_SESSION_ADDR: IpAddr = IpAddr::V4(Ipv4Addr::new(10, 0, 0, 50));

/// A session (all four table families negotiated) taken through the real
/// `PeerSession::on_established`: registers its peer channel with the tables and
/// buffers the initial dump.
async fn establish_session(tables: &TableHandle) -> PeerSession {
    let mut s = PeerSession::new_for_test(NEW_SESSION_ADDR, make_peer_context(), tables.clone());
    let mp: Vec<packet::Capability> = (0..NTF)
        .map(|f| packet::Capability::MultiProtocol(fam_of(f)))
        .collect();
    s.local_cap = mp.clone();
    s.codec = bgp::PeerCodec::negotiate(&mp, &mp);
    s.state.remote_cap.store(Some(Arc::new(mp)));
    s.state.remote_asn.store(65200, Ordering::Relaxed);
    s.state
        .remote_id
        .store(u32::from(Ipv4Addr::new(9, 9, 9, 9)), Ordering::Relaxed);
    s.on_established(
        SocketAddr::new(IpAddr::V4(Ipv4Addr::new(127, 0, 0, 1)), 179),
        SocketAddr::new(NEW_SESSION_ADDR, 30000),
    )
    .await;
    s
}

/// Prefixes (family, prefix index) announced by the UPDATEs the session has buffered, with multiplicity.
fn drain_session_reach(env: &Env, s: &mut PeerSession) -> Vec<(u8, u8)> {
    let mut out = Vec::new();
    for f in 0..NTF {
        let fam = fam_of(f);
        let msgs = s
            .pending
            .get_mut(&fam)
            .map(|p| p.drain_messages(fam))
            .unwrap_or_default();
        for m in msgs {
            if let bgp::Message::Update(bgp::Update::Reach { entries, .. }) = m {
                for e in entries {
                    match env.net_index.get(&e.nlri) {
                        Some(&(nf, x)) => out.push((nf, x)),
                        None => out.push((f as u8, 99)),
                    }
                }
            }
        }
    }
    out
}

/// exactly the NlriChange arm of run_select's peer-event dispatch
fn deliver_session_events(s: &mut PeerSession) -> usize {
    let mut n = 0;
    loop {
        let ev = match s.peer_event_rx.as_mut() {
            Some(rx) => rx.as_mut().try_recv().ok(),
            None => None,
        };
        match ev {
            Some(ToPeerEvent::NlriChange(u)) => {
                s.handle_prefix_update(u);
                n += 1;
            }
            Some(_) => {}
            None => return n,
        }
    }
}

fn sent_str(v: &[(u8, u8)]) -> String {
    let w: Vec<String> = v
        .iter()
        .map(|(f, x)| format!("{}#{}", FAM_NAME[*f as usize], x))
        .collect();
    format!("[{}]", w.join(" "))
}

/// `Op::Sess`: a peer establishes now.  While a family must be held, its routes
/// must not be advertised to the new session by the initial dump either.
async fn judged_new_session(
    sys: &mut Sys<'_>,
    j: &mut Judge,
    st: &mut Stats,
    step: usize,
) -> Result<(), Viol> {
    let mut s = establish_session(&sys.tables).await;
    let sent = drain_session_reach(sys.env, &mut s);
    // the neighbour asks for a route refresh of every family (real do_route_refresh)
    for f in 0..NTF {
        s.do_route_refresh(fam_of(f)).await;
    }
    let refreshed = drain_session_reach(sys.env, &mut s);
    // the session ends again (unregister_peer is what session teardown does first)
    sys.tables.unregister_peer(NEW_SESSION_ADDR, &[], &[]);
    drop(s);
    j.judged += 1;
    st.add("initial-dump:sessions");
    for f in 0..NTF {
        let n = sent.iter().filter(|e| e.0 as usize == f).count();
        let deferred = j.model.is_deferred(f);
        if deferred && j.model.must_hold(f) {
            if n > 0 {
                return Err(viol(
                    "held",
                    "initial-dump",
                    "held-family-sent-to-new-session",
                    format!(
                        "a peer that established while {} is still deferred was sent that family's held routes in its initial dump",
                        FAM_NAME[f]
                    ),
                    step,
                    sent_str(&sent),
                    format!(
                        "no route of {} (model: {})",
                        FAM_NAME[f],
                        j.model.describe()
                    ),
                ));
            }
            if refreshed.iter().any(|e| e.0 as usize == f) {
                return Err(viol(
                    "held",
                    "route-refresh",
                    "held-family-sent-on-route-refresh",
                    format!(
                        "a route refresh for {} while it is still deferred made the session advertise the held routes",
                        FAM_NAME[f]
                    ),
                    step,
                    sent_str(&refreshed),
                    format!(
                        "no route of {} (model: {})",
                        FAM_NAME[f],
                        j.model.describe()
                    ),
                ));
            }
            if j.table_nonempty(f) {
                st.add("initial-dump:held-family-withheld");
            }
        } else if !deferred || j.obs_released[f] {
            // not a judged clause (export rules are C01/C09); counted so that the
            // held check above is known not to be vacuous
            for x in 0..NPFX {
                if !j.tbl[f][x].is_empty() {
                    st.add(
                        if sent.iter().any(|e| e.0 as usize == f && e.1 as usize == x) {
                            "initial-dump:released-prefix-sent"
                        } else {
                            "unjudged:initial-dump-released-prefix-not-sent"
                        },
                    );
                }
            }
        } else {
            st.add("unjudged:initial-dump-in-ambiguous-state");
        }
    }
    Ok(())
}

/// `Op::TDrop`: the table side of a session end.  Nothing of a family that is
/// still held may be announced because of it (the drop / stale marking of held
/// routes is silent); for released / never-deferred families the RIB reports the
/// change as usual (not a C11 clause: only checked for consistency with the
/// table model, mismatches are counted).
fn judged_drop(
    sys: &mut Sys,
    j: &mut Judge,
    st: &mut Stats,
    p: usize,
    hard: bool,
    step: usize,
) -> Result<(), Viol> {
    let shards = sys.cfg.shards as usize;
    // per (family, shard): routes before the drop, and how many of them are the peer's only
    let mut before = [[0usize; 4]; NTF];
    for f in 0..NTF {
        for x in 0..NPFX {
            if !j.tbl[f][x].is_empty() {
                before[f][sys.shard_of(f, x)] += 1;
            }
        }
    }
    let Some((dropf, stale)) = sys.table_side_of_session_end(p, hard) else {
        st.add("drop:no-established-session");
        return Ok(());
    };
    j.judged += 1;
    st.add(if hard {
        "drop:sessions-not-gr-eligible"
    } else if stale.is_empty() {
        "drop:sessions-without-gr"
    } else {
        "drop:sessions-gr-eligible"
    });
    let mut affected: Vec<(usize, usize)> = Vec::new();
    for &f in &dropf {
        for x in 0..NPFX {
            if j.tbl[f][x].remove(&(p as u8)).is_some() {
                affected.push((f, x));
            }
        }
    }
    for &f in &stale {
        for x in 0..NPFX {
            if j.tbl[f][x].contains_key(&(p as u8)) {
                affected.push((f, x));
                st.add("drop:held-or-released-path-marked-stale");
            }
        }
    }
    let ch = sys.drain();
    for f in 0..NTF {
        let deferred = j.model.is_deferred(f);
        let chf: Vec<&Change> = ch.iter().filter(|c| c.0 as usize == f).collect();
        if deferred && !j.obs_released[f] {
            if !chf.is_empty() {
                if j.model.must_hold(f) {
                    return Err(viol(
                        "held",
                        "session-drop",
                        &format!("announced-while-{}", j.model.blocker_fact(f)),
                        format!(
                            "the end of a session made the RIB announce routes of {} although the family is still deferred",
                            FAM_NAME[f]
                        ),
                        step,
                        changes_str(&ch),
                        format!(
                            "no NlriChange for {} (model: {})",
                            FAM_NAME[f],
                            j.model.describe()
                        ),
                    ));
                }
                // ambiguous model state: the family had been released without a visible dump
                if before[f].iter().any(|n| *n > 0) {
                    return Err(viol(
                        "exactly-once",
                        "session-drop",
                        "released-without-announcing-held-prefixes",
                        format!(
                            "{} stopped deferring but the prefixes received meanwhile were never announced",
                            FAM_NAME[f]
                        ),
                        step,
                        changes_str(&ch),
                        "a dump of every held prefix at release".into(),
                    ));
                }
                j.obs_released[f] = true;
            }
            if dropf.contains(&f) {
                for sh in 0..shards {
                    let after = (0..NPFX)
                        .filter(|x| sys.shard_of(f, *x) == sh && !j.tbl[f][*x].is_empty())
                        .count();
                    if after == 0 {
                        j.emptied_by_drop[f][sh] = true;
                        st.add(if before[f][sh] == 0 {
                            "drop:held-family-shard-table-already-empty"
                        } else {
                            "drop:held-family-shard-table-emptied-by-the-drop"
                        });
                    } else {
                        st.add(if after == before[f][sh] {
                            "drop:held-family-shard-table-untouched"
                        } else {
                            "drop:held-family-shard-table-shared"
                        });
                    }
                }
            }
        } else {
            for c in &chf {
                let x = c.1 as usize;
                if !affected.contains(&(f, x)) || c.2 != j.want_paths(f, x) {
                    st.add("unjudged:session-drop-announcement-differs-from-table-model");
                } else {
                    st.add("drop:released-family-change-announced");
                }
            }
        }
    }
    Ok(())
}

/// Execute one op list against a fresh coupled system and judge every step.
async fn run_ops(
    env: &Env,
    cfg: &Cfg,
    ops: &[Op],
    global: GlobalHandle,
    st: &mut Stats,
    want_trace: bool,
) -> RunOut {
    let mut trace: Vec<String> = Vec::new();
    let mut sys = Sys::start(
        env,
        cfg,
        global,
        if want_trace { Some(&mut trace) } else { None },
    )
    .await;
    let mut j = Judge {
        model: Model::new(cfg),
        tbl: (0..NTF)
            .map(|_| (0..NPFX).map(|_| BTreeMap::new()).collect())
            .collect(),
        obs_released: [false; NTF],
        held_inserts: [0; NTF],
        readded: [[false; NTF]; NP],
        emptied_by_drop: [[false; 4]; NTF],
        next_tag: 1,
        nontrivial: false,
        judged: 0,
    };
    let r = run_ops_inner(&mut sys, &mut j, ops, st, want_trace, &mut trace).await;
    let viol = match r {
        Ok(()) => {
            if sys.unknown_net {
                Some(viol(
                    "exactly-once",
                    "final",
                    "unknown-prefix-announced",
                    "an NlriChange for a prefix that was never inserted reached the channel".into(),
                    ops.len(),
                    "".into(),
                    "".into(),
                ))
            } else {
                None
            }
        }
        Err(v) => Some(v),
    };
    let out = RunOut {
        viol,
        judged: j.judged,
        nontrivial: j.nontrivial,
        trace,
    };
    sys.finish().await;
    out
}

async fn run_ops_inner(
    sys: &mut Sys<'_>,
    j: &mut Judge,
    ops: &[Op],
    st: &mut Stats,
    want_trace: bool,
    trace: &mut Vec<String>,
) -> Result<(), Viol> {
    // startup: the restarting flag must be set iff something is deferred
    {
        let g = sys.global.read().await;
        if j.model.deferred != 0 && g.selection_deferral.is_none() {
            return Err(viol(
                "held",
                "setup",
                "no-deferral-at-startup",
                "configured helper peers exist but no deferral was set up".into(),
                0,
                "selection_deferral = None".into(),
                "Some".into(),
            ));
        }
    }
    for (step, op) in ops.iter().enumerate() {
        match op {
            Op::TDrop(p, hard) => {
                if want_trace {
                    trace.push(op_str(op));
                }
                judged_drop(sys, j, st, *p as usize, *hard, step)?;
            }
            Op::Sess => {
                if want_trace {
                    trace.push(op_str(op));
                }
                judged_new_session(sys, j, st, step).await?;
                let ch = sys.drain();
                if !ch.is_empty() {
                    return Err(viol("exactly-once", "initial-dump", "announce-on-session-establishment", "NlriChanges reached the observer channel because another session established".into(), step, changes_str(&ch), "[]".into()));
                }
            }
            Op::Ins(f, x, s) => {
                if want_trace {
                    trace.push(op_str(op));
                }
                let a = judged_insert(
                    sys,
                    j,
                    st,
                    *f as usize,
                    *x as usize,
                    *s as usize,
                    step,
                    "insert",
                )?;
                if want_trace {
                    trace.push(format!(
                        "  -> {}",
                        if a { "announced" } else { "held back" }
                    ));
                }
            }
            Op::Ev(ev) => {
                let evk = ev_kind(ev);
                if want_trace {
                    trace.push(op_str(op));
                }
                let applied = sys
                    .feed(ev, if want_trace { Some(&mut *trace) } else { None })
                    .await;
                if !applied {
                    st.add(if matches!(ev, Ev::Timer) {
                        "skipped:timer-not-armed"
                    } else {
                        "skipped:eor-on-session-without-gr"
                    });
                    if want_trace {
                        trace.push("  (not applicable: skipped)".into());
                    }
                    // nothing may have happened
                    let ch = sys.drain();
                    if !ch.is_empty() {
                        return Err(viol(
                            "exactly-once",
                            evk,
                            "announce-on-skipped-event",
                            "NlriChanges appeared although no event was fed".into(),
                            step,
                            changes_str(&ch),
                            "[]".into(),
                        ));
                    }
                    continue;
                }
                st.add(match ev {
                    Ev::Est(_, 0) => "ev:est-nogr",
                    Ev::Est(..) => "ev:est",
                    Ev::Eor(..) => "ev:eor",
                    Ev::Wd(..) => "ev:withdrawn",
                    Ev::Timer => "ev:timer",
                });
                if let Ev::Est(p, m) = *ev {
                    sys.sess_mask[p as usize] = Some(m);
                }
                let before = j.model.clone();
                j.model.apply(ev);
                let was_readded = j.readded;
                match *ev {
                    Ev::Est(p, m) => {
                        for f in 0..NF {
                            j.readded[p as usize][f] = m & (1 << f) != 0
                                && j.model.helper[p as usize] != 0
                                && (!j.model.is_deferred(f)
                                    || j.model.st[p as usize][f] == St::Maybe);
                        }
                    }
                    Ev::Eor(p, f) => j.readded[p as usize][f as usize] = false,
                    Ev::Wd(p) => j.readded[p as usize] = [false; NTF],
                    Ev::Timer => {}
                }
                j.judged += 1;
                let ch = sys.drain();
                if want_trace {
                    trace.push(format!(
                        "  channel -> {}   model: {}",
                        changes_str(&ch),
                        j.model.describe()
                    ));
                }
                for f in 0..NTF {
                    let chf: Vec<&Change> = ch.iter().filter(|c| c.0 as usize == f).collect();
                    let deferred = j.model.is_deferred(f);
                    if !deferred || j.obs_released[f] {
                        if !chf.is_empty() {
                            return Err(viol(
                                "exactly-once",
                                evk,
                                {
                                    // which of the two ways the machine has of signalling a
                                    // family twice: an End-of-RIB for a family the sending peer
                                    // was not pending for, or a peer that re-negotiated a
                                    // family which was already released / never deferred
                                    let stray_eor = matches!(ev, Ev::Eor(p, ef) if *ef as usize == f && !was_readded[*p as usize][f]);
                                    if stray_eor {
                                        "reannounce-on-eor-for-non-pending-family"
                                    } else {
                                        "reannounce-after-renegotiation"
                                    }
                                },
                                format!(
                                    "{} ({}) was dumped to the peer channel again: every prefix is announced a second time",
                                    FAM_NAME[f],
                                    if deferred {
                                        "already released"
                                    } else {
                                        "never deferred"
                                    }
                                ),
                                step,
                                changes_str(&ch),
                                format!("no NlriChange for {}", FAM_NAME[f]),
                            ));
                        }
                        continue;
                    }
                    if !chf.is_empty() {
                        // release observed now
                        if j.model.must_hold(f) {
                            return Err(viol(
                                "release-early",
                                evk,
                                j.model.blocker_fact(f),
                                format!(
                                    "{} was released although a configured helper peer is still pending for it",
                                    FAM_NAME[f]
                                ),
                                step,
                                changes_str(&ch),
                                format!("held (model: {})", j.model.describe()),
                            ));
                        }
                        // the dump: every prefix received meanwhile exactly once, full path list
                        for x in 0..NPFX {
                            let n = chf.iter().filter(|c| c.1 as usize == x).count();
                            let want = j.want_paths(f, x);
                            let fact = if want.is_empty() && n > 0 {
                                Some("dump-unknown-prefix")
                            } else if !want.is_empty() && n == 0 {
                                Some(if want.len() == 1 {
                                    "dump-missing-single-path-prefix"
                                } else {
                                    "dump-missing-prefix"
                                })
                            } else if n > 1 {
                                Some("dump-duplicate-prefix")
                            } else if n == 1
                                && chf.iter().find(|c| c.1 as usize == x).unwrap().2 != want
                            {
                                Some("dump-wrong-paths")
                            } else {
                                None
                            };
                            if let Some(fact) = fact {
                                return Err(viol(
                                    "exactly-once",
                                    evk,
                                    fact,
                                    format!(
                                        "at the release of {} the prefixes received meanwhile were not each announced exactly once with their full path list",
                                        FAM_NAME[f]
                                    ),
                                    step,
                                    changes_str(&ch),
                                    format!("{}#{} -> {:?}", FAM_NAME[f], x, want),
                                ));
                            }
                            if want.len() > 1 {
                                st.add("release:multipath-prefix-dumped");
                            }
                            if !want.is_empty() {
                                st.add("release:prefix-dumped");
                            }
                        }
                        j.obs_released[f] = true;
                        if j.held_inserts[f] > 0 {
                            j.nontrivial = true;
                        }
                        st.add(match ev {
                            Ev::Est(_, 0) => "release-by:est-nogr",
                            Ev::Est(..) => "release-by:est-without-family",
                            Ev::Eor(..) => "release-by:eor",
                            Ev::Wd(..) => "release-by:withdrawn",
                            Ev::Timer => "release-by:timer",
                        });
                        if !j.model.must_release(f) {
                            st.add("unjudged:release-in-ambiguous-state");
                        }
                    } else if j.model.must_release(f) {
                        // nothing was dumped: decide by probing every shard with an insert
                        let had = j.table_nonempty(f);
                        let late_clause = if matches!(ev, Ev::Est(_, 0))
                            || (matches!(ev, Ev::Est(p, _) if j.model.helper[*p as usize] == 0))
                        {
                            "non-gr-blocks"
                        } else {
                            "release-late"
                        };
                        let late_fact = if j.model.timer_fired {
                            "timer-fired"
                        } else {
                            "no-peer-pending"
                        };
                        let mut any_silent = false;
                        let mut any_announced = false;
                        for x in 0..(sys.cfg.shards as usize).min(NPFX) {
                            let tag = j.next_tag;
                            j.next_tag += 1;
                            sys.insert(f, x, NSRC - 1, tag);
                            j.tbl[f][x].insert((NSRC - 1) as u8, tag);
                            if sys.drain().is_empty() {
                                any_silent = true;
                            } else {
                                any_announced = true;
                            }
                        }
                        if any_silent {
                            return Err(viol(
                                late_clause,
                                evk,
                                &format!(
                                    "{}{}",
                                    late_fact,
                                    if any_announced { "-some-shards" } else { "" }
                                ),
                                format!(
                                    "{} stays deferred although no configured helper peer is pending for it any more / the timer fired (model before the event: {})",
                                    FAM_NAME[f],
                                    before.describe()
                                ),
                                step,
                                "no release: nothing dumped, a probe insert is still suppressed"
                                    .into(),
                                format!("release in this step (model: {})", j.model.describe()),
                            ));
                        }
                        if had {
                            return Err(viol(
                                "exactly-once",
                                evk,
                                "released-without-announcing-held-prefixes",
                                format!(
                                    "{} stopped deferring but the prefixes received meanwhile were never announced",
                                    FAM_NAME[f]
                                ),
                                step,
                                "no NlriChange at release".into(),
                                "a dump of every held prefix".into(),
                            ));
                        }
                        j.obs_released[f] = true;
                        st.add("release:empty-table");
                    } else if j.model.must_hold(f) {
                        st.add("step:family-held");
                    } else {
                        st.add("unjudged:held-in-ambiguous-state");
                    }
                }
                // restarting flag / machine termination
                {
                    let g = sys.global.read().await;
                    let flag = g.selection_deferral.is_some();
                    if j.model.deferred != 0 && j.model.all_must_release() {
                        st.add("terminates:judged");
                        if flag {
                            let completed = g
                                .selection_deferral
                                .as_ref()
                                .map(|d| d.is_completed())
                                .unwrap_or(false);
                            return Err(viol(
                                "terminates",
                                evk,
                                if completed { "machine-completed-flag-not-cleared" } else if j.model.timer_fired { "still-deferring-after-timer" } else { "still-deferring-no-peer-pending" },
                                "no helper peer is pending (or the timer fired) but the restarting state (Global.selection_deferral) is still set".into(),
                                step,
                                format!("selection_deferral = Some(is_completed={})", completed),
                                format!("None (model: {})", j.model.describe()),
                            ));
                        }
                        if g.selection_deferral_timer.is_some() {
                            st.add("unjudged:timer-handle-left-after-completion");
                        }
                    } else if j.model.any_must_hold() {
                        st.add("flag-held:judged");
                        if !flag {
                            return Err(viol(
                                "terminates",
                                evk,
                                "flag-cleared-while-family-held",
                                "the restarting state was cleared although a family must still be held".into(),
                                step,
                                "selection_deferral = None".into(),
                                format!("Some (model: {})", j.model.describe()),
                            ));
                        }
                    } else if j.model.deferred != 0 {
                        st.add("unjudged:terminates-in-ambiguous-state");
                    }
                }
            }
        }
    }
    Ok(())
}

// ------------------------------------------------------------------ running with panic capture, shrinking

struct Ctx {
    rep: Report,
    env: Env,
    rt: tokio::runtime::Runtime,
    global: GlobalHandle,
    st: Stats,
}

fn new_global() -> GlobalHandle {
    let (tx, _rx) = mpsc::unbounded_channel();
    let (bfd_tx, _bfd_rx) = mpsc::unbounded_channel();
    let mut g = Global::new(tx, bfd_tx);
    g.asn = 65001;
    g.router_id = Ipv4Addr::new(1, 0, 0, 1);
    Arc::new(tokio::sync::RwLock::new(g))
}

impl Ctx {
    fn exec(
        &mut self,
        cfg: &Cfg,
        ops: &[Op],
        want_trace: bool,
    ) -> Result<RunOut, (String, String)> {
        let global = self.global.clone();
        let env = &self.env;
        let rt = &self.rt;
        let st = &mut self.st;
        match guard(|| rt.block_on(run_ops(env, cfg, ops, global, st, want_trace))) {
            Ok(o) => Ok(o),
            Err(p) => {
                // state may be inconsistent after a panic: fresh global
                self.global = new_global();
                Err((
                    format!("C11/panic/{}:{}", p.location, panic_class(&p.message)),
                    p.message,
                ))
            }
        }
    }

    fn sig_of(&mut self, cfg: &Cfg, ops: &[Op]) -> Option<String> {
        match self.exec(cfg, ops, false) {
            Ok(o) => o.viol.map(|v| v.sig()),
            Err((sig, _)) => Some(sig),
        }
    }

    /// Run one case, record evidence, and on a violation shrink and report it.
    fn case(&mut self, cfg: &Cfg, ops: &[Op], origin: &str) {
        let r = self.exec(cfg, ops, false);
        let sig = match &r {
            Ok(o) => {
                self.rep.evals(o.judged.max(1));
                if o.nontrivial {
                    let mut key: Vec<u8> = Vec::with_capacity(8 + 4 * ops.len());
                    key.extend_from_slice(&cfg.helper);
                    key.extend_from_slice(&[cfg.timer as u8, cfg.shards, cfg.mode as u8]);
                    for op in ops {
                        match *op {
                            Op::Ev(Ev::Est(p, m)) => key.extend_from_slice(&[1, p, m]),
                            Op::Ev(Ev::Eor(p, f)) => key.extend_from_slice(&[2, p, f]),
                            Op::Ev(Ev::Wd(p)) => key.extend_from_slice(&[3, p]),
                            Op::Ev(Ev::Timer) => key.push(4),
                            Op::Ins(f, x, sr) => key.extend_from_slice(&[5, f, x, sr]),
                            Op::Sess => key.push(6),
                            Op::TDrop(p, h) => key.extend_from_slice(&[7, p, h as u8]),
                        }
                    }
                    self.rep.nontrivial(fnv64(&key));
                    self.st.add("sequences:nontrivial");
                }
                self.st.add("sequences");
                o.viol.as_ref().map(|v| v.sig())
            }
            Err((sig, _)) => {
                self.rep.eval();
                Some(sig.clone())
            }
        };
        if self.rep.want_sample()
            && sig.is_none()
            && r.as_ref().map(|o| o.nontrivial).unwrap_or(false)
            && self.rep.evaluations % 7 == 3
        {
            if let Ok(o) = self.exec(cfg, ops, true) {
                self.rep.sample(Json::obj(vec![
                    ("origin", Json::s(origin)),
                    ("config", cfg.json()),
                    ("trace", Json::strs(o.trace)),
                ]));
            }
        }
        let Some(sig) = sig else { return };
        if self.rep.has_violation(&sig) {
            self.rep.violation(&sig, "", Json::Null); // counts
            return;
        }
        // shrink: drop ops, then simplify the configuration, while the same signature fails
        let mut cfg = cfg.clone();
        let mut ops: Vec<Op> = ops.to_vec();
        let t0 = std::time::Instant::now();
        let mut progress = true;
        while progress && t0.elapsed().as_secs_f64() < 5.0 {
            progress = false;
            let mut i = ops.len();
            while i > 0 {
                i -= 1;
                let mut cand = ops.clone();
                cand.remove(i);
                if self.sig_of(&cfg, &cand).as_deref() == Some(sig.as_str()) {
                    ops = cand;
                    progress = true;
                }
            }
            let mut cands: Vec<Cfg> = Vec::new();
            if cfg.shards > 1 {
                cands.push(Cfg {
                    shards: 1,
                    ..cfg.clone()
                });
            }
            if cfg.mode == Mode::Session {
                cands.push(Cfg {
                    mode: Mode::Glue,
                    ..cfg.clone()
                });
            }
            for p in 0..NP {
                for f in 0..NF {
                    if cfg.helper[p] & (1 << f) != 0 {
                        let mut c = cfg.clone();
                        c.helper[p] &= !(1 << f);
                        cands.push(c);
                    }
                }
            }
            for c in cands {
                if self.sig_of(&c, &ops).as_deref() == Some(sig.as_str()) {
                    cfg = c;
                    progress = true;
                    break;
                }
            }
        }
        // shrink Est masks
        for i in 0..ops.len() {
            if let Op::Ev(Ev::Est(p, m)) = ops[i] {
                for f in 0..NF {
                    if m & (1 << f) != 0 {
                        let mut cand = ops.clone();
                        let cur = if let Op::Ev(Ev::Est(_, cm)) = cand[i] {
                            cm
                        } else {
                            m
                        };
                        if cur & (1 << f) == 0 {
                            continue;
                        }
                        cand[i] = Op::Ev(Ev::Est(p, cur & !(1 << f)));
                        if self.sig_of(&cfg, &cand).as_deref() == Some(sig.as_str()) {
                            ops = cand;
                        }
                    }
                }
            }
        }
        let (what, witness) = match self.exec(&cfg, &ops, true) {
            Ok(o) => {
                let v = o.viol.clone();
                let what = v
                    .as_ref()
                    .map(|v| v.what.clone())
                    .unwrap_or_else(|| "violation not reproduced after shrinking".into());
                (
                    what,
                    Json::obj(vec![
                        ("origin", Json::s(origin)),
                        ("config", cfg.json()),
                        ("replay_code", Json::s(replay_code(&cfg, &ops))),
                        ("ops", Json::strs(ops.iter().map(op_str))),
                        (
                            "events_only",
                            Json::strs(ops.iter().filter(|o| matches!(o, Op::Ev(_))).map(op_str)),
                        ),
                        (
                            "failing_step",
                            Json::Int(v.as_ref().map(|v| v.step as i128).unwrap_or(-1)),
                        ),
                        (
                            "observed",
                            Json::s(v.as_ref().map(|v| v.observed.clone()).unwrap_or_default()),
                        ),
                        (
                            "expected",
                            Json::s(v.as_ref().map(|v| v.expected.clone()).unwrap_or_default()),
                        ),
                        ("trace", Json::strs(o.trace)),
                    ]),
                )
            }
            Err((_, msg)) => (
                format!("panic: {}", msg),
                Json::obj(vec![
                    ("origin", Json::s(origin)),
                    ("config", cfg.json()),
                    ("ops", Json::strs(ops.iter().map(op_str))),
                    ("panic", Json::s(msg)),
                ]),
            ),
        };
        self.rep.violation(&sig, &what, witness);
    }
}

// ------------------------------------------------------------------ schedules

/// Deterministic interleaving for the exhaustive part: a prologue of inserts
/// (every family gets a route before the first event; one rotating family gets
/// a second path or a route on the other shard), one or two inserts after each
/// event, and an epilogue that probes every (deferred family, shard) and one
/// never-deferred family.  `variant` (a hash of the event sequence) rotates
/// which families / prefixes / sources / shards are used, so the enumeration
/// as a whole covers the combinations while each history stays short.
fn schedule(events: &[Ev], variant: u64, shards: u8, deferred: u8) -> Vec<Op> {
    let mut ops = Vec::with_capacity(24);
    let v = variant as usize;
    // prologue: one route per family (shard alternating with the variant), and a
    // second path / a route on the other shard for one rotating family
    for f in 0..NTF {
        ops.push(Op::Ins(
            f as u8,
            ((v >> f) & 1) as u8,
            ((v + f) % NSRC) as u8,
        ));
    }
    let mf = (v / 16) % NTF;
    let mx = if (v / 64) % 2 == 0 {
        (v >> mf) & 1
    } else {
        1 - ((v >> mf) & 1)
    };
    ops.push(Op::Ins(
        mf as u8,
        mx as u8,
        ((v + mf + 1 + (v / 128) % 3) % NSRC) as u8,
    ));
    // in one history out of four a new session establishes at one point
    // (after the prologue or after one of the events)
    let sess_at = if (v >> 20) & 3 == 0 {
        Some((v >> 22) % (events.len() + 1))
    } else {
        None
    };
    if sess_at == Some(0) {
        ops.push(Op::Sess);
    }
    let mut up = [false; NP];
    for (i, ev) in events.iter().enumerate() {
        match *ev {
            Ev::Est(p, _) => up[p as usize] = true,
            Ev::Wd(p) => {
                // the session (if one is up) first goes away on the table side
                if up[p as usize] {
                    ops.push(Op::TDrop(p, (v >> (12 + i)) & 3 == 0));
                    up[p as usize] = false;
                }
            }
            _ => {}
        }
        ops.push(Op::Ev(*ev));
        let f1 = (v + i) % NTF;
        ops.push(Op::Ins(
            f1 as u8,
            ((v / 2 + i) % NPFX) as u8,
            ((v / 8 + i) % NSRC) as u8,
        ));
        if (v >> (8 + i)) & 1 == 1 {
            let f2 = (f1 + 1 + (v / 4) % 3) % NTF;
            ops.push(Op::Ins(
                f2 as u8,
                ((v / 4 + i + 1) % NPFX) as u8,
                ((v + i + 1) % NSRC) as u8,
            ));
        }
        if sess_at == Some(i + 1) {
            ops.push(Op::Sess);
        }
    }
    // epilogue: every (deferred family, shard), and one never-deferred family
    let mut nondef_done = false;
    for f in 0..NTF {
        let def = f < NF && deferred & (1 << f) != 0;
        if !def {
            if nondef_done {
                continue;
            }
            nondef_done = true;
        }
        for s in 0..shards as usize {
            ops.push(Op::Ins(f as u8, (2 + s) as u8, ((v + f + s) % NSRC) as u8));
        }
    }
    ops
}

fn named_cfg(name: &str) -> [u8; NP] {
    match name {
        // every peer is a helper for every family
        "full" => [7, 7, 7],
        // p1 {ipv4,ipv6}, p2 {ipv4}, p3 is not a helper; vpnv4 is not deferred
        "asym" => [3, 1, 0],
        // p1 {ipv4}, p2 {ipv4,ipv6}, p3 {ipv6}
        "chain" => [1, 3, 2],
        // p1 {ipv4,vpnv4}, p2 {ipv6}, p3 {ipv6,vpnv4}
        "mixed" => [5, 2, 6],
        // single helper
        "single" => [3, 0, 0],
        _ => [7, 7, 7],
    }
}

fn restrict(mut h: [u8; NP], peers: usize, fams: usize) -> [u8; NP] {
    for p in 0..NP {
        if p >= peers {
            h[p] = 0;
        }
        h[p] &= (1u8 << fams) - 1;
    }
    h
}

/// All event sequences of length `depth` over the alphabet; the (first, second)
/// event pair selects the shard.
///
/// `sym`: when every peer has the same configuration, histories that differ
/// only by a renaming of the peers are run once (the representative mentions
/// the peers in the order p1, p2, p3); the others are counted as
/// `…:skipped-by-peer-symmetry`.  The unreduced enumeration is in the thorough tier.
fn run_exhaustive(
    ctx: &mut Ctx,
    cfgname: &str,
    depth: usize,
    peers: usize,
    fams: usize,
    shard: u64,
    nshards: u64,
    mode: Mode,
    sym: bool,
) -> bool {
    let alpha = alphabet(peers, fams);
    let n = alpha.len();
    let helper = restrict(named_cfg(cfgname), peers, fams);
    let sym = sym && (0..peers).all(|p| helper[p] == helper[0]);
    let mut skipped_sym = 0u64;
    let mut idx = vec![0usize; depth];
    let mut complete = true;
    let mut count = 0u64;
    'outer: loop {
        let key = if depth >= 2 {
            idx[0] * n + idx[1]
        } else {
            idx[0]
        };
        let canonical = !sym || {
            let mut next_new = 0u8;
            idx.iter().all(|i| {
                let p = match alpha[*i] {
                    Ev::Est(p, _) | Ev::Eor(p, _) | Ev::Wd(p) => p,
                    Ev::Timer => return true,
                };
                if p > next_new {
                    return false;
                }
                if p == next_new {
                    next_new += 1;
                }
                true
            })
        };
        if key as u64 % nshards == shard && !canonical {
            skipped_sym += 1;
        }
        if key as u64 % nshards == shard && canonical {
            let events: Vec<Ev> = idx.iter().map(|i| alpha[*i]).collect();
            let mut h = 0u64;
            for i in &idx {
                h = h.wrapping_mul(1_000_003).wrapping_add(*i as u64 + 1);
            }
            let variant = h ^ (h >> 13);
            let shards = 1 + (variant % 2) as u8;
            let cfg = Cfg {
                helper,
                timer: true,
                shards,
                mode,
            };
            let ops = schedule(&events, variant / 2, shards, cfg.deferred());
            ctx.case(&cfg, &ops, "exhaustive");
            count += 1;
            if count % 256 == 0 && !ctx.rep.in_budget() {
                complete = false;
                break 'outer;
            }
        }
        // odometer
        let mut d = depth;
        loop {
            if d == 0 {
                break 'outer;
            }
            d -= 1;
            idx[d] += 1;
            if idx[d] < n {
                break;
            }
            idx[d] = 0;
        }
    }
    ctx.rep.count_n(
        &format!(
            "exhaustive:{}:d{}:p{}f{}:{:?}:sequences",
            cfgname, depth, peers, fams, mode
        ),
        count,
    );
    if sym {
        ctx.rep.count_n(
            &format!(
                "exhaustive:{}:d{}:p{}f{}:{:?}:skipped-by-peer-symmetry",
                cfgname, depth, peers, fams, mode
            ),
            skipped_sym,
        );
    }
    if complete {
        ctx.rep.count(&format!(
            "exhaustive:{}:d{}:p{}f{}:{:?}:complete-shards",
            cfgname, depth, peers, fams, mode
        ));
    }
    complete
}

fn random_cfg(rng: &mut Rng) -> Cfg {
    let mut helper = [0u8; NP];
    for p in 0..NP {
        helper[p] = if rng.chance(1, 6) {
            0
        } else {
            rng.range(1, 7) as u8
        };
    }
    if rng.chance(1, 3) {
        let names: [&str; 5] = ["full", "asym", "chain", "mixed", "single"];
        helper = named_cfg(names[rng.usize(names.len())]);
    }
    Cfg {
        helper,
        timer: rng.chance(5, 6),
        shards: [1u8, 2, 2, 4][rng.usize(4)],
        mode: if rng.chance(1, 2) {
            Mode::Session
        } else {
            Mode::Glue
        },
    }
}

fn random_ops(rng: &mut Rng, cfg: &Cfg, alpha: &[Ev], nev: usize) -> Vec<Op> {
    let mut ops = Vec::new();
    let ins = |rng: &mut Rng, ops: &mut Vec<Op>| {
        ops.push(Op::Ins(
            rng.below(NTF as u64) as u8,
            rng.below(NPFX as u64) as u8,
            rng.below(NSRC as u64) as u8,
        ));
    };
    for _ in 0..rng.range(0, 8) {
        ins(rng, &mut ops);
    }
    // the driver's view of each peer's session, for "realistic" choices
    let mut neg: [Option<u8>; NP] = [None; NP];
    let mut up = [false; NP];
    for _ in 0..nev {
        let ev = if rng.chance(1, 2) {
            *rng.pick(alpha)
        } else {
            let p = rng.below(NP as u64) as usize;
            match neg[p] {
                None => {
                    let m = if rng.chance(1, 8) {
                        0
                    } else if rng.chance(3, 4) {
                        cfg.helper[p] & rng.range(0, 7) as u8
                    } else {
                        rng.range(0, 7) as u8
                    };
                    Ev::Est(p as u8, m)
                }
                Some(m) => {
                    let fs: Vec<u8> = (0..NF as u8).filter(|f| m & (1 << f) != 0).collect();
                    if rng.chance(1, 30) {
                        Ev::Timer
                    } else if !fs.is_empty() && rng.chance(3, 4) {
                        Ev::Eor(p as u8, *rng.pick(&fs))
                    } else {
                        Ev::Wd(p as u8)
                    }
                }
            }
        };
        match ev {
            Ev::Est(p, m) => {
                neg[p as usize] = Some(m);
                up[p as usize] = true;
            }
            Ev::Wd(p) => {
                neg[p as usize] = None;
                if up[p as usize] && rng.chance(9, 10) {
                    ops.push(Op::TDrop(p, rng.chance(1, 3)));
                    up[p as usize] = false;
                }
            }
            _ => {}
        }
        ops.push(Op::Ev(ev));
        for _ in 0..rng.below(3) {
            ins(rng, &mut ops);
        }
        if rng.chance(1, 12) {
            ops.push(Op::Sess);
        }
    }
    // epilogue: every (family, shard)
    for f in 0..NTF {
        for s in 0..cfg.shards as usize {
            ops.push(Op::Ins(
                f as u8,
                if cfg.shards > 2 {
                    s as u8
                } else {
                    (rng.below(2) * 2) as u8 + s as u8
                },
                rng.below(NSRC as u64) as u8,
            ));
        }
    }
    ops
}

fn run_random(ctx: &mut Ctx, rng: &mut Rng, count: u64) {
    let alpha = alphabet(NP, NF);
    let mut done = 0u64;
    while done < count && ctx.rep.in_budget() {
        let cfg = random_cfg(rng);
        let nev = rng.range(1, 40) as usize;
        let ops = random_ops(rng, &cfg, &alpha, nev);
        ctx.case(&cfg, &ops, "random");
        ctx.rep.count(if cfg.mode == Mode::Session {
            "random:session-mode"
        } else {
            "random:glue-mode"
        });
        ctx.rep.count(match cfg.shards {
            1 => "random:1-shard",
            2 => "random:2-shards",
            _ => "random:4-shards",
        });
        if !cfg.timer {
            ctx.rep.count("random:timer-disabled");
        }
        done += 1;
    }
    ctx.rep.count_n("random:sequences", done);
}

// ------------------------------------------------------------------ early-session scenario (consequence of the initial dump)

/// A session establishes (real `on_established`) while ipv4 is held with two
/// prefixes in the table, stays up, and the family is then released
/// (`variant` 0: both helpers drop, 1: they re-establish and send EOR, 2: timer).
/// Returns what the session was sent by the initial dump and what it was sent
/// when the release reached it through its peer channel
/// (`handle_prefix_update`, as run_select does).
async fn early_session_scenario(
    env: &Env,
    global: GlobalHandle,
    variant: u8,
    shards: u8,
) -> (Vec<(u8, u8)>, Vec<(u8, u8)>, Vec<String>) {
    let cfg = Cfg {
        helper: [1, 1, 0],
        timer: true,
        shards,
        mode: Mode::Glue,
    };
    let mut sys = Sys::start(env, &cfg, global, None).await;
    let mut hist = vec![
        "insert_route(ipv4, prefix#0, from src1)".to_string(),
        "insert_route(ipv4, prefix#1, from src2)".to_string(),
    ];
    sys.insert(0, 0, 0, 1);
    sys.insert(0, 1, 1, 2);
    let _ = sys.drain();
    let mut s = establish_session(&sys.tables).await;
    hist.push("new session established (real PeerSession::on_established), stays up".into());
    let dump = drain_session_reach(env, &mut s);
    let evs: Vec<Ev> = match variant {
        0 => vec![Ev::Wd(0), Ev::Wd(1)],
        1 => vec![Ev::Est(0, 1), Ev::Est(1, 1), Ev::Eor(0, 0), Ev::Eor(1, 0)],
        _ => vec![Ev::Est(0, 1), Ev::Timer],
    };
    for ev in &evs {
        hist.push(op_str(&Op::Ev(*ev)));
        sys.feed(ev, None).await;
    }
    deliver_session_events(&mut s);
    let at_release = drain_session_reach(env, &mut s);
    sys.tables.unregister_peer(NEW_SESSION_ADDR, &[], &[]);
    drop(s);
    sys.finish().await;
    (dump, at_release, hist)
}

fn run_early_session_scenarios(ctx: &mut Ctx) {
    for variant in 0..3u8 {
        for shards in 1..=2u8 {
            let g = ctx.global.clone();
            let env = &ctx.env;
            let rt = &ctx.rt;
            let r = guard(|| rt.block_on(early_session_scenario(env, g, variant, shards)));
            ctx.rep.eval();
            let (dump, at_release, hist) = match r {
                Ok(x) => x,
                Err(p) => {
                    ctx.global = new_global();
                    let sig = format!("C11/panic/{}:{}", p.location, panic_class(&p.message));
                    ctx.rep.violation(
                        &sig,
                        &format!("early-session scenario panicked: {}", p.message),
                        Json::obj(vec![("scenario", Json::Int(variant as i128))]),
                    );
                    continue;
                }
            };
            ctx.rep.count("early-session:scenarios");
            let witness = Json::obj(vec![
                ("origin", Json::s("early-session scenario")),
                ("config", Json::s("helpers p1:{ipv4} p2:{ipv4}, timer on")),
                ("table_shards", Json::Int(shards as i128)),
                ("history", Json::strs(hist.clone())),
                ("sent_by_initial_dump", Json::s(sent_str(&dump))),
                ("sent_at_release", Json::s(sent_str(&at_release))),
            ]);
            if dump.iter().any(|e| e.0 == 0) {
                ctx.rep.violation(
                    "C11/held/initial-dump/held-family-sent-to-new-session",
                    "a peer that established while ipv4 is still deferred was sent that family's held routes in its initial dump",
                    witness.clone(),
                );
            } else {
                ctx.rep.count("early-session:dump-withheld");
            }
            for x in 0..2u8 {
                let n = dump
                    .iter()
                    .chain(at_release.iter())
                    .filter(|e| **e == (0, x))
                    .count();
                match n {
                    1 => ctx.rep.count("early-session:prefix-announced-once"),
                    0 => ctx.rep.violation(
                        "C11/exactly-once/initial-dump/held-prefix-never-sent-to-early-session",
                        "a session that established during the deferral was never sent a prefix received meanwhile, not even at release",
                        witness.clone(),
                    ),
                    _ => ctx.rep.violation(
                        "C11/exactly-once/initial-dump/held-prefix-sent-again-at-release",
                        "a session that established during the deferral was sent a held prefix in its initial dump and again when the family was released",
                        witness.clone(),
                    ),
                }
            }
        }
    }
}

// ------------------------------------------------------------------ concurrent part

const CONC_FAMS: [usize; 3] = [0, 1, 3]; // ipv4, ipv6 deferred; vpnv6 never deferred
const CONC_NPFX: usize = 8;

/// Prefixes for the concurrent trials: `data[f][x]`, and one probe prefix per
/// (family, shard), found by asking a real (non-deferring) TableManager.
struct ConcPool {
    shards: usize,
    data: Vec<Vec<packet::Nlri>>,
    probe: Vec<Vec<packet::Nlri>>,
    /// nlri -> (family, index); probes have index 100 + shard
    index: FnvHashMap<packet::Nlri, (u8, u8)>,
}

impl ConcPool {
    fn new(env: &Env, shards: usize) -> ConcPool {
        let scratch = TableManager::new(shards);
        let mut data = vec![Vec::new(); NTF];
        let mut probe = vec![Vec::new(); NTF];
        let mut index = FnvHashMap::default();
        for &f in &CONC_FAMS {
            let mut per_shard: Vec<Option<packet::Nlri>> = vec![None; shards];
            let mut k = 100u32;
            while (data[f].len() < CONC_NPFX || per_shard.iter().any(|p| p.is_none())) && k < 250 {
                let n = cand_nlri(f, k);
                k += 1;
                if data[f].len() < CONC_NPFX {
                    index.insert(n.clone(), (f as u8, data[f].len() as u8));
                    data[f].push(n);
                    continue;
                }
                scratch.insert_route(
                    env.sources[0].clone(),
                    fam_of(f),
                    packet::PathNlri::new(n.clone()),
                    Some(env.nh[f]),
                    mk_attrs(0),
                    None,
                    0,
                );
                for sh in 0..shards {
                    let t = scratch.shards[sh].lock().unwrap();
                    if per_shard[sh].is_none()
                        && t.rtable
                            .collect_loc_rib_paths(&fam_of(f))
                            .iter()
                            .any(|c| c.net == n)
                    {
                        index.insert(n.clone(), (f as u8, 100 + sh as u8));
                        per_shard[sh] = Some(n.clone());
                    }
                }
            }
            probe[f] = per_shard.into_iter().flatten().collect();
        }
        ConcPool {
            shards,
            data,
            probe,
            index,
        }
    }
}

#[derive(Clone, Copy, Debug)]
struct SessOp {
    /// the thread's session ends on the table side (unregister_peer + peer_down)
    /// and a new session (new Source) carries on; Some(hard)
    drop: Option<bool>,
    insert: bool,
    f: u8,
    x: u8,
    tag: u32,
}

/// The last step(s) of the deferral, through the glue, on the releasing thread.
async fn glue_feed_final(
    global: &GlobalHandle,
    tables: &TableHandle,
    peers: &[IpAddr; NSRC],
    ev: &Ev,
) {
    match *ev {
        Ev::Timer => gr_selection_deferral_timer_expired(global.clone(), tables.clone()).await,
        Ev::Wd(p) => {
            let rd_outputs = {
                let mut server = global.write().await;
                if let Some(rd) = &mut server.selection_deferral {
                    rd.process(RestartingInput::PeerWithdrawn(peers[p as usize]))
                } else {
                    vec![]
                }
            };
            let _ = process_restarting_outputs(rd_outputs, global, tables).await;
        }
        Ev::Eor(p, f) => {
            let rd_outputs = {
                let mut server = global.write().await;
                if let Some(rd) = &mut server.selection_deferral {
                    rd.process(RestartingInput::EorReceived(
                        peers[p as usize],
                        fam_of(f as usize),
                    ))
                } else {
                    vec![]
                }
            };
            let _ = process_restarting_outputs(rd_outputs, global, tables).await;
        }
        Ev::Est(..) => {}
    }
}

type ConcChange = (u8, u8, Vec<(u8, u32)>);

fn conc_decode(
    env: &Env,
    pool: &ConcPool,
    rx: &mut mpsc::UnboundedReceiver<ToPeerEvent>,
    out: &mut Vec<ConcChange>,
) {
    while let Ok(ev) = rx.try_recv() {
        if let ToPeerEvent::NlriChange(c) = ev {
            let (f, x) = pool.index.get(&c.net).copied().unwrap_or((99, 99));
            out.push((f, x, conc_paths(env, &c.current_paths)));
        }
    }
}

fn conc_paths(env: &Env, paths: &[table::Path]) -> Vec<(u8, u32)> {
    let mut v: Vec<(u8, u32)> = paths
        .iter()
        .map(|p| {
            let src = (0..NSRC)
                .find(|i| env.peers[*i] == p.source.remote_addr)
                .unwrap_or(99) as u8;
            let tag = p
                .attr
                .iter()
                .find(|a| a.code() == packet::Attribute::MULTI_EXIT_DESC)
                .and_then(|a| a.value())
                .unwrap_or(u32::MAX);
            (src, tag)
        })
        .collect();
    v.sort();
    v
}

fn paths_str(p: &[(u8, u32)]) -> String {
    format!(
        "[{}]",
        p.iter()
            .map(|(s, t)| format!("src{}/med{}", s + 1, t))
            .collect::<Vec<_>>()
            .join(",")
    )
}

/// One concurrent trial.  Everything random derives from `tseed`.
fn conc_trial(ctx: &mut Ctx, pools: &[ConcPool], tseed: u64) {
    let mut r = Rng::new(tseed ^ 0xC0C0);
    let pool = &pools[r.usize(pools.len())];
    let shards = pool.shards;
    let kind = r.below(3); // how the deferral ends
    let final_events: Vec<Ev> = match kind {
        0 => vec![Ev::Wd(1)],
        1 => {
            if r.bool() {
                vec![Ev::Eor(1, 0), Ev::Eor(1, 1)]
            } else {
                vec![Ev::Eor(1, 1), Ev::Eor(1, 0)]
            }
        }
        _ => vec![Ev::Timer],
    };
    let evk: &'static str = match kind {
        0 => "withdrawn",
        1 => "eor",
        _ => "timer",
    };
    let cfg = Cfg {
        helper: [3, 3, 0],
        timer: true,
        shards: shards as u8,
        mode: Mode::Glue,
    };

    // ---- sequential part: startup, routes received meanwhile, both helpers back, p1 done
    let mut pre: Vec<Vec<BTreeMap<u8, u32>>> = (0..NTF)
        .map(|_| (0..CONC_NPFX).map(|_| BTreeMap::new()).collect())
        .collect();
    let mut tag = 1u32;
    let mut plan_pre: Vec<(u8, u8, u8, u32)> = Vec::new();
    for &f in &CONC_FAMS {
        for x in 0..CONC_NPFX {
            if r.chance(3, 4) {
                let s = r.below(2) as u8;
                plan_pre.push((f as u8, x as u8, s, tag));
                pre[f][x].insert(s, tag);
                tag += 1;
                if r.chance(1, 4) {
                    plan_pre.push((f as u8, x as u8, 2, tag));
                    pre[f][x].insert(2, tag);
                    tag += 1;
                }
            }
        }
    }
    // session threads: few hot prefixes, so they hit destinations the release is handing out
    let nsess = 1 + r.usize(2);
    let hot: Vec<u8> = (0..3).map(|_| r.below(CONC_NPFX as u64) as u8).collect();
    let mut plans: Vec<Vec<SessOp>> = Vec::new();
    for t in 0..nsess {
        let n = r.range(4, 10) as usize;
        let mut ops = Vec::new();
        for i in 0..n {
            let f = if r.chance(1, 6) { 3 } else { r.below(2) as u8 };
            ops.push(SessOp {
                drop: None,
                insert: r.chance(7, 10),
                f,
                x: *r.pick(&hot),
                tag: 10_000 * (t as u32 + 1) + i as u32,
            });
        }
        if r.chance(1, 4) {
            // one session flap somewhere in the plan
            let at = r.usize(ops.len());
            ops.insert(
                at,
                SessOp {
                    drop: Some(r.chance(1, 2)),
                    insert: false,
                    f: 0,
                    x: 0,
                    tag: 0,
                },
            );
        }
        plans.push(ops);
    }
    let delays: Vec<u64> = (0..=nsess)
        .map(|i| if i == 0 { r.below(300) } else { r.below(120) })
        .collect();
    let intensity = r.range(40, 95) as u32;

    let global = ctx.global.clone();
    let env = &ctx.env;
    let rt = &ctx.rt;
    let setup = guard(|| {
        rt.block_on(async {
            let mut sys = Sys::start(env, &cfg, global.clone(), None).await;
            for &(f, x, s, tg) in &plan_pre {
                let _ = sys.tables.insert_route(
                    sys.cur_src[s as usize].clone(),
                    fam_of(f as usize),
                    packet::PathNlri::new(pool.data[f as usize][x as usize].clone()),
                    Some(env.nh[f as usize]),
                    mk_attrs(tg),
                    None,
                    0,
                );
            }
            for ev in [Ev::Est(0, 3), Ev::Est(1, 3), Ev::Eor(0, 0), Ev::Eor(0, 1)] {
                sys.feed(&ev, None).await;
            }
            sys
        })
    });
    let mut sys = match setup {
        Ok(s) => s,
        Err(p) => {
            ctx.global = new_global();
            ctx.rep.violation(
                &format!("C11/panic/{}:{}", p.location, panic_class(&p.message)),
                &format!("concurrent trial setup panicked: {}", p.message),
                Json::obj(vec![("conc_seed", Json::s(format!("{}", tseed)))]),
            );
            return;
        }
    };
    let mut stream: Vec<ConcChange> = Vec::new();
    conc_decode(env, pool, &mut sys.rx, &mut stream);
    let held_leak = stream.iter().any(|c| c.0 < 2);

    // ---- concurrent part
    let rel_state = Arc::new(AtomicU8::new(0));
    let barrier = Arc::new(std::sync::Barrier::new(nsess + 1));
    crate::verif_hooks::install(tseed, intensity);
    let mut handles = Vec::new();
    {
        let (global, tables, peers, fe, rs, b, d) = (
            sys.global.clone(),
            sys.tables.clone(),
            env.peers,
            final_events.clone(),
            rel_state.clone(),
            barrier.clone(),
            delays[0],
        );
        handles.push(std::thread::spawn(move || {
            guard(move || {
                crate::verif_hooks::set_thread_id(1);
                let rt = tokio::runtime::Builder::new_current_thread()
                    .enable_time()
                    .build()
                    .expect("rt");
                b.wait();
                let t0 = std::time::Instant::now();
                while (t0.elapsed().as_micros() as u64) < d {
                    std::hint::spin_loop();
                }
                rs.store(1, Ordering::SeqCst);
                rt.block_on(async {
                    for ev in &fe {
                        glue_feed_final(&global, &tables, &peers, ev).await;
                    }
                });
                rs.store(2, Ordering::SeqCst);
                (0u64, 0u64)
            })
        }));
    }
    for t in 0..nsess {
        let (tables, src0, ops, rs, b, d) = (
            sys.tables.clone(),
            sys.cur_src[t].clone(),
            plans[t].clone(),
            rel_state.clone(),
            barrier.clone(),
            delays[t + 1],
        );
        let nlri: Vec<Vec<packet::Nlri>> = pool.data.clone();
        let nh = env.nh.clone();
        let peers = env.peers;
        // the session's own peer channel (registered under a separate address so
        // that the flap below does not remove it): lets the thread see, right after
        // each of its operations, what has been announced so far
        let mut own_rx = sys.tables.register_peer(
            IpAddr::V4(Ipv4Addr::new(10, 0, 0, 60 + t as u8)),
            FnvHashSet::default(),
            |_| {},
        );
        handles.push(std::thread::spawn(move || {
            guard(move || {
                crate::verif_hooks::set_thread_id(10 + t as u32);
                let mut src = src0;
                b.wait();
                let t0 = std::time::Instant::now();
                while (t0.elapsed().as_micros() as u64) < d {
                    std::hint::spin_loop();
                }
                let mut during = 0u64;
                let mut early = 0u64;
                for op in &ops {
                    let s0 = rs.load(Ordering::SeqCst);
                    if let Some(hard) = op.drop {
                        // both helpers negotiated GR for ipv4 + ipv6; vpnv6 has no GR
                        let all = [Family::IPV4, Family::IPV6, Family::IPV6_VPN];
                        let (dropf, stale): (&[Family], &[Family]) = if hard {
                            (&all[..], &[])
                        } else {
                            (&all[2..], &all[..2])
                        };
                        tables.unregister_peer(peers[t], dropf, stale);
                        tables.peer_down(crate::table_manager::PeerDownData {
                            peer_addr: peers[t],
                            peer_asn: 65100 + t as u32,
                            peer_id: u32::from(Ipv4Addr::new(2, 0, 0, 1 + t as u8)),
                            uptime: 0,
                            reason: crate::bmp::session_down_to_bmp(None),
                        });
                        src = new_source(&peers, t);
                    } else {
                        let net = packet::PathNlri::new(nlri[op.f as usize][op.x as usize].clone());
                        if op.insert {
                            let _ = tables.insert_route(
                                src.clone(),
                                fam_of(op.f as usize),
                                net,
                                Some(nh[op.f as usize]),
                                mk_attrs(op.tag),
                                None,
                                0,
                            );
                        } else {
                            tables.remove_route(src.clone(), fam_of(op.f as usize), net, None, 0);
                        }
                    }
                    // anything of a deferred family that is in the channel while the
                    // release has not even started was announced too early
                    let mut got_deferred = 0u64;
                    while let Ok(ev) = own_rx.try_recv() {
                        if let ToPeerEvent::NlriChange(c) = ev
                            && (c.family == Family::IPV4 || c.family == Family::IPV6)
                        {
                            got_deferred += 1;
                        }
                    }
                    let s1 = rs.load(Ordering::SeqCst);
                    if s1 == 0 {
                        early += got_deferred;
                    }
                    if s0 == 1 || s1 == 1 || (s0 == 0 && s1 == 2) {
                        during += 1;
                    }
                }
                (during, early)
            })
        }));
    }
    let mut during_total = 0u64;
    let mut early_total = 0u64;
    let mut panicked: Option<String> = None;
    for h in handles {
        match h.join() {
            Ok(Ok((n, e))) => {
                during_total += n;
                early_total += e;
            }
            Ok(Err(p)) => {
                panicked = Some(format!(
                    "C11/panic/{}:{}|{}",
                    p.location,
                    panic_class(&p.message),
                    p.message
                ))
            }
            Err(_) => panicked = Some("C11/panic/?:other|thread join failed".to_string()),
        }
    }
    let (hits, log) = crate::verif_hooks::uninstall();
    conc_decode(env, pool, &mut sys.rx, &mut stream);

    // session ops that ran between two shard releases of one end_deferral_families call
    let mut between = 0u64;
    let mut seen8 = false;
    let mut pending_ops = 0u64;
    for (_tid, id) in &log {
        match *id {
            8 => {
                if seen8 {
                    between += pending_ops;
                }
                seen8 = true;
                pending_ops = 0;
            }
            1 | 2 => {
                if seen8 {
                    pending_ops += 1;
                }
            }
            _ => {}
        }
    }
    let log_hash = {
        let mut b = Vec::with_capacity(log.len() * 3 + 8);
        b.extend_from_slice(&tseed.to_le_bytes());
        for (t, i) in &log {
            b.push(*t as u8);
            b.extend_from_slice(&i.to_le_bytes());
        }
        fnv64(&b)
    };

    let witness = |what: &str, detail: String, stream: &[ConcChange]| -> Json {
        Json::obj(vec![
            ("origin", Json::s("concurrent")),
            ("conc_seed", Json::s(format!("{}", tseed))),
            (
                "replay",
                Json::s(format!(
                    "VERIF_PART=conc VERIF_CONC_SEED={} (best effort: re-applies the same plan and delay seed)",
                    tseed
                )),
            ),
            ("table_shards", Json::Int(shards as i128)),
            (
                "deferral_ended_by",
                Json::strs(final_events.iter().map(|e| op_str(&Op::Ev(*e)))),
            ),
            (
                "held_before_release",
                Json::strs(plan_pre.iter().map(|(f, x, s, t)| {
                    format!("{}#{} src{}/med{}", FAM_NAME[*f as usize], x, s + 1, t)
                })),
            ),
            (
                "session_threads",
                Json::arr(plans.iter().enumerate().map(|(t, ops)| {
                    Json::strs(
                        ops.iter()
                            .map(|o| match o.drop {
                                Some(hard) => format!(
                                    "session of src{} ends on the table side ({}), new session",
                                    t + 1,
                                    if hard {
                                        "all families dropped"
                                    } else {
                                        "ipv4/ipv6 marked stale, vpnv6 dropped"
                                    }
                                ),
                                None => format!(
                                    "{} {}#{} src{}/med{}",
                                    if o.insert { "insert" } else { "remove" },
                                    FAM_NAME[o.f as usize],
                                    o.x,
                                    t + 1,
                                    o.tag
                                ),
                            })
                            .collect::<Vec<_>>(),
                    )
                })),
            ),
            ("what", Json::s(what)),
            ("detail", Json::s(detail)),
            (
                "channel",
                Json::strs(stream.iter().map(|(f, x, p)| {
                    format!(
                        "{}#{} {}",
                        FAM_NAME.get(*f as usize).copied().unwrap_or("?"),
                        x,
                        paths_str(p)
                    )
                })),
            ),
            (
                "sched_log",
                Json::s(
                    log.iter()
                        .take(200)
                        .map(|(t, i)| format!("{}:{}", t, i))
                        .collect::<Vec<_>>()
                        .join(" "),
                ),
            ),
        ])
    };

    ctx.rep.eval();
    ctx.rep.count("conc:trials");
    ctx.rep.count(if shards == 2 {
        "conc:trials-2-shards"
    } else {
        "conc:trials-4-shards"
    });
    ctx.rep.count(match kind {
        0 => "conc:ended-by-withdrawn",
        1 => "conc:ended-by-eor",
        _ => "conc:ended-by-timer",
    });
    ctx.rep.count_n(
        "conc:session-ops",
        plans.iter().map(|p| p.len() as u64).sum(),
    );
    ctx.rep.count_n(
        "conc:session-flaps",
        plans
            .iter()
            .map(|p| p.iter().filter(|o| o.drop.is_some()).count() as u64)
            .sum(),
    );
    ctx.rep
        .count_n("conc:session-ops-during-release", during_total);
    ctx.rep
        .count_n("conc:session-ops-between-shard-releases", between);
    ctx.rep.max("conc-sched-point-hits", hits);
    if during_total > 0 {
        ctx.rep.count("conc:overlapping-trials");
        ctx.rep.nontrivial(log_hash);
    }

    if let Some(p) = panicked {
        let (sig, msg) = p.split_once('|').unwrap_or((&p, ""));
        ctx.rep.violation(
            sig,
            &format!("a thread of the concurrent trial panicked: {}", msg),
            witness("panic", msg.to_string(), &stream),
        );
        ctx.global = new_global();
        return;
    }
    if early_total > 0 {
        ctx.rep.violation(
            &format!("C11/held/{}/conc-announced-before-the-release-started", evk),
            "a session thread found an NlriChange of a deferred family on its peer channel while the step that ends the deferral had not started yet",
            witness("held (concurrent)", format!("{} such NlriChanges", early_total), &stream),
        );
        sys_finish(ctx, sys);
        return;
    }
    if held_leak {
        ctx.rep.violation(
            "C11/held/insert/conc-announced-before-threads-started",
            "a deferred family was announced during the sequential setup of a concurrent trial",
            witness("held", String::new(), &stream),
        );
    }

    // ---- quiescence: ground truth from the RIB's own read accessor
    let mut rib: BTreeMap<(u8, u8), Vec<(u8, u32)>> = BTreeMap::new();
    for sh in 0..shards {
        let t = sys.tables.shards[sh].lock().unwrap();
        for &f in &CONC_FAMS {
            for c in t.rtable.collect_loc_rib_paths(&fam_of(f)) {
                if let Some(&(ff, x)) = pool.index.get(&c.net) {
                    rib.insert((ff, x), conc_paths(env, &c.current_paths));
                }
            }
        }
    }
    // what the sessions' own order implies (each thread owns one source)
    let mut expect = pre.clone();
    let mut touched: std::collections::BTreeSet<(u8, u8)> = Default::default();
    for (t, ops) in plans.iter().enumerate() {
        for o in ops {
            if let Some(hard) = o.drop {
                for &f in &CONC_FAMS {
                    for x in 0..CONC_NPFX {
                        if expect[f][x].contains_key(&(t as u8)) {
                            touched.insert((f as u8, x as u8));
                            if hard || f == 3 {
                                expect[f][x].remove(&(t as u8));
                            }
                        }
                    }
                }
                continue;
            }
            touched.insert((o.f, o.x));
            if o.insert {
                expect[o.f as usize][o.x as usize].insert(t as u8, o.tag);
            } else {
                expect[o.f as usize][o.x as usize].remove(&(t as u8));
            }
        }
    }
    let mut judged = 0u64;
    for &f in &CONC_FAMS {
        for x in 0..CONC_NPFX {
            let key = (f as u8, x as u8);
            let now = rib.get(&key).cloned().unwrap_or_default();
            let mut want: Vec<(u8, u32)> = expect[f][x].iter().map(|(s, t)| (*s, *t)).collect();
            want.sort();
            if now != want {
                ctx.rep
                    .count("unjudged:conc-rib-differs-from-per-thread-order");
            }
            let anns: Vec<&ConcChange> = stream.iter().filter(|c| (c.0, c.1) == key).collect();
            // (a) the last thing the peer channel was told is what the RIB holds now
            let last = anns.last().map(|c| c.2.clone()).unwrap_or_default();
            judged += 1;
            if last != now {
                let fact = "last-announcement-is-not-the-rib-state";
                ctx.rep.violation(
                    &format!("C11/conc-final-view/{}/{}", evk, fact),
                    "after a release that ran concurrently with route changes, the last NlriChange a registered peer received for a prefix is not what the table holds",
                    witness("final view", format!("{}#{}: last told {} (of {} announcements), RIB holds {}", FAM_NAME[f], x, paths_str(&last), anns.len(), paths_str(&now)), &stream),
                );
                sys_finish(ctx, sys);
                return;
            }
            ctx.rep.count("conc:final-view-prefixes-agree");
            // (b) received before the end of deferral and not touched by a session thread: exactly once
            if f < 2 && !touched.contains(&key) && !pre[f][x].is_empty() {
                judged += 1;
                if anns.len() != 1 || anns[0].2 != now {
                    let fact = if anns.is_empty() {
                        "conc-untouched-prefix-not-announced"
                    } else if anns.len() > 1 {
                        "conc-untouched-prefix-announced-again"
                    } else {
                        "conc-untouched-prefix-wrong-paths"
                    };
                    ctx.rep.violation(
                        &format!("C11/exactly-once/{}/{}", evk, fact),
                        "a prefix received during the deferral and not touched by any concurrent change was not announced exactly once with its path list",
                        witness("exactly once", format!("{}#{}: {} announcements, RIB holds {}", FAM_NAME[f], x, anns.len(), paths_str(&now)), &stream),
                    );
                    sys_finish(ctx, sys);
                    return;
                }
                ctx.rep.count("conc:untouched-prefix-announced-once");
            } else if f < 2 && anns.len() > 1 {
                ctx.rep
                    .count("conc:touched-prefix-announced-more-than-once");
            }
        }
    }
    if stream.iter().any(|c| c.0 == 99) {
        ctx.rep.violation(
            &format!("C11/exactly-once/{}/conc-unknown-prefix-announced", evk),
            "an NlriChange for a prefix nobody inserted",
            witness("unknown prefix", String::new(), &stream),
        );
    }
    // (c) restarting state cleared, no shard still deferring (probe insert per shard)
    let flag = rt.block_on(async { sys.global.read().await.selection_deferral.is_some() });
    judged += 1;
    if flag {
        ctx.rep.violation(
            &format!("C11/terminates/{}/conc-flag-not-cleared", evk),
            "the deferral ended but Global.selection_deferral is still set",
            witness("flag", String::new(), &stream),
        );
    }
    for f in 0..2usize {
        for (sh, n) in pool.probe[f].iter().enumerate() {
            let _ = sys.tables.insert_route(
                env.sources[3].clone(),
                fam_of(f),
                packet::PathNlri::new(n.clone()),
                Some(env.nh[f]),
                mk_attrs(9),
                None,
                0,
            );
            let mut got = Vec::new();
            conc_decode(env, pool, &mut sys.rx, &mut got);
            judged += 1;
            if got.is_empty() {
                ctx.rep.violation(
                    &format!("C11/terminates/{}/conc-shard-still-deferring", evk),
                    "after the deferral ended an insert is still suppressed on one shard",
                    witness(
                        "shard flag",
                        format!("{} probe on shard {}", FAM_NAME[f], sh),
                        &stream,
                    ),
                );
                sys_finish(ctx, sys);
                return;
            }
            ctx.rep.count("conc:shard-probes-announced");
        }
    }
    ctx.rep.evals(judged);
    if ctx.rep.want_sample() && during_total > 0 && between > 0 {
        ctx.rep.sample(witness(
            "sample (no violation)",
            format!(
                "{} session ops overlapped the release, {} between shard releases",
                during_total, between
            ),
            &stream,
        ));
    }
    sys_finish(ctx, sys);
}

fn sys_finish(ctx: &Ctx, sys: Sys<'_>) {
    ctx.rt.block_on(sys.finish());
}

fn run_concurrent(ctx: &mut Ctx, rng: &mut Rng, count: u64, fixed_seed: Option<u64>) {
    let pools = vec![ConcPool::new(&ctx.env, 2), ConcPool::new(&ctx.env, 4)];
    let mut done = 0u64;
    while done < count && ctx.rep.in_budget() {
        let tseed = fixed_seed.unwrap_or_else(|| rng.next_u64());
        conc_trial(ctx, &pools, tseed);
        done += 1;
    }
}

// ------------------------------------------------------------------ machine-only exhaustive (full alphabet, deeper)

/// The bare `RestartingDeferral` against the same model, judged on its output
/// lists and `is_completed()` (the property's `observe_at`).  Used to reach
/// depth 5 over the full 3×3 alphabet, which the coupled runs cannot afford.
fn run_machine(ctx: &mut Ctx, cfgname: &str, depth: usize, shard: u64, nshards: u64) -> bool {
    let alpha = alphabet(NP, NF);
    let n = alpha.len();
    let cfg = Cfg {
        helper: named_cfg(cfgname),
        timer: true,
        shards: 1,
        mode: Mode::Glue,
    };
    let peers = ctx.env.peers;
    let mut idx = vec![0usize; depth];
    let mut complete = true;
    let mut count = 0u64;
    let mut judged = 0u64;
    'outer: loop {
        let key = if depth >= 2 {
            idx[0] * n + idx[1]
        } else {
            idx[0]
        };
        if key as u64 % nshards == shard {
            let events: Vec<Ev> = idx.iter().map(|i| alpha[*i]).collect();
            let r = guard(|| machine_case(&cfg, &peers, &events));
            count += 1;
            let v = match r {
                Ok((v, jn, nt, unj)) => {
                    judged += jn;
                    if nt {
                        ctx.st.add("machine:nontrivial");
                    }
                    ctx.st.add_n(
                        "unjudged:machine-signal-for-released-or-nondeferred-family",
                        unj,
                    );
                    v.map(|v| {
                        (
                            v.sig(),
                            v.what.clone(),
                            v.observed.clone(),
                            v.expected.clone(),
                            v.step as i128,
                        )
                    })
                }
                Err(p) => Some((
                    format!("C11/panic/{}:{}", p.location, panic_class(&p.message)),
                    p.message.clone(),
                    "panic".into(),
                    "".into(),
                    -1,
                )),
            };
            if let Some((sig, what, observed, expected, step)) = v {
                // shrink by dropping events
                let mut evs = events.clone();
                let mut i = evs.len();
                while i > 0 {
                    i -= 1;
                    let mut cand = evs.clone();
                    cand.remove(i);
                    let s2 = match guard(|| machine_case(&cfg, &peers, &cand)) {
                        Ok((v, ..)) => v.map(|v| v.sig()),
                        Err(p) => Some(format!(
                            "C11/panic/{}:{}",
                            p.location,
                            panic_class(&p.message)
                        )),
                    };
                    if s2.as_deref() == Some(sig.as_str()) {
                        evs = cand;
                    }
                }
                ctx.rep.violation(
                    &sig,
                    &what,
                    Json::obj(vec![
                        ("origin", Json::s("machine-only")),
                        ("config", cfg.json()),
                        (
                            "events_only",
                            Json::strs(evs.iter().map(|e| op_str(&Op::Ev(*e)))),
                        ),
                        (
                            "unshrunk",
                            Json::strs(events.iter().map(|e| op_str(&Op::Ev(*e)))),
                        ),
                        ("failing_step_unshrunk", Json::Int(step)),
                        ("observed", Json::s(observed)),
                        ("expected", Json::s(expected)),
                    ]),
                );
            }
            if count % 4096 == 0 && !ctx.rep.in_budget() {
                complete = false;
                break 'outer;
            }
        }
        let mut d = depth;
        loop {
            if d == 0 {
                break 'outer;
            }
            d -= 1;
            idx[d] += 1;
            if idx[d] < n {
                break;
            }
            idx[d] = 0;
        }
    }
    ctx.rep.evals(judged);
    ctx.rep
        .count_n(&format!("machine:{}:d{}:sequences", cfgname, depth), count);
    if complete {
        ctx.rep
            .count(&format!("machine:{}:d{}:complete-shards", cfgname, depth));
    }
    complete
}

/// returns (violation, judged steps, nontrivial, unjudged signals)
fn machine_case(
    cfg: &Cfg,
    peers: &[IpAddr; NSRC],
    events: &[Ev],
) -> (Option<Viol>, u64, bool, u64) {
    let gr_peers: FnvHashMap<IpAddr, Vec<Family>> = (0..NP)
        .filter(|p| cfg.helper[*p] != 0)
        .map(|p| (peers[p], mask_families(cfg.helper[p])))
        .collect();
    let (mut rd, init) = RestartingDeferral::new(gr_peers, Some(Duration::from_secs(3600)));
    let mut model = Model::new(cfg);
    let mut defer_mask = 0u8;
    for o in &init {
        if let RestartingOutput::DeferFamilies(fs) = o {
            for f in fs {
                if let Some(i) = fam_index(*f) {
                    defer_mask |= 1 << i;
                }
            }
        }
    }
    if defer_mask != model.deferred {
        return (
            Some(viol(
                "held",
                "setup",
                "defer-families-mismatch",
                "DeferFamilies is not the union of the configured helper families".into(),
                0,
                mask_str(defer_mask),
                mask_str(model.deferred),
            )),
            1,
            false,
            0,
        );
    }
    let mut armed = false;
    let mut ended = rd.is_completed();
    let mut released = [false; NF];
    let mut judged = 0u64;
    let mut nontrivial = false;
    let mut unj = 0u64;
    for (step, ev) in events.iter().enumerate() {
        let evk = ev_kind(ev);
        let input = match *ev {
            Ev::Timer => {
                if !armed {
                    continue;
                }
                RestartingInput::TimerExpired
            }
            Ev::Est(p, m) => RestartingInput::PeerEstablished(peers[p as usize], mask_families(m)),
            Ev::Eor(p, f) => RestartingInput::EorReceived(peers[p as usize], fam_of(f as usize)),
            Ev::Wd(p) => RestartingInput::PeerWithdrawn(peers[p as usize]),
        };
        if ended {
            // the glue drops the machine at EndDeferral: nothing is fed any more
            break;
        }
        let outs = rd.process(input);
        model.apply(ev);
        judged += 1;
        let mut signal = [0u32; NTF];
        let mut end_now = false;
        for o in &outs {
            match o {
                RestartingOutput::StartDeferralTimer(d) => {
                    if d.is_some() {
                        armed = true;
                    }
                }
                RestartingOutput::FamilyDeferralComplete(f) => {
                    if let Some(i) = fam_index(*f) {
                        signal[i] += 1;
                    }
                }
                RestartingOutput::EndDeferral(rem) => {
                    end_now = true;
                    for f in rem {
                        if let Some(i) = fam_index(*f) {
                            signal[i] += 1;
                        }
                    }
                }
                RestartingOutput::DeferFamilies(_) => {}
            }
        }
        for f in 0..NTF {
            if f >= NF || !model.is_deferred(f) || released[f] {
                if signal[f] > 0 {
                    unj += 1; // judged on the coupled system, where it shows as a second dump
                }
                continue;
            }
            if signal[f] > 0 {
                if model.must_hold(f) {
                    return (
                        Some(viol(
                            "release-early",
                            evk,
                            model.blocker_fact(f),
                            format!(
                                "the machine completes {} although a configured helper peer is still pending",
                                FAM_NAME[f]
                            ),
                            step,
                            summarize_outputs(&outs),
                            format!("held (model: {})", model.describe()),
                        )),
                        judged,
                        nontrivial,
                        unj,
                    );
                }
                if signal[f] > 1 {
                    unj += 1;
                }
                released[f] = true;
                nontrivial = true;
            } else if model.must_release(f) {
                let clause = if matches!(ev, Ev::Est(_, 0)) {
                    "non-gr-blocks"
                } else {
                    "release-late"
                };
                return (
                    Some(viol(
                        clause,
                        evk,
                        if model.timer_fired {
                            "timer-fired"
                        } else {
                            "no-peer-pending"
                        },
                        format!(
                            "the machine keeps {} deferred although no configured helper peer is pending / the timer fired",
                            FAM_NAME[f]
                        ),
                        step,
                        summarize_outputs(&outs),
                        format!("release (model: {})", model.describe()),
                    )),
                    judged,
                    nontrivial,
                    unj,
                );
            }
        }
        if end_now {
            ended = true;
            armed = false;
        }
        if rd.is_completed() != ended {
            return (
                Some(viol("terminates", evk, "completed-without-end-deferral", "is_completed() and the EndDeferral output disagree (the driver clears the restarting state only on EndDeferral)".into(), step, format!("is_completed={} outputs={}", rd.is_completed(), summarize_outputs(&outs)), "consistent".into())),
                judged,
                nontrivial,
                unj,
            );
        }
        if model.deferred != 0 && model.all_must_release() && !ended {
            return (
                Some(viol("terminates", evk, if model.timer_fired { "still-deferring-after-timer" } else { "still-deferring-no-peer-pending" }, "no helper peer is pending (or the timer fired) but the machine did not complete".into(), step, format!("is_completed={} outputs={}", rd.is_completed(), summarize_outputs(&outs)), format!("EndDeferral (model: {})", model.describe()))),
                judged,
                nontrivial,
                unj,
            );
        }
        if model.any_must_hold() && ended {
            return (
                Some(viol(
                    "terminates",
                    evk,
                    "flag-cleared-while-family-held",
                    "the machine completed although a family must still be held".into(),
                    step,
                    summarize_outputs(&outs),
                    format!("deferring (model: {})", model.describe()),
                )),
                judged,
                nontrivial,
                unj,
            );
        }
    }
    (None, judged, nontrivial, unj)
}

// ------------------------------------------------------------------ entry point

#[test]
fn run() {
    let params = Params::from_args_env();
    let rule = "case = one judged step (event or insert_route) of one op history on the coupled RestartingDeferral + TableManager; a history is non-trivial when >=1 deferred family held back >=1 insert and was then released with a non-empty table; distinct by hash of (configuration, op list)";
    let mut rep = Report::new("C11", &params);
    rep.extra("rule", Json::s(rule));
    let rt = tokio::runtime::Builder::new_current_thread()
        .enable_time()
        .build()
        .expect("tokio runtime");
    let global = new_global();
    let mut ctx = Ctx {
        rep,
        env: Env::new(),
        rt,
        global,
        st: Stats::default(),
    };
    let mut rng = Rng::new(params.seed ^ 0xC11);

    let part = params.get("part").unwrap_or("all").to_string();
    let nshards = params.get_u64("nshards", 1).max(1);
    let shard = (params.seed % 1000) % nshards;
    let depth = params.get_u64("depth", 3) as usize;
    let peers = params.get_u64("peers", NP as u64) as usize;
    let fams = params.get_u64("fams", NF as u64) as usize;
    let cfgname = params.get("cfg").unwrap_or("full").to_string();
    let mode = if params.get("mode") == Some("session") {
        Mode::Session
    } else {
        Mode::Glue
    };
    let mut exhaustive_ok = true;

    if let Some(path) = params.replay.clone() {
        // ./check C11 --replay <file>: re-execute exactly the recorded history
        let text = std::fs::read_to_string(&path).unwrap_or_default();
        let code = text.find("\"replay_code\"").and_then(|i| {
            let rest = &text[i + 13..];
            let a = rest.find('"')?;
            let b = rest[a + 1..].find('"')?;
            Some(rest[a + 1..a + 1 + b].to_string())
        });
        match code.as_deref().and_then(parse_replay_code) {
            Some((cfg, ops)) => {
                if let Ok(o) = ctx.exec(&cfg, &ops, true) {
                    for l in &o.trace {
                        eprintln!("{}", l);
                    }
                }
                ctx.case(&cfg, &ops, "replay");
                ctx.rep.count("replayed");
            }
            None => ctx.rep.inconclusive("replay file has no usable replay_code (machine-only witnesses are replayed by part=machine)"),
        }
        let Ctx {
            mut rep, mut st, ..
        } = ctx;
        st.flush(&mut rep);
        let _ = rep.finish();
        return;
    }
    if part == "all" {
        // small self-contained run (used when the module is started by hand)
        for c in ["full", "asym", "chain"] {
            exhaustive_ok &= run_exhaustive(&mut ctx, c, 2, NP, NF, 0, 1, Mode::Glue, false);
        }
        exhaustive_ok &= run_exhaustive(&mut ctx, "asym", 2, NP, NF, 0, 1, Mode::Session, false);
        run_random(&mut ctx, &mut rng, params.n(300, 3000));
    }
    if part == "exh" {
        for c in cfgname.split('+') {
            exhaustive_ok &= run_exhaustive(
                &mut ctx,
                c,
                depth,
                peers,
                fams,
                shard,
                nshards,
                mode,
                params.flag("sym"),
            );
        }
    }
    if part == "machine" {
        for c in cfgname.split('+') {
            exhaustive_ok &= run_machine(&mut ctx, c, depth, shard, nshards);
        }
    }
    if part == "rnd" || part == "all" {
        run_early_session_scenarios(&mut ctx);
    }
    if part == "conc" || part == "all" {
        let fixed = params.get("conc_seed").and_then(|v| v.parse::<u64>().ok());
        let n = if fixed.is_some() {
            params.get_u64("count", 20)
        } else if part == "all" {
            200
        } else {
            params.get_u64("count", 3000)
        };
        run_concurrent(&mut ctx, &mut rng, n, fixed);
    }
    if part == "rnd" {
        run_random(&mut ctx, &mut rng, params.get_u64("count", 2000));
    }
    let Ctx {
        mut rep, mut st, ..
    } = ctx;
    st.flush(&mut rep);
    rep.exhaustive = if part == "rnd" {
        None
    } else {
        Some(exhaustive_ok)
    };
    if !exhaustive_ok {
        rep.inconclusive("time budget ended before the exhaustive enumeration was complete");
    }
    if rep.evaluations < 100 {
        rep.inconclusive("fewer than 100 evaluations");
    }
    let _ = rep.finish();
}
