//! C07, real-task part — the glue around the FSM: `accept_connection`,
//! `PeerSession::run` (session_loop, release_connection / apply_disconnect,
//! clear_session_state) with real tasks and real loopback TCP connections in
//! both roles for ONE configured neighbour (127.0.0.1), and a scripted remote
//! end that speaks real BGP (OPEN with a chosen identifier, KEEPALIVE,
//! NOTIFICATION, FIN / RST close, silence until the hold timer expires).
//!
//! Scheduling.  Everything runs on a current-thread tokio runtime: daemon tasks
//! advance only while the script yields, so the interleaving between the two
//! connections is chosen by the script (seeded), every schedule produced is a
//! legal schedule of the multi-threaded daemon, and quiescence is a *state*: no
//! byte arrives at a remote end, no FSM state / close channel / task changes
//! during several consecutive rounds of (50 scheduler turns + one park in the
//! I/O driver).  The time between `tokio::spawn(session.run())` and the task's
//! first poll (which the daemon does not control) is produced by holding the
//! accepted `PeerSession` back before spawning it.
//!
//! Judged, at the remote ends and at quiescence, only what the statement says:
//!   (a) after a collision exactly one of the two TCP connections survives, the
//!       loser's remote end reads NOTIFICATION Cease/collision (6/7) before
//!       EOF, and the survivor is the Established one, else the connection
//!       initiated by the higher identifier;
//!   (b) never both remote ends in OpenConfirm-or-Established (KEEPALIVE
//!       received after the own OPEN and connection still up) at quiescence;
//!   (c) after NOTIFICATION / close / hold expiry the slot is free: a new
//!       connection of that role is accepted and gets an OPEN.
//! Harness time-outs make a scenario inconclusive (counted), never a violation.
//! The daemon's own FSM states / close-channel registrations are read only to
//! sequence the script and to count which windows were hit.
use super::super::*;
use super::common::*;
use crate::fsm::Role;
use bytes::BytesMut;
use std::net::{IpAddr, Ipv4Addr, SocketAddr};
use std::time::Instant;
use tokio::net::{TcpListener, TcpStream};

const LOCAL_AS: u32 = 65001;
const REMOTE_AS: u32 = 65002;
const LOCAL_ID: u32 = 0x0200_0001; // 2.0.0.1
const WATCHDOG: Duration = Duration::from_secs(12);

/// Progress of the script (bumped on every action of the remote ends / every round);
/// a watchdog *thread* ends the process with an inconclusive report when it stops,
/// i.e. when some daemon task keeps the single runtime thread without yielding.
static HEARTBEAT: std::sync::atomic::AtomicU64 = std::sync::atomic::AtomicU64::new(0);
static LAST_NOTES: std::sync::Mutex<Vec<String>> = std::sync::Mutex::new(Vec::new());

fn beat() {
    HEARTBEAT.fetch_add(1, Ordering::Relaxed);
}

/// One scheduler turn in FIFO order: the task re-queues itself behind the tasks that
/// are already runnable but *ahead* of tasks woken later (tokio's `yield_now` defers the
/// caller behind everything woken during the tick).  This is the position of the
/// daemon's accept loop relative to a session task that has just been woken.
struct Turn(bool);
impl std::future::Future for Turn {
    type Output = ();
    fn poll(mut self: Pin<&mut Self>, cx: &mut std::task::Context<'_>) -> std::task::Poll<()> {
        if self.0 {
            return std::task::Poll::Ready(());
        }
        self.0 = true;
        cx.waker().wake_by_ref();
        std::task::Poll::Pending
    }
}

#[derive(Clone, Copy, PartialEq, Eq, Debug)]
enum Stage {
    NotStarted,
    OpenSent,
    OpenConfirm,
    Established,
}

impl Stage {
    fn name(self) -> &'static str {
        match self {
            Stage::NotStarted => "accepted-not-started",
            Stage::OpenSent => "open-sent",
            Stage::OpenConfirm => "open-confirm",
            Stage::Established => "established",
        }
    }
}

fn rname(r: Role) -> &'static str {
    match r {
        Role::Active => "A",
        Role::Passive => "P",
    }
}
fn other(r: Role) -> Role {
    match r {
        Role::Active => Role::Passive,
        Role::Passive => Role::Active,
    }
}

struct Conn {
    role: Role,
    label: String,
    client: Option<TcpStream>,
    pending: Option<PeerSession>,
    task: Option<tokio::task::JoinHandle<()>>,
    accepted: bool,
    codec: bgp::PeerCodec,
    rx: BytesMut,
    got_open: bool,
    sent_open: bool,
    /// remote view: KEEPALIVE received after the own OPEN = the daemon is in OpenConfirm / Established
    keepalive_after_open: bool,
    updates: u32,
    notification: Option<(u8, u8)>,
    eof: bool,
    reset: bool,
    closed_by_remote: bool,
}

impl Conn {
    /// the remote end still has an open connection and has not been told to go away
    fn up(&self) -> bool {
        self.client.is_some() && !self.eof && self.notification.is_none() && !self.closed_by_remote
    }
}

enum Abort {
    Inconclusive(String),
}

struct Finding {
    sig: String,
    what: String,
}

struct World {
    global: GlobalHandle,
    tables: TableHandle,
    active_tx: mpsc::UnboundedSender<TcpStream>,
    _active_rx: mpsc::UnboundedReceiver<TcpStream>,
    arbiter: Arc<std::sync::Mutex<ConnArbiter>>,
    addr: IpAddr,
    remote_id: u32,
    remote_hold: u16,
    conns: Vec<Conn>,
    trace: Vec<String>,
    findings: Vec<Finding>,
    counts: Vec<String>,
    seq: [u32; 2],
    last_sig: String,
    t0: Instant,
}

impl World {
    async fn new(remote_id: u32, local_hold: u64, remote_hold: u16) -> Result<World, Abort> {
        let (active_tx, active_rx) = mpsc::unbounded_channel::<TcpStream>();
        let (ktx, _krx) = mpsc::unbounded_channel();
        let (btx, _brx) = mpsc::unbounded_channel();
        let mut g = Global::new(ktx, btx);
        g.asn = LOCAL_AS;
        g.router_id = Ipv4Addr::from(LOCAL_ID);
        let addr = IpAddr::V4(Ipv4Addr::LOCALHOST);
        let params = PeerParams {
            remote_addr: addr,
            remote_port: Global::BGP_PORT,
            expected_remote_asn: REMOTE_AS,
            local_asn: 0,
            // no connection attempts of the daemon's own: active connections are handed in by the script
            passive: true,
            rs_client: false,
            route_reflector: RouteReflectorConfig::default(),
            delete_on_disconnected: false,
            admin_down: false,
            state: SessionState::Idle,
            holdtime: local_hold,
            connect_retry_time: PeerParams::DEFAULT_CONNECT_RETRY_TIME,
            multihop_ttl: None,
            ttl_security: None,
            password: None,
            families: FnvHashMap::default(),
            send_max: FnvHashMap::default(),
            prefix_limits: FnvHashMap::default(),
            graceful_restart: None,
            llgr: None,
            bfd_config: None,
            neighbor_interface: None,
            bind_interface: None,
            export_policy: None,
        };
        g.add_peer(params, None)
            .map_err(|e| Abort::Inconclusive(format!("harness: add_peer: {}", e)))?;
        let arbiter = Arc::clone(&g.peers[&addr].context.lock().unwrap().conn_arbiter);
        Ok(World {
            global: Arc::new(tokio::sync::RwLock::new(g)),
            tables: Arc::new(TableManager::new(1)),
            active_tx,
            _active_rx: active_rx,
            arbiter,
            addr,
            remote_id,
            remote_hold,
            conns: Vec::new(),
            trace: Vec::new(),
            findings: Vec::new(),
            counts: Vec::new(),
            seq: [0, 0],
            last_sig: String::new(),
            t0: Instant::now(),
        })
    }

    fn note(&mut self, s: String) {
        beat();
        {
            let mut l = LAST_NOTES.lock().unwrap();
            if l.len() >= 40 {
                l.remove(0);
            }
            l.push(s.clone());
        }
        if self.trace.len() < 400 {
            self.trace.push(s);
        }
    }
    fn count(&mut self, k: String) {
        self.counts.push(k);
    }
    fn fail(&mut self, sig: &str, what: String) {
        self.note(format!("!! {}: {}", sig, what));
        self.findings.push(Finding {
            sig: sig.to_string(),
            what,
        });
    }

    // ---- the daemon's own view (sequencing and counting only)
    fn state(&self, r: Role) -> SessionState {
        self.arbiter.lock().unwrap().state(r)
    }
    fn chan(&self, r: Role) -> bool {
        let arb = self.arbiter.lock().unwrap();
        match r {
            Role::Active => arb.active_close_tx.is_some(),
            Role::Passive => arb.passive_close_tx.is_some(),
        }
    }
    fn daemon_view(&self) -> String {
        format!(
            "fsm A={:?} P={:?} close-channel A={} P={}",
            self.state(Role::Active),
            self.state(Role::Passive),
            self.chan(Role::Active),
            self.chan(Role::Passive)
        )
    }
    /// the stage a connection is in, as the daemon sees it
    fn stage_of(&self, i: usize) -> &'static str {
        let c = &self.conns[i];
        if c.pending.is_some() {
            return Stage::NotStarted.name();
        }
        if c.task.as_ref().is_none_or(|t| t.is_finished()) {
            return "ended";
        }
        match self.state(c.role) {
            SessionState::OpenSent => Stage::OpenSent.name(),
            SessionState::OpenConfirm => Stage::OpenConfirm.name(),
            SessionState::Established => Stage::Established.name(),
            _ => "spawned-not-connected",
        }
    }

    // ---- TCP
    /// A loopback pair (remote end, daemon end) whose daemon end has 127.0.0.1 as peer address.
    async fn make_pair(&self, role: Role) -> Result<(TcpStream, TcpStream), Abort> {
        let bad = |e: std::io::Error| Abort::Inconclusive(format!("harness: loopback pair: {}", e));
        let l: TcpListener = crate::verif_hooks::bind_retry(SocketAddr::new(self.addr, 0))
            .await
            .map_err(bad)?;
        let la = l.local_addr().map_err(bad)?;
        let (c, s) = tokio::join!(crate::verif_hooks::connect_retry(la), async {
            tokio::time::timeout(Duration::from_secs(110), l.accept()).await
        });
        let c = c.map_err(bad)?;
        let s = match s {
            Ok(Ok((s, _))) => s,
            Ok(Err(e)) => return Err(bad(e)),
            Err(_) => return Err(Abort::Inconclusive("harness: accept timed out".into())),
        };
        // The remote end closes with RST (no TIME_WAIT left behind).  The daemon's end must
        // keep the default close: with SO_LINGER 0 a NOTIFICATION still held back by Nagle
        // (an earlier KEEPALIVE not yet acknowledged) would be discarded on close and the
        // remote end would see a reset without the Cease the daemon did write.
        let (remote_end, daemon_end) = match role {
            Role::Passive => (&c, &s),
            Role::Active => (&s, &c),
        };
        crate::verif_hooks::no_time_wait(remote_end);
        let _ = daemon_end.set_linger(None);
        Ok(match role {
            // the remote connected to us: the accepted socket is the daemon's
            Role::Passive => (c, s),
            // the daemon connected to the neighbour: the connecting socket is the daemon's
            Role::Active => (s, c),
        })
    }

    /// accept_connection for a (possibly pre-built) pair; the session is not started yet.
    async fn accept(&mut self, role: Role, pair: (TcpStream, TcpStream)) -> usize {
        let (client, server) = pair;
        let n = &mut self.seq[if role == Role::Active { 0 } else { 1 }];
        *n += 1;
        let label = format!("{}{}", rname(role), n);
        let session = accept_connection(&self.global, &self.tables, server, role).await;
        let accepted = session.is_some();
        self.note(format!(
            "{}: accept_connection -> {} [{}]",
            label,
            if accepted { "accepted" } else { "refused" },
            self.daemon_view()
        ));
        self.conns.push(Conn {
            role,
            label,
            client: Some(client),
            pending: session,
            task: None,
            accepted,
            codec: bgp::PeerCodec::new(),
            rx: BytesMut::with_capacity(4096),
            got_open: false,
            sent_open: false,
            keepalive_after_open: false,
            updates: 0,
            notification: None,
            eof: false,
            reset: false,
            closed_by_remote: false,
        });
        self.conns.len() - 1
    }

    async fn connect(&mut self, role: Role) -> Result<usize, Abort> {
        let pair = self.make_pair(role).await?;
        Ok(self.accept(role, pair).await)
    }

    /// what the accept loop does right after accept_connection: spawn the session task
    fn start(&mut self, i: usize) {
        if let Some(session) = self.conns[i].pending.take() {
            let g = Arc::clone(&self.global);
            let atx = self.active_tx.clone();
            let h = tokio::spawn(session.run(g, atx));
            self.conns[i].task = Some(h);
            let l = self.conns[i].label.clone();
            self.note(format!("{}: session task spawned", l));
        }
    }

    /// read what has arrived at the remote ends; true when anything new was seen
    fn pump(&mut self) -> bool {
        let mut progress = false;
        let mut notes = Vec::new();
        for c in self.conns.iter_mut() {
            let Some(cl) = c.client.as_ref() else {
                continue;
            };
            if c.eof {
                continue;
            }
            loop {
                match cl.try_read_buf(&mut c.rx) {
                    Ok(0) => {
                        c.eof = true;
                        progress = true;
                        notes.push(format!("{}: remote end reads EOF", c.label));
                        break;
                    }
                    Ok(_) => progress = true,
                    Err(e) if e.kind() == std::io::ErrorKind::WouldBlock => break,
                    Err(e) => {
                        c.eof = true;
                        c.reset = true;
                        progress = true;
                        notes.push(format!("{}: remote end reads error {}", c.label, e.kind()));
                        break;
                    }
                }
            }
            loop {
                match c.codec.try_parse(&mut c.rx) {
                    Ok(Some(m)) => match m {
                        bgp::ParsedMessage::Open(o) => {
                            c.got_open = true;
                            notes.push(format!(
                                "{}: remote end reads OPEN(id={:#010x}, hold={})",
                                c.label,
                                o.router_id,
                                o.holdtime.seconds()
                            ));
                        }
                        bgp::ParsedMessage::Keepalive => {
                            if c.sent_open && !c.keepalive_after_open {
                                c.keepalive_after_open = true;
                                notes.push(format!("{}: remote end reads KEEPALIVE (daemon side is in OpenConfirm)", c.label));
                            }
                        }
                        bgp::ParsedMessage::Update(_) => c.updates += 1,
                        bgp::ParsedMessage::Notification(n) => {
                            c.notification =
                                Some((n.notification_code(), n.notification_subcode()));
                            notes.push(format!(
                                "{}: remote end reads NOTIFICATION {}/{}",
                                c.label,
                                n.notification_code(),
                                n.notification_subcode()
                            ));
                        }
                        _ => {}
                    },
                    Ok(None) => break,
                    Err(_) => {
                        notes.push(format!(
                            "{}: remote end cannot parse what the daemon sent",
                            c.label
                        ));
                        c.rx.clear();
                        break;
                    }
                }
            }
        }
        for n in notes {
            self.note(n);
        }
        progress
    }

    fn signature(&self) -> String {
        let mut s = self.daemon_view();
        for c in &self.conns {
            s.push_str(match &c.task {
                Some(t) if t.is_finished() => " F",
                Some(_) => " R",
                None => " -",
            });
        }
        s
    }

    /// one round: let every ready daemon task run, let the I/O driver deliver events, look at the remote ends
    async fn round(&mut self) -> bool {
        beat();
        for _ in 0..50 {
            tokio::task::yield_now().await;
        }
        tokio::time::sleep(Duration::from_millis(1)).await;
        let p = self.pump();
        let sig = self.signature();
        let changed = p || sig != self.last_sig;
        self.last_sig = sig;
        changed
    }

    /// run until nothing changes any more (quiescence by state)
    async fn settle(&mut self) {
        let mut quiet = 0;
        let mut rounds = 0;
        while quiet < 4 && rounds < 3000 {
            if self.round().await {
                quiet = 0;
            } else {
                quiet += 1;
            }
            rounds += 1;
        }
    }

    async fn wait_until<F: Fn(&World) -> bool>(&mut self, what: &str, f: F) -> Result<(), Abort> {
        let t = Instant::now();
        loop {
            if f(self) {
                return Ok(());
            }
            if t.elapsed() > WATCHDOG {
                return Err(Abort::Inconclusive(format!("watchdog: {}", what)));
            }
            self.round().await;
        }
    }

    /// a few scheduler turns (seeded): 0, 1, several, or to quiescence
    async fn jitter(&mut self, rng: &mut Rng) {
        match rng.usize(5) {
            0 => {}
            1 => tokio::task::yield_now().await,
            2 => {
                for _ in 0..rng.range(2, 8) {
                    tokio::task::yield_now().await;
                }
            }
            3 => {
                self.round().await;
            }
            _ => self.settle().await,
        }
    }

    async fn send(&mut self, i: usize, m: bgp::Message, what: &str) {
        let mut buf = BytesMut::with_capacity(128);
        let c = &mut self.conns[i];
        let _ = c.codec.encode_to(&m, &mut buf);
        let mut ok = false;
        if let Some(cl) = c.client.as_mut() {
            ok = cl.write_all(&buf).await.is_ok();
        }
        let l = c.label.clone();
        self.note(format!(
            "{}: remote sends {}{}",
            l,
            what,
            if ok { "" } else { " (write failed)" }
        ));
    }

    async fn send_open(&mut self, i: usize) {
        let open = bgp::Message::Open(bgp::Open {
            as_number: REMOTE_AS,
            holdtime: HoldTime::new(self.remote_hold).unwrap(),
            router_id: self.remote_id,
            capability: vec![
                bgp::Capability::MultiProtocol(Family::IPV4),
                bgp::Capability::FourOctetAsNumber(REMOTE_AS),
            ],
        });
        self.conns[i].sent_open = true;
        let what = format!(
            "OPEN(id={:#010x}, hold={})",
            self.remote_id, self.remote_hold
        );
        self.send(i, open, &what).await;
    }

    /// FIN (the daemon reads EOF) or RST (the daemon reads an error)
    async fn close(&mut self, i: usize, rst: bool) {
        let c = &mut self.conns[i];
        c.closed_by_remote = true;
        if let Some(mut cl) = c.client.take() {
            if !rst {
                let _ = cl.set_linger(None);
                let _ = cl.shutdown().await;
            }
            drop(cl);
        }
        let l = c.label.clone();
        self.note(format!(
            "{}: remote closes ({})",
            l,
            if rst { "RST" } else { "FIN" }
        ));
    }

    /// take a started or held connection up to `stage`
    async fn drive_to(&mut self, i: usize, stage: Stage) -> Result<(), Abort> {
        if stage == Stage::NotStarted || !self.conns[i].accepted {
            return Ok(());
        }
        self.start(i);
        self.wait_until("daemon's OPEN", |w| w.conns[i].got_open || w.conns[i].eof)
            .await?;
        if stage == Stage::OpenSent {
            return Ok(());
        }
        if !self.conns[i].sent_open {
            self.send_open(i).await;
        }
        self.wait_until("KEEPALIVE answering the OPEN", |w| {
            w.conns[i].keepalive_after_open || !w.conns[i].up()
        })
        .await?;
        if stage == Stage::OpenConfirm {
            return Ok(());
        }
        self.send(i, bgp::Message::Keepalive, "KEEPALIVE").await;
        let role = self.conns[i].role;
        self.wait_until("Established", |w| {
            w.state(role) == SessionState::Established || !w.conns[i].up()
        })
        .await?;
        Ok(())
    }

    // ---- judgements

    /// (c): a new connection of `role` after its predecessor went away for `cause`
    async fn reconnect(
        &mut self,
        role: Role,
        cause: &str,
        pre: Option<(TcpStream, TcpStream)>,
    ) -> Result<usize, Abort> {
        let i = match pre {
            Some(p) => self.accept(role, p).await,
            None => self.connect(role).await?,
        };
        if !self.conns[i].accepted {
            self.fail(
                &format!("C07/real/idle/{}/reconnect-refused", cause),
                format!(
                    "a new {} connection after {} was refused by accept_connection [{}]",
                    rname(role),
                    cause,
                    self.daemon_view()
                ),
            );
        } else {
            self.count(format!("real:reconnect-accepted-after:{}", cause));
        }
        Ok(i)
    }

    /// the new connection of (c) must be sent an OPEN once its task runs
    async fn expect_open(&mut self, i: usize, cause: &str) -> Result<(), Abort> {
        if !self.conns[i].accepted {
            return Ok(());
        }
        self.start(i);
        self.wait_until("OPEN on the new connection", |w| {
            w.conns[i].got_open || w.conns[i].eof
        })
        .await?;
        if !self.conns[i].got_open {
            let l = self.conns[i].label.clone();
            self.fail(
                &format!("C07/real/idle/{}/no-open-on-new-connection", cause),
                format!(
                    "{} was accepted after {} but closed without an OPEN [{}]",
                    l,
                    cause,
                    self.daemon_view()
                ),
            );
        }
        Ok(())
    }

    /// (a) + (b) for the two connections `x`, `y` after both OPENs have been sent.
    /// `established`: the connection that was Established before the other one's OPEN went out.
    async fn judge_collision(
        &mut self,
        x: usize,
        y: usize,
        established: Option<usize>,
    ) -> Option<usize> {
        self.settle().await;
        if self.conns[x].up()
            && self.conns[y].up()
            && self.conns[x].keepalive_after_open
            && self.conns[y].keepalive_after_open
        {
            // "both still up" is the one judgement that rests on something NOT happening:
            // give it two more seconds of wall-clock on top of the state-based quiescence
            // (the kernel may deliver loopback data late on a loaded machine)
            let t = Instant::now();
            while t.elapsed() < Duration::from_secs(2) && self.conns[x].up() && self.conns[y].up() {
                self.round().await;
            }
            self.settle().await;
        }
        let ux = self.conns[x].up();
        let uy = self.conns[y].up();
        let view = self.daemon_view();
        let lx = self.conns[x].label.clone();
        let ly = self.conns[y].label.clone();
        // was there a collision at all?  both OPENs must have been answered or refused
        let answered = |c: &Conn| c.keepalive_after_open || !c.up();
        if !(answered(&self.conns[x]) && answered(&self.conns[y])) {
            self.count("real:unjudged:open-not-answered".into());
            self.note(format!(
                "?? an OPEN was neither answered nor refused at quiescence [{}]",
                view
            ));
            return None;
        }
        self.count("real:collisions-judged".into());
        match (ux, uy) {
            (true, true) => {
                // both remote ends are in OpenConfirm-or-Established and nothing moves any more
                let fsm_busy = |s: SessionState| {
                    matches!(s, SessionState::OpenConfirm | SessionState::Established)
                };
                if fsm_busy(self.state(Role::Active)) && fsm_busy(self.state(Role::Passive)) {
                    self.fail(
                        "C07/real/at-most-one/both-roles-open-confirm-or-established",
                        format!(
                            "{} and {} are both up at quiescence and both FSM slots are busy [{}]",
                            lx, ly, view
                        ),
                    );
                } else {
                    self.fail(
                        "C07/real/collision/loser-never-sent-cease",
                        format!(
                            "{} and {} both got KEEPALIVE after their OPEN and both TCP connections are still up at quiescence: \
                             the collision was resolved inside the FSM but the loser was never sent Cease/collision nor closed [{}]",
                            lx, ly, view
                        ),
                    );
                }
                None
            }
            (false, false) => {
                self.fail(
                    "C07/real/collision/no-survivor",
                    format!(
                        "neither {} (notification {:?}) nor {} (notification {:?}) survived the collision [{}]",
                        lx, self.conns[x].notification, ly, self.conns[y].notification, view
                    ),
                );
                None
            }
            _ => {
                let (s, l) = if ux { (x, y) } else { (y, x) };
                let (sl, ll) = (self.conns[s].label.clone(), self.conns[l].label.clone());
                match self.conns[l].notification {
                    Some((6, 7)) => self.count("real:loser-read-cease-collision".into()),
                    Some((c, sc)) => self.fail(
                        "C07/real/collision/loser-got-other-notification",
                        format!(
                            "loser {} read NOTIFICATION {}/{} instead of Cease/collision 6/7 [{}]",
                            ll, c, sc, view
                        ),
                    ),
                    None if self.conns[l].reset => {
                        self.count("real:unjudged:loser-reset-without-notification".into())
                    }
                    None => self.fail(
                        "C07/real/collision/no-cease-to-loser",
                        format!(
                            "loser {} read EOF without a NOTIFICATION Cease/collision [{}]",
                            ll, view
                        ),
                    ),
                }
                let expected = match established {
                    Some(e) => e,
                    None => {
                        let want = if LOCAL_ID > self.remote_id {
                            Role::Active
                        } else {
                            Role::Passive
                        };
                        if self.conns[x].role == want { x } else { y }
                    }
                };
                if expected != s {
                    let why = if established.is_some() {
                        "established-did-not-survive".to_string()
                    } else {
                        format!(
                            "local-id-{}",
                            if LOCAL_ID > self.remote_id {
                                "higher"
                            } else {
                                "lower"
                            }
                        )
                    };
                    self.fail(
                        &format!("C07/real/collision/wrong-survivor/{}", why),
                        format!("{} survived, {} should have (local id {:#010x}, remote id {:#010x}) [{}]", sl, self.conns[expected].label, LOCAL_ID, self.remote_id, view),
                    );
                } else if established.is_some() {
                    self.count("real:established-survived-newcomer".into());
                } else {
                    self.count(format!(
                        "real:survivor-by-identifier:{}",
                        rname(self.conns[s].role)
                    ));
                }
                Some(s)
            }
        }
    }

    /// End of a scenario.  Session tasks that are still running are cancelled
    /// *before* their remote ends are closed: a session whose FSM slot has been
    /// taken away (what the findings above are about) answers an EOF by feeding
    /// Input::Disconnected into an empty slot, gets no outputs back and polls the
    /// closed socket again without ever yielding, which would stall the runtime.
    async fn teardown(&mut self) {
        let mut panicked = Vec::new();
        for c in self.conns.iter_mut() {
            c.pending = None;
            if let Some(t) = c.task.take() {
                if t.is_finished() {
                    if let Err(e) = t.await
                        && e.is_panic()
                    {
                        panicked.push(c.label.clone());
                    }
                } else {
                    t.abort();
                }
            }
        }
        for _ in 0..20 {
            tokio::task::yield_now().await;
        }
        for c in self.conns.iter_mut() {
            c.client = None;
        }
        for l in panicked {
            self.fail(
                "C07/real/panic/session-task",
                format!("the session task of {} panicked", l),
            );
        }
    }
}

// ------------------------------------------------------------------ scenarios

fn pick_remote_id(rng: &mut Rng) -> u32 {
    // numeric order and byte-swapped order disagree for both
    if rng.bool() { 0x0100_0003 } else { 0x0300_0000 }
}

fn pick_stage(rng: &mut Rng, max: Stage) -> Stage {
    let all = [
        Stage::NotStarted,
        Stage::OpenSent,
        Stage::OpenConfirm,
        Stage::Established,
    ];
    let n = all.iter().position(|s| *s == max).unwrap() + 1;
    all[rng.usize(n)]
}

/// the two connections are opened `first` then `second`; both get their OPEN; one must go
async fn finish_collision(
    w: &mut World,
    rng: &mut Rng,
    a: usize,
    b: usize,
) -> Result<Option<usize>, Abort> {
    // both tasks running, both OPENs of the daemon read
    for i in [a, b] {
        w.start(i);
    }
    w.wait_until("both daemon OPENs", |w| {
        [a, b]
            .iter()
            .all(|i| w.conns[*i].got_open || !w.conns[*i].up())
    })
    .await?;
    let established = [a, b].into_iter().find(|i| {
        let c = &w.conns[*i];
        c.up() && c.task.is_some() && w.state(c.role) == SessionState::Established
    });
    let mut order = vec![a, b];
    if rng.bool() {
        order.reverse();
    }
    for i in order {
        if !w.conns[i].sent_open && w.conns[i].up() {
            w.send_open(i).await;
            w.jitter(rng).await;
        }
    }
    Ok(w.judge_collision(a, b, established).await)
}

/// S1: second connection arrives while the first is in a chosen stage; both complete the OPEN exchange
async fn scenario_collision(w: &mut World, rng: &mut Rng) -> Result<(), Abort> {
    let first_role = if rng.bool() {
        Role::Active
    } else {
        Role::Passive
    };
    let stage = pick_stage(rng, Stage::Established);
    let a = w.connect(first_role).await?;
    w.drive_to(a, stage).await?;
    w.jitter(rng).await;
    let seen = w.stage_of(a);
    w.count(format!("order:second-arrives:first-{}", seen));
    let b = w.connect(other(first_role)).await?;
    if !w.conns[b].accepted {
        w.fail(
            "C07/real/idle/initial/connection-of-other-role-refused",
            format!("[{}]", w.daemon_view()),
        );
        return Ok(());
    }
    // who runs first when the first one was held back
    if rng.bool() {
        w.start(b);
        w.jitter(rng).await;
    }
    let survivor = finish_collision(w, rng, a, b).await?;
    // second round: the loser's role connects again (c) and collides with the survivor
    if let Some(s) = survivor
        && rng.chance(1, 2)
    {
        let lrole = other(w.conns[s].role);
        if rng.bool() {
            w.send(s, bgp::Message::Keepalive, "KEEPALIVE").await;
            w.settle().await;
        }
        let n = w.reconnect(lrole, "collision", None).await?;
        w.expect_open(n, "collision").await?;
        if w.conns[n].got_open && w.conns[s].up() {
            finish_collision(w, rng, s, n).await?;
        }
    }
    Ok(())
}

#[derive(Clone, Copy, PartialEq, Eq, Debug)]
enum Kill {
    Notification,
    Fin,
    Rst,
    HoldExpiry,
}
impl Kill {
    fn cause(self) -> &'static str {
        match self {
            Kill::Notification => "notification",
            Kill::Fin | Kill::Rst => "disconnect",
            Kill::HoldExpiry => "hold-expiry",
        }
    }
}

/// S2: one role is torn down while the other role's connection is in a chosen window;
/// then the torn-down role connects again (c) and the two collide (a)(b)
async fn scenario_teardown(w: &mut World, rng: &mut Rng, kill: Kill) -> Result<(), Abort> {
    let vrole = if rng.bool() {
        Role::Active
    } else {
        Role::Passive
    };
    let vstage = if kill == Kill::HoldExpiry {
        if rng.bool() {
            Stage::OpenConfirm
        } else {
            Stage::Established
        }
    } else {
        [Stage::OpenSent, Stage::OpenConfirm, Stage::Established][rng.usize(3)]
    };
    // two connections in OpenConfirm-or-later would collide before the tear-down
    let ostage = if kill == Kill::HoldExpiry || vstage != Stage::OpenSent {
        pick_stage(rng, Stage::OpenSent)
    } else {
        pick_stage(rng, Stage::OpenConfirm)
    };
    // who comes first
    let (v, o);
    if rng.bool() {
        v = w.connect(vrole).await?;
        w.drive_to(v, vstage).await?;
        o = w.connect(other(vrole)).await?;
        w.drive_to(o, ostage).await?;
    } else {
        o = w.connect(other(vrole)).await?;
        w.drive_to(o, ostage).await?;
        v = w.connect(vrole).await?;
        w.drive_to(v, vstage).await?;
    }
    if !w.conns[v].up() || !w.conns[o].up() {
        // an early collision ended one of them: not the situation this scenario is about
        w.count("real:unjudged:teardown-scenario-collided-early".into());
        return Ok(());
    }
    w.jitter(rng).await;
    let seen_o = w.stage_of(o);
    let seen_v = w.stage_of(v);
    w.count(format!("order:teardown:other-{}", seen_o));
    w.count(format!("order:teardown:victim-{}", seen_v));
    w.count(format!("teardown-kind:{:?}", kill));
    match kill {
        Kill::Notification => {
            w.send(
                v,
                bgp::Message::Notification(packet::Notification::CeaseAdminShutdown),
                "NOTIFICATION 6/2",
            )
            .await;
        }
        Kill::Fin => w.close(v, false).await,
        Kill::Rst => w.close(v, true).await,
        Kill::HoldExpiry => w.note(format!(
            "{}: remote stays silent until the hold timer expires",
            w.conns[v].label
        )),
    }
    // the other connection's task may start while the tear-down is under way, or only afterwards
    let start_other_early = rng.chance(1, 3);
    if start_other_early {
        w.jitter(rng).await;
        w.start(o);
    }
    w.wait_until("torn-down session task to finish", |w| {
        w.conns[v].task.as_ref().is_some_and(|t| t.is_finished())
    })
    .await?;
    w.settle().await;
    if kill == Kill::HoldExpiry {
        match w.conns[v].notification {
            Some((4, _)) => w.count("real:hold-expiry-notification-read".into()),
            other => {
                let l = w.conns[v].label.clone();
                w.fail(
                    "C07/real/idle/hold-expiry/no-hold-timer-notification",
                    format!(
                        "{}: remote read {:?} instead of Hold Timer Expired",
                        l, other
                    ),
                );
            }
        }
    }
    if !w.conns[v].eof && w.conns[v].client.is_some() {
        let l = w.conns[v].label.clone();
        w.fail(
            &format!("C07/real/idle/{}/connection-not-closed", kill.cause()),
            format!(
                "{}: the session task ended but the remote end reads no EOF [{}]",
                l,
                w.daemon_view()
            ),
        );
    }
    w.note(format!("after the tear-down: [{}]", w.daemon_view()));
    // (c) the slot is free
    let n = w.reconnect(vrole, kill.cause(), None).await?;
    if rng.bool() {
        w.expect_open(n, kill.cause()).await?;
    }
    if !w.conns[o].up() {
        w.count("real:unjudged:other-connection-gone-after-teardown".into());
        return Ok(());
    }
    // the other connection goes on; then the two collide
    let ofirst = rng.bool();
    if ofirst {
        w.drive_to(
            o,
            if rng.bool() {
                Stage::OpenConfirm
            } else {
                Stage::Established
            },
        )
        .await?;
    }
    w.expect_open(n, kill.cause()).await?;
    if w.conns[n].got_open {
        finish_collision(w, rng, o, n).await?;
    }
    Ok(())
}

/// S3: a new connection of the loser's role is accepted in the window between the
/// collision being resolved inside the FSM and the loser's task running its tear-down;
/// later that connection must itself be told when it loses a collision
async fn scenario_after_collision_window(w: &mut World, rng: &mut Rng) -> Result<(), Abort> {
    let lrole = if LOCAL_ID > w.remote_id {
        Role::Passive
    } else {
        Role::Active
    };
    let wrole = other(lrole);
    // loser reaches OpenConfirm first, the winner's OPEN makes the collision (loser is not the caller)
    let l1 = w.connect(lrole).await?;
    w.drive_to(l1, Stage::OpenConfirm).await?;
    let w1 = w.connect(wrole).await?;
    w.drive_to(w1, Stage::OpenSent).await?;
    let spare = w.make_pair(lrole).await?;
    w.settle().await;
    w.send_open(w1).await;
    // single scheduler turns until the FSM has freed the loser's slot
    let t = Instant::now();
    while w.state(lrole) != SessionState::Idle {
        if t.elapsed() > WATCHDOG {
            return Err(Abort::Inconclusive(
                "watchdog: collision not resolved".into(),
            ));
        }
        Turn(false).await;
    }
    let in_window = w.conns[l1].task.as_ref().is_some_and(|t| !t.is_finished());
    w.count(format!(
        "order:new-connection-after-collision:loser-task-{}",
        if in_window {
            "still-running"
        } else {
            "finished"
        }
    ));
    // the accept loop's turn: the loser's role connects again right now.  While the loser
    // is still winding down the daemon may refuse (the statement only wants the slot free
    // once the connection has been closed); after quiescence it must accept.
    let mut l2 = w.accept(lrole, spare).await;
    if w.conns[l2].accepted {
        w.count("order:new-connection-after-collision:accepted-in-window".into());
        if rng.bool() {
            w.start(l2);
        }
    } else {
        w.count("real:unjudged:refused-while-loser-winds-down".into());
    }
    w.settle().await;
    if !w.conns[l2].accepted {
        l2 = w.reconnect(lrole, "collision", None).await?;
    }
    if !matches!(w.conns[l1].notification, Some((6, 7))) {
        let l = w.conns[l1].label.clone();
        w.fail(
            "C07/real/collision/no-cease-to-loser",
            format!(
                "{}: remote read {:?} [{}]",
                l,
                w.conns[l1].notification,
                w.daemon_view()
            ),
        );
    }
    if !w.conns[l2].accepted {
        return Ok(());
    }
    w.expect_open(l2, "collision").await?;
    // the winner goes away; the new connection of the loser's role reaches OpenConfirm;
    // a new connection of the winner's role collides with it and wins
    let how = rng.usize(3);
    match how {
        0 => w.close(w1, false).await,
        1 => w.close(w1, true).await,
        _ => {
            w.send(
                w1,
                bgp::Message::Notification(packet::Notification::CeaseAdminShutdown),
                "NOTIFICATION 6/2",
            )
            .await
        }
    }
    w.wait_until("winner's session task to finish", |w| {
        w.conns[w1].task.as_ref().is_some_and(|t| t.is_finished())
    })
    .await?;
    w.settle().await;
    if !w.conns[l2].up() {
        w.count("real:unjudged:successor-gone".into());
        return Ok(());
    }
    w.drive_to(l2, Stage::OpenConfirm).await?;
    let w2 = w.reconnect(wrole, "disconnect", None).await?;
    w.expect_open(w2, "disconnect").await?;
    if w.conns[w2].got_open && w.conns[l2].up() {
        w.count("order:successor-collides-as-non-caller".into());
        finish_collision(w, rng, l2, w2).await?;
    }
    Ok(())
}

/// S4: a connection ends while some reader holds Global's read lock (any gRPC read
/// handler does), so its task is parked between release_connection / apply_disconnect
/// and the peer-level section of PeerSession::run; a new connection is accepted in
/// that window; later it must be told when it loses a collision
async fn scenario_teardown_with_reader(w: &mut World, rng: &mut Rng) -> Result<(), Abort> {
    let yrole = if rng.bool() {
        Role::Active
    } else {
        Role::Passive
    };
    let ystage = [Stage::OpenSent, Stage::OpenConfirm, Stage::Established][rng.usize(3)];
    let y = w.connect(yrole).await?;
    w.drive_to(y, ystage).await?;
    // X will have to lose a collision later as the non-caller: its role is the one the identifier rule lets lose
    let xrole = if LOCAL_ID > w.remote_id {
        Role::Passive
    } else {
        Role::Active
    };
    let spare = w.make_pair(xrole).await?;
    w.settle().await;
    let guard = w.global.clone().read_owned().await;
    w.note("a reader takes Global's read lock".into());
    if rng.bool() {
        w.close(y, rng.bool()).await;
    } else {
        w.send(
            y,
            bgp::Message::Notification(packet::Notification::CeaseAdminShutdown),
            "NOTIFICATION 6/2",
        )
        .await;
    }
    // until Y's task has given its slot and close channel back (and is parked on the write lock)
    let t = Instant::now();
    while w.chan(yrole) || w.state(yrole) != SessionState::Idle {
        if t.elapsed() > WATCHDOG {
            return Err(Abort::Inconclusive(
                "watchdog: tear-down under a read lock".into(),
            ));
        }
        w.round().await;
    }
    for _ in 0..3 {
        w.round().await;
    }
    let parked = w.conns[y].task.as_ref().is_some_and(|t| !t.is_finished());
    w.count(format!(
        "order:accept-during-teardown:ending-task-{}",
        if parked {
            "parked-before-peer-section"
        } else {
            "finished"
        }
    ));
    // the reader is done; the accept loop handles a new connection
    drop(guard);
    w.note("the reader releases the lock".into());
    let x = if xrole == yrole {
        w.reconnect(xrole, "disconnect", Some(spare)).await?
    } else {
        w.accept(xrole, spare).await
    };
    w.settle().await;
    w.note(format!("after the tear-down: [{}]", w.daemon_view()));
    if !w.conns[x].accepted {
        return Ok(());
    }
    // X reaches OpenConfirm; a connection of the other role collides with it and wins
    w.drive_to(x, Stage::OpenConfirm).await?;
    if !w.conns[x].up() {
        w.count("real:unjudged:successor-gone".into());
        return Ok(());
    }
    let z = w
        .reconnect(
            other(xrole),
            if xrole == yrole {
                "initial"
            } else {
                "disconnect"
            },
            None,
        )
        .await?;
    w.expect_open(z, "disconnect").await?;
    if w.conns[z].got_open && w.conns[x].up() {
        w.count("order:successor-collides-as-non-caller".into());
        finish_collision(w, rng, x, z).await?;
    }
    Ok(())
}

// ------------------------------------------------------------------ driver

async fn one_scenario(
    kind: usize,
    seed: u64,
) -> (
    Vec<Finding>,
    Vec<String>,
    Vec<String>,
    Option<String>,
    &'static str,
    u32,
) {
    let mut rng = Rng::new(seed);
    let remote_id = pick_remote_id(&mut rng);
    let (name, hold): (&'static str, u16) = match kind {
        0 => ("collision", 90),
        1 => ("teardown", 90),
        2 => ("teardown-hold-expiry", 3),
        3 => ("after-collision-window", 90),
        _ => ("teardown-with-reader", 90),
    };
    let mut w = match World::new(remote_id, hold as u64, hold).await {
        Ok(w) => w,
        Err(Abort::Inconclusive(e)) => {
            return (Vec::new(), Vec::new(), Vec::new(), Some(e), name, remote_id);
        }
    };
    w.note(format!(
        "scenario {} seed {} local id {:#010x} remote id {:#010x} hold {}",
        name, seed, LOCAL_ID, remote_id, hold
    ));
    let r = match kind {
        0 => scenario_collision(&mut w, &mut rng).await,
        1 => {
            let k = [Kill::Notification, Kill::Fin, Kill::Rst][rng.usize(3)];
            scenario_teardown(&mut w, &mut rng, k).await
        }
        2 => scenario_teardown(&mut w, &mut rng, Kill::HoldExpiry).await,
        3 => scenario_after_collision_window(&mut w, &mut rng).await,
        _ => scenario_teardown_with_reader(&mut w, &mut rng).await,
    };
    w.teardown().await;
    let inconclusive = match r {
        Ok(()) => None,
        Err(Abort::Inconclusive(e)) => Some(format!(
            "{} (after {:.1}s)",
            e,
            w.t0.elapsed().as_secs_f64()
        )),
    };
    (
        std::mem::take(&mut w.findings),
        std::mem::take(&mut w.counts),
        std::mem::take(&mut w.trace),
        inconclusive,
        name,
        remote_id,
    )
}

#[test]
fn run() {
    let params = Params::from_args_env();
    let rep = Arc::new(std::sync::Mutex::new(Report::new("C07", &params)));
    rep.lock().unwrap().max_samples = 2;
    let n = params.get_u64("scenarios", params.n(120, 1500));
    let only = params.get("kind").map(|s| s.to_string());
    let rt = match tokio::runtime::Builder::new_current_thread()
        .enable_all()
        .build()
    {
        Ok(rt) => rt,
        Err(e) => {
            let mut r = rep.lock().unwrap();
            r.inconclusive(&format!("harness: tokio runtime: {}", e));
            let _ = r.finish();
            return;
        }
    };
    // watchdog thread: the runtime thread can be monopolised by a daemon task that never yields
    let finished = Arc::new(std::sync::atomic::AtomicBool::new(false));
    {
        let rep = Arc::clone(&rep);
        let finished = Arc::clone(&finished);
        std::thread::spawn(move || {
            let mut last = HEARTBEAT.load(Ordering::Relaxed);
            let mut since = Instant::now();
            loop {
                std::thread::sleep(Duration::from_millis(500));
                if finished.load(Ordering::Relaxed) {
                    return;
                }
                let b = HEARTBEAT.load(Ordering::Relaxed);
                if b != last {
                    last = b;
                    since = Instant::now();
                } else if since.elapsed() > Duration::from_secs(90) {
                    let notes = LAST_NOTES.lock().map(|l| l.join(" | ")).unwrap_or_default();
                    if let Ok(mut r) = rep.lock() {
                        r.inconclusive(&format!(
                            "the runtime thread made no progress for 90 s (a task that never yields); last script steps: {}",
                            notes
                        ));
                        let _ = r.finish();
                    }
                    std::process::exit(2);
                }
            }
        });
    }
    let mut rng = Rng::new(params.seed ^ 0xC07B_C07B);
    let mut done = 0u64;
    let mut inconclusive = 0u64;
    let mut hold_expiry_done = 0u64;
    let hold_expiry_max = params.get_u64("hold_expiry", if params.thorough() { 12 } else { 2 });
    let in_budget = |rep: &Arc<std::sync::Mutex<Report>>| rep.lock().unwrap().in_budget();
    let r = guard(|| {
        rt.block_on(async {
            while done < n && in_budget(&rep) {
                let mut kind = match rng.usize(20) {
                    0..=6 => 0,
                    7..=12 => 1,
                    13 => 2,
                    14..=16 => 3,
                    _ => 4,
                };
                if let Some(k) = &only {
                    kind = k.parse().unwrap_or(kind);
                }
                if kind == 2 {
                    if hold_expiry_done >= hold_expiry_max {
                        continue;
                    }
                    hold_expiry_done += 1;
                }
                let seed = rng.next_u64();
                // the script is a task of its own, so that it takes turns with the session
                // tasks in the run queue exactly like the daemon's accept loop does
                let script = tokio::spawn(one_scenario(kind, seed));
                let res = tokio::time::timeout(Duration::from_secs(60), script).await;
                done += 1;
                let mut rep = rep.lock().unwrap();
                let Ok(Ok((findings, counts, trace, inc, name, remote_id))) = res else {
                    inconclusive += 1;
                    rep.count("real:scenario-inconclusive:overall-watchdog");
                    continue;
                };
                rep.count(&format!("real:scenarios:{}", name));
                for c in counts {
                    rep.count(&c);
                }
                // one case = one scenario judged; content hash = the observable history
                rep.eval();
                let mut key = Vec::new();
                for l in &trace {
                    key.extend_from_slice(l.as_bytes());
                }
                rep.nontrivial(fnv64(&key));
                if let Some(why) = inc {
                    inconclusive += 1;
                    rep.count("real:scenario-inconclusive");
                    eprintln!(
                        "[C07b] scenario {} seed {} inconclusive: {}",
                        name, seed, why
                    );
                }
                let wit = |trace: &Vec<String>| {
                    Json::obj(vec![
                        ("part", Json::s("real-task")),
                        ("scenario", Json::s(name)),
                        ("scenario_seed", Json::s(format!("{}", seed))),
                        ("local_id", Json::i(LOCAL_ID)),
                        ("remote_id", Json::i(remote_id)),
                        ("trace", Json::strs(trace.iter().cloned())),
                    ])
                };
                if params.flag("dump") {
                    eprintln!("---- {} seed {}\n  {}", name, seed, trace.join("\n  "));
                }
                for f in findings {
                    // the scenario family (which window was produced) is part of the finding's identity
                    let sig = f
                        .sig
                        .replacen("C07/real/", &format!("C07/real/{}/", name), 1);
                    rep.violation(&sig, &f.what, wit(&trace));
                }
                if rep.want_sample() && kind != 0 {
                    rep.sample(wit(&trace));
                }
            }
        });
    });
    finished.store(true, Ordering::Relaxed);
    let mut rep = rep.lock().unwrap();
    if let Err(p) = r {
        rep.inconclusive(&format!("harness panic at {}: {}", p.location, p.message));
    }
    rep.count_n("real:scenarios", done);
    if inconclusive * 5 > done.max(1) {
        rep.inconclusive(&format!(
            "{} of {} real-task scenarios ended in a harness time-out",
            inconclusive, done
        ));
    }
    let _ = rep.finish();
}
