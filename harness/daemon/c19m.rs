//! C19 (daemon-side half, MRT) — every MRT record the daemon writes is
//! well-formed and carries the intended BGP data.
//!
//! Compiled as `crate::mrt::verif::c19m`.  Code under test: the private
//! `adj_rib_in_to_mrt`, the real `MrtDumper::serve` loop (BGP4MP update dump
//! into a file) and the real `dump_table` (TABLE_DUMP_V2 into a file), all fed
//! from a real, populated `TableManager`.
//!
//! Oracle: the files are read back with the independent RFC 6396 / RFC 8050
//! reader of `c19_shared.rs`; embedded PDUs / attribute blocks are parsed by the
//! repository's own BGP parser configured as the record states.  Ground truth:
//! the op log (what was inserted) for BGP4MP; `TableManager::collect_paths`
//! (the RIB's own read accessor) for TABLE_DUMP_V2.
use super::super::*;
use super::common::*;
#[path = "/verif/harness/daemon/c19_shared.rs"]
mod shared;
use shared::*;

use crate::table_manager::TableManager;
use rustybgp_packet as packet;
use rustybgp_packet::bgp::{Attribute, Ipv4Net, Ipv6Net, Nexthop, Nlri, PathNlri};
use rustybgp_table as table;
use std::collections::BTreeMap;
use std::net::Ipv6Addr;
use std::sync::Arc;
use tokio::io::AsyncWriteExt as _;

const LOCAL_ASN: u32 = 65000;

struct Peer {
    src: Arc<table::Source>,
    addpath: bool,
}

struct Op {
    peer: usize,
    exp: RouteExp,
}

struct Finding {
    sig: String,
    what: String,
    detail: String,
    bytes: Vec<u8>,
}

fn finding(record: &str, clause: &str, what: &str, detail: String, bytes: &[u8]) -> Finding {
    let sig = if clause.starts_with("panic/") {
        format!("C19/{}", clause)
    } else {
        format!("C19/mrtd/{}/{}", record, clause)
    };
    Finding {
        sig,
        what: what.to_string(),
        detail,
        bytes: bytes.to_vec(),
    }
}

fn report(rep: &mut Report, f: Finding, input: Json, hseed: u64) {
    rep.count("alarms");
    if rep.has_violation(&f.sig) {
        rep.violation(&f.sig, &f.what, Json::Null);
        return;
    }
    rep.violation(
        &f.sig,
        &f.what,
        Json::obj(vec![
            ("input", input),
            ("observed", Json::s(f.detail)),
            ("emitted_bytes", bytes_json(&f.bytes)),
            ("history_seed", Json::Int(hseed as i128)),
            ("seed", Json::Int(rep.params.seed as i128)),
        ]),
    );
}

// ------------------------------------------------------------------ workload

fn v4_prefix(i: usize) -> Nlri {
    // a few lengths incl. /0-ish short and host routes
    let (a, m) = match i % 12 {
        0 => (Ipv4Addr::new(10, 0, 0, 0), 8),
        1 => (Ipv4Addr::new(10, 1, 0, 0), 16),
        2 => (Ipv4Addr::new(10, 1, 2, 0), 24),
        3 => (Ipv4Addr::new(10, 1, 2, 3), 32),
        4 => (Ipv4Addr::new(0, 0, 0, 0), 0),
        5 => (Ipv4Addr::new(172, 16, 0, 0), 12),
        6 => (Ipv4Addr::new(192, 0, 2, 128), 25),
        7 => (Ipv4Addr::new(198, 51, 100, 0), 22),
        8 => (Ipv4Addr::new(203, 0, 113, 64), 27),
        9 => (Ipv4Addr::new(100, 64, 0, 0), 10),
        10 => (Ipv4Addr::new(128, 0, 0, 0), 1),
        _ => (Ipv4Addr::new(10, 200, 0, 0), 17),
    };
    Nlri::V4(Ipv4Net { addr: a, mask: m })
}

fn v6_prefix(i: usize) -> Nlri {
    let (a, m): (Ipv6Addr, u8) = match i % 8 {
        0 => ("2001:db8::".parse().unwrap(), 32),
        1 => ("2001:db8:1::".parse().unwrap(), 48),
        2 => ("2001:db8:1:2::".parse().unwrap(), 64),
        3 => ("2001:db8::1".parse().unwrap(), 128),
        4 => ("::".parse().unwrap(), 0),
        5 => ("2001:db8:ffff:ff80::".parse().unwrap(), 57),
        6 => ("fc00::".parse().unwrap(), 7),
        _ => ("2001:db8:a:b:c::".parse().unwrap(), 80),
    };
    Nlri::V6(Ipv6Net { addr: a, mask: m })
}

fn gen_peers(rng: &mut Rng) -> Vec<Peer> {
    let n = rng.range(2, 9) as usize;
    let mut v = Vec::new();
    for i in 0..n {
        let v6 = rng.chance(2, 5);
        let ibgp = rng.chance(1, 4);
        let asn = if ibgp {
            LOCAL_ASN
        } else if rng.bool() {
            64512 + i as u32
        } else {
            4_200_000_000 + i as u32
        };
        let (remote, local): (IpAddr, IpAddr) = if v6 {
            (
                IpAddr::V6(Ipv6Addr::new(
                    0x2001,
                    0xdb8,
                    0xfe,
                    0,
                    0,
                    0,
                    0,
                    0x10 + i as u16,
                )),
                IpAddr::V6(Ipv6Addr::new(0x2001, 0xdb8, 0xfe, 0, 0, 0, 0, 1)),
            )
        } else {
            (
                IpAddr::V4(Ipv4Addr::new(192, 0, 2, 10 + i as u8)),
                IpAddr::V4(Ipv4Addr::new(192, 0, 2, 1)),
            )
        };
        let src = Arc::new(table::Source::new(
            remote,
            local,
            asn,
            LOCAL_ASN,
            Ipv4Addr::new(1, 1, rng.below(200) as u8, 10 + i as u8),
            if ibgp {
                table::PeerRole::Ibgp
            } else {
                table::PeerRole::Ebgp
            },
        ));
        v.push(Peer {
            src,
            addpath: rng.chance(1, 3),
        });
    }
    if rng.chance(1, 4) {
        // locally originated routes (gRPC add_path) share the RIB with peer routes
        v.push(Peer {
            src: table::Source::local(),
            addpath: false,
        });
    }
    v
}

fn gen_nexthop_for(rng: &mut Rng, fam: Family, peer: &Peer) -> Option<Nexthop> {
    let v6peer = peer.src.remote_addr.is_ipv6();
    if fam == Family::IPV6 {
        return Some(if rng.chance(1, 3) {
            Nexthop::V6LinkLocal(rand_v6(rng), rand_ll(rng))
        } else {
            Nexthop::V6(rand_v6(rng))
        });
    }
    if fam == Family::IPV4 {
        // RFC 8950: an IPv4 prefix learned over an IPv6 session may have an IPv6 next hop
        if v6peer && rng.chance(2, 3) {
            return Some(if rng.chance(1, 4) {
                Nexthop::V6LinkLocal(rand_v6(rng), rand_ll(rng))
            } else {
                Nexthop::V6(rand_v6(rng))
            });
        }
        return Some(Nexthop::V4(rand_v4(rng)));
    }
    // VPN / EVPN
    Some(if rng.bool() {
        Nexthop::V4(rand_v4(rng))
    } else {
        Nexthop::V6(rand_v6(rng))
    })
}

fn import_policy_set_local_pref() -> Arc<table::PolicyAssignment> {
    let mut pt = table::PolicyTable::new();
    let actions = table::Actions {
        local_pref: Some(table::LocalPrefAction { value: 250 }),
        ..Default::default()
    };
    pt.add_statement("lp", vec![], Some(table::Disposition::Accept), actions)
        .unwrap();
    pt.add_policy("pa", vec!["lp".into()]).unwrap();
    pt.build_assignment(
        None,
        "a",
        table::PolicyDirection::Import,
        table::Disposition::Accept,
        vec!["pa".into()],
    )
    .unwrap()
}

// ------------------------------------------------------------------ BGP4MP judgement

/// Judge the BGP4MP records emitted for one op.  Ok(counters) / Err(finding).
fn judge_bgp4mp(
    ps: &mut Parsers,
    bytes: &[u8],
    op: &Op,
    peers: &[Peer],
) -> Result<Vec<String>, Finding> {
    let exp = &op.exp;
    let src = &peers[op.peer].src;
    let recs = match read_mrt(bytes) {
        Ok(r) => r,
        Err((c, d)) => {
            return Err(finding(
                "bgp4mp",
                &c,
                "MRT common header length does not delimit the record",
                d,
                bytes,
            ));
        }
    };
    if recs.is_empty() {
        return Err(finding(
            "bgp4mp",
            "nothing-emitted",
            "no MRT record for a monitored Adj-RIB-In change",
            String::new(),
            bytes,
        ));
    }
    let mut d = Decoded::default();
    let mut name = "bgp4mp";
    for r in &recs {
        let mut body = r.body;
        if r.typ == 17 {
            if body.len() < 4 {
                return Err(finding(
                    "bgp4mp-et",
                    "common-length",
                    "BGP4MP_ET record shorter than its microsecond field",
                    String::new(),
                    bytes,
                ));
            }
            body = &body[4..];
        } else if r.typ != 16 {
            return Err(finding(
                "bgp4mp",
                "type",
                "record type is not BGP4MP / BGP4MP_ET",
                format!("type {}", r.typ),
                bytes,
            ));
        }
        let (n, st_as4, st_addpath, is_msg) = match bgp4mp_subtype(r.subtype) {
            Some(x) => x,
            None => {
                return Err(finding(
                    "bgp4mp",
                    "subtype-unknown",
                    "unknown BGP4MP subtype",
                    format!("subtype {}", r.subtype),
                    bytes,
                ));
            }
        };
        name = n;
        if !is_msg {
            return Err(finding(
                n,
                "subtype-kind",
                "a BGP message was monitored but the record is a state change",
                String::new(),
                bytes,
            ));
        }
        let m = match read_mp(body, st_as4) {
            Ok(m) => m,
            Err(why) => {
                if read_mp(body, !st_as4).is_ok() {
                    return Err(finding(
                        n,
                        "as-width-vs-subtype",
                        "AS fields of the BGP4MP header do not have the width the subtype states",
                        format!(
                            "subtype {} states {}-byte AS fields ({})",
                            r.subtype,
                            if st_as4 { 4 } else { 2 },
                            why
                        ),
                        bytes,
                    ));
                }
                return Err(finding(
                    n,
                    "header-malformed",
                    "BGP4MP header does not read with either AS width",
                    why,
                    bytes,
                ));
            }
        };
        if st_addpath != exp.addpath {
            return Err(finding(
                n,
                "subtype-addpath",
                "add-path-ness of the subtype differs from the monitored session",
                format!(
                    "subtype {} addpath={} session addpath={}",
                    r.subtype, st_addpath, exp.addpath
                ),
                bytes,
            ));
        }
        if (m.afi == 2) != src.remote_addr.is_ipv6() {
            return Err(finding(
                "bgp4mp",
                "afi",
                "AFI of the BGP4MP header does not match the peer address family",
                format!("afi {} peer {}", m.afi, src.remote_addr),
                bytes,
            ));
        }
        if m.remote != ipn(&src.remote_addr) || m.local != ipn(&src.local_addr) {
            return Err(finding(
                "bgp4mp",
                "addresses",
                "addresses in the BGP4MP header differ from the session's",
                format!(
                    "{} {} expected {} {}",
                    hex(m.remote),
                    hex(m.local),
                    src.remote_addr,
                    src.local_addr
                ),
                bytes,
            ));
        }
        if m.remote_as != src.remote_asn || m.local_as != src.local_asn {
            return Err(finding(
                "bgp4mp",
                "as-numbers",
                "AS numbers in the BGP4MP header differ from the session's",
                format!(
                    "{} {} expected {} {}",
                    m.remote_as, m.local_as, src.remote_asn, src.local_asn
                ),
                bytes,
            ));
        }
        let pdu = match one_pdu(m.rest, 2) {
            Ok(p) => p,
            Err((c, dd)) => {
                return Err(finding(
                    "bgp4mp",
                    &c,
                    "a BGP4MP_MESSAGE record must contain exactly one BGP message filling the record",
                    dd,
                    bytes,
                ));
            }
        };
        match ps.parse(pdu, st_addpath, !st_as4) {
            Ok(pm) => d.absorb(pm),
            Err((c, dd)) => {
                let c = if c.starts_with("panic/") {
                    c
                } else {
                    format!("{}/{}", c, exp.shape())
                };
                return Err(finding(
                    "bgp4mp",
                    &c,
                    "embedded UPDATE is not readable by the repository's parser with the add-path / AS-size setting the record states",
                    dd,
                    bytes,
                ));
            }
        }
    }
    if let Err((c, dd)) = compare_exp(exp, &d) {
        return Err(finding(
            "bgp4mp",
            &format!("{}/{}", c, exp.shape()),
            "embedded UPDATE(s) do not parse back to the monitored prefixes / attributes / next hop",
            dd,
            bytes,
        ));
    }
    let mut counters = vec![
        format!("mrtd:subtype/{}", name),
        format!("mrtd:family/{}", fam_name(exp.family)),
    ];
    counters.push(if src.remote_addr.is_ipv6() {
        "mrtd:bgp4mp-peer-v6".into()
    } else {
        "mrtd:bgp4mp-peer-v4".into()
    });
    if exp.addpath {
        counters.push("mrtd:bgp4mp-addpath".into());
    }
    if !exp.reach {
        counters.push("mrtd:bgp4mp-withdraw".into());
    }
    if exp.reach && exp.family == Family::IPV4 && exp.v6_nexthop() {
        counters.push("mrtd:bgp4mp-ipv4-prefix-v6-nexthop".into());
    }
    if exp.attr_bytes() > 4096 {
        counters.push("mrtd:bgp4mp-attrs-exceed-4096".into());
    }
    if src.remote_asn > 65535 {
        counters.push("mrtd:bgp4mp-4-byte-peer-as".into());
    }
    Ok(counters)
}

fn op_json(op: &Op, peers: &[Peer]) -> Json {
    let s = &peers[op.peer].src;
    Json::obj(vec![
        (
            "peer",
            Json::s(format!(
                "{} AS{} id {} local {} AS{} addpath={}",
                s.remote_addr,
                s.remote_asn,
                Ipv4Addr::from(s.router_id),
                s.local_addr,
                s.local_asn,
                peers[op.peer].addpath
            )),
        ),
        ("route", op.exp.json()),
    ])
}

// ------------------------------------------------------------------ TABLE_DUMP_V2 reader + judgement

struct TdPeerRead {
    typ: u8,
    id: [u8; 4],
    addr: Vec<u8>,
    asn: u32,
}

struct TdEntryRead {
    idx: usize,
    blob: Vec<u8>,
}

struct TdRibRead {
    v6: bool,
    seq: u32,
    plen: u8,
    pbytes: Vec<u8>,
    prefix_wire: Vec<u8>,
    entries: Vec<TdEntryRead>,
}

type GtKey = (bool, u8, Vec<u8>);
/// (peer address bytes, AS, BGP id, attributes by content, next hop bytes)
type GtPath = (Vec<u8>, u32, [u8; 4], String, Option<Vec<u8>>);

fn gt_path_str(p: &GtPath) -> String {
    format!(
        "peer {} AS{} id {} nh {} attrs [{}]",
        hex(&p.0),
        p.1,
        hex(&p.2),
        p.4.as_ref()
            .map(|x| hex(x))
            .unwrap_or_else(|| "none".into()),
        short(&p.3, 200)
    )
}

fn ground_truth(tables: &TableManager) -> BTreeMap<GtKey, (String, Vec<GtPath>)> {
    let mut m = BTreeMap::new();
    for (fam, v6) in [(Family::IPV4, false), (Family::IPV6, true)] {
        for d in tables.collect_paths(table::TableQuery::Global, fam, vec![], false) {
            let (l, b) = prefix_bytes(&d.net);
            let paths: Vec<GtPath> = d
                .paths
                .iter()
                .map(|p| {
                    (
                        ipn(&p.source.remote_addr),
                        p.source.remote_asn,
                        p.source.router_id.to_be_bytes(),
                        attrs_canon(&p.attr),
                        p.nexthop.as_ref().map(nh_bytes),
                    )
                })
                .collect();
            m.insert((v6, l, b), (d.net.to_string(), paths));
        }
    }
    m
}

/// Judge one dump file against the RIB.  Ok(counters) / Err(finding).
fn judge_table_dump(
    ps: &mut Parsers,
    bytes: &[u8],
    router_id: Ipv4Addr,
    gt: &BTreeMap<GtKey, (String, Vec<GtPath>)>,
    rep: &mut Report,
) -> Result<(), Finding> {
    let recs = match read_mrt(bytes) {
        Ok(r) => r,
        Err((c, d)) => {
            return Err(finding(
                "file",
                &c,
                "MRT common header lengths do not delimit the records of the dump file",
                d,
                bytes,
            ));
        }
    };
    if recs.is_empty() {
        return Err(finding(
            "file",
            "empty",
            "dump_table wrote nothing",
            String::new(),
            bytes,
        ));
    }
    // ---- PEER_INDEX_TABLE
    let r0 = &recs[0];
    if r0.typ != 13 || r0.subtype != 1 {
        return Err(finding(
            "peer-index",
            "missing",
            "a TABLE_DUMP_V2 file must start with the PEER_INDEX_TABLE",
            format!("first record type {} subtype {}", r0.typ, r0.subtype),
            bytes,
        ));
    }
    let body = r0.body;
    if body.len() < 8 {
        return Err(finding(
            "peer-index",
            "short",
            "PEER_INDEX_TABLE shorter than its fixed fields",
            String::new(),
            body,
        ));
    }
    if body[..4] != router_id.octets() {
        return Err(finding(
            "peer-index",
            "collector-id",
            "collector BGP ID differs from the router id",
            format!("{} expected {}", hex(&body[..4]), router_id),
            body,
        ));
    }
    let vlen = u16::from_be_bytes([body[4], body[5]]) as usize;
    if body.len() < 8 + vlen {
        return Err(finding(
            "peer-index",
            "view-name",
            "view name overruns the record",
            format!("{}", vlen),
            body,
        ));
    }
    let o = 6 + vlen;
    let count = u16::from_be_bytes([body[o], body[o + 1]]) as usize;
    let mut o = o + 2;
    let mut table_read: Vec<TdPeerRead> = Vec::new();
    while o < body.len() {
        let typ = body[o];
        let alen = if typ & 1 != 0 { 16 } else { 4 };
        let aslen = if typ & 2 != 0 { 4 } else { 2 };
        if o + 1 + 4 + alen + aslen > body.len() {
            return Err(finding(
                "peer-index",
                "peer-entry-overrun",
                "a peer entry overruns the record",
                format!("entry {} type {:02x}", table_read.len(), typ),
                body,
            ));
        }
        let mut id = [0u8; 4];
        id.copy_from_slice(&body[o + 1..o + 5]);
        let addr = body[o + 5..o + 5 + alen].to_vec();
        let a = &body[o + 5 + alen..o + 5 + alen + aslen];
        let asn = if aslen == 4 {
            u32::from_be_bytes([a[0], a[1], a[2], a[3]])
        } else {
            u16::from_be_bytes([a[0], a[1]]) as u32
        };
        table_read.push(TdPeerRead { typ, id, addr, asn });
        o += 1 + 4 + alen + aslen;
    }
    if count != table_read.len() {
        return Err(finding(
            "peer-index",
            "peer-count",
            "peer count field differs from the peer entries written",
            format!(
                "count field {} entries in record {}",
                count,
                table_read.len()
            ),
            body,
        ));
    }
    // peers written == distinct peers that have a path in the dumped RIB
    let mut want_peers: BTreeMap<Vec<u8>, (u32, [u8; 4])> = BTreeMap::new();
    for (_, paths) in gt.values() {
        for p in paths {
            want_peers.entry(p.0.clone()).or_insert((p.1, p.2));
        }
    }
    let mut seen: BTreeMap<Vec<u8>, usize> = BTreeMap::new();
    for (i, p) in table_read.iter().enumerate() {
        if seen.insert(p.addr.clone(), i).is_some() {
            return Err(finding(
                "peer-index",
                "peer-duplicate",
                "the same peer address appears twice in the PEER_INDEX_TABLE",
                hex(&p.addr),
                body,
            ));
        }
        match want_peers.get(&p.addr) {
            None => {
                return Err(finding(
                    "peer-index",
                    "peer-unknown",
                    "PEER_INDEX_TABLE lists a peer no dumped path was learned from",
                    format!("peer {} addr {} AS{}", i, hex(&p.addr), p.asn),
                    body,
                ));
            }
            Some((asn, id)) => {
                if *asn != p.asn || *id != p.id {
                    return Err(finding(
                        "peer-index",
                        "peer-differs",
                        "peer entry AS / BGP ID differ from the source of the paths",
                        format!(
                            "peer {} addr {}: AS{} id {} expected AS{} id {}",
                            i,
                            hex(&p.addr),
                            p.asn,
                            hex(&p.id),
                            asn,
                            hex(id)
                        ),
                        body,
                    ));
                }
            }
        }
    }
    if table_read.len() != want_peers.len() {
        return Err(finding(
            "peer-index",
            "peer-count",
            "peer count differs from the number of peers paths were learned from",
            format!(
                "{} peers written, {} distinct sources in the RIB",
                table_read.len(),
                want_peers.len()
            ),
            body,
        ));
    }
    rep.count("mrtd:td-peer-index-tables");
    rep.count_n("mrtd:td-peers-written", table_read.len() as u64);
    if table_read.iter().any(|p| p.typ & 1 != 0) {
        rep.count("mrtd:td-peer-table-with-v6-peer");
    }
    rep.max("td-peers", table_read.len() as u64);

    // ---- RIB records
    let mut ribs: Vec<TdRibRead> = Vec::new();
    for r in &recs[1..] {
        if r.typ != 13 {
            return Err(finding(
                "rib",
                "type",
                "a record after the PEER_INDEX_TABLE is not TABLE_DUMP_V2",
                format!("type {}", r.typ),
                r.body,
            ));
        }
        let v6 = match r.subtype {
            2 => false,
            4 => true,
            1 => {
                return Err(finding(
                    "peer-index",
                    "repeated",
                    "a second PEER_INDEX_TABLE in one dump",
                    String::new(),
                    r.body,
                ));
            }
            s => {
                return Err(finding(
                    "rib",
                    "subtype",
                    "unexpected TABLE_DUMP_V2 subtype (only RIB_IPV4/IPV6_UNICAST are produced)",
                    format!("subtype {}", s),
                    r.body,
                ));
            }
        };
        let b = r.body;
        if b.len() < 7 {
            return Err(finding(
                "rib",
                "short",
                "RIB record shorter than its fixed fields",
                String::new(),
                b,
            ));
        }
        let seq = u32::from_be_bytes([b[0], b[1], b[2], b[3]]);
        let plen = b[4];
        if plen > if v6 { 128 } else { 32 } {
            return Err(finding(
                "rib",
                "subtype-afi",
                "prefix length exceeds the address size of the subtype's AFI",
                format!("{} bits in subtype {}", plen, r.subtype),
                b,
            ));
        }
        let pb = (plen as usize).div_ceil(8);
        if b.len() < 5 + pb + 2 {
            return Err(finding(
                "rib",
                "prefix-overrun",
                "prefix overruns the record",
                String::new(),
                b,
            ));
        }
        let mut o = 5 + pb;
        let cnt = u16::from_be_bytes([b[o], b[o + 1]]) as usize;
        o += 2;
        let mut entries = Vec::new();
        while o < b.len() {
            if b.len() - o < 8 {
                return Err(finding(
                    "rib",
                    "entry-overrun",
                    "a RIB entry header overruns the record",
                    format!("entry {}", entries.len()),
                    b,
                ));
            }
            let idx = u16::from_be_bytes([b[o], b[o + 1]]) as usize;
            let alen = u16::from_be_bytes([b[o + 6], b[o + 7]]) as usize;
            if o + 8 + alen > b.len() {
                return Err(finding(
                    "rib",
                    "attr-length",
                    "attribute length of a RIB entry overruns the record",
                    format!("entry {} attr length {}", entries.len(), alen),
                    b,
                ));
            }
            entries.push(TdEntryRead {
                idx,
                blob: b[o + 8..o + 8 + alen].to_vec(),
            });
            o += 8 + alen;
        }
        if cnt != entries.len() {
            return Err(finding(
                "rib",
                "entry-count",
                "entry count field differs from the entries in the record",
                format!("count field {} entries {}", cnt, entries.len()),
                b,
            ));
        }
        ribs.push(TdRibRead {
            v6,
            seq,
            plen,
            pbytes: b[5..5 + pb].to_vec(),
            prefix_wire: b[4..5 + pb].to_vec(),
            entries,
        });
    }
    // sequence numbers: strictly increasing within a subtype (judged); a restart
    // between the IPv4 and the IPv6 part is counted, not judged (the statement
    // does not name sequence numbers)
    let mut last: [Option<u32>; 2] = [None, None];
    let mut last_any: Option<u32> = None;
    for r in &ribs {
        let k = r.v6 as usize;
        if let Some(p) = last[k] {
            if r.seq <= p {
                return Err(finding(
                    "rib",
                    "sequence",
                    "sequence numbers of the RIB records of one subtype are not increasing",
                    format!("{} after {}", r.seq, p),
                    bytes,
                ));
            }
        }
        last[k] = Some(r.seq);
        if let Some(p) = last_any {
            if r.seq <= p {
                rep.count("unjudged:td-sequence-restarts-between-afis");
            }
        }
        last_any = Some(r.seq);
    }
    // content
    let mut used: BTreeMap<GtKey, bool> = BTreeMap::new();
    for r in &ribs {
        let key: GtKey = (r.v6, r.plen, r.pbytes.clone());
        let Some((pname, want)) = gt.get(&key) else {
            return Err(finding(
                "rib",
                "prefix-unknown",
                "a RIB record for a prefix the RIB does not hold",
                format!("{}/{} v6={}", hex(&r.pbytes), r.plen, r.v6),
                bytes,
            ));
        };
        if used.insert(key.clone(), true).is_some() {
            return Err(finding(
                "rib",
                "prefix-duplicate",
                "two RIB records for the same prefix",
                pname.clone(),
                bytes,
            ));
        }
        let mut got: Vec<GtPath> = Vec::new();
        for (n, e) in r.entries.iter().enumerate() {
            if e.idx >= table_read.len() {
                return Err(finding(
                    "rib",
                    "peer-index-range",
                    "peer index is not below the peer count of the PEER_INDEX_TABLE",
                    format!(
                        "{} entry {} index {} peers {}",
                        pname,
                        n,
                        e.idx,
                        table_read.len()
                    ),
                    bytes,
                ));
            }
            let tlvs = match walk_attrs(&e.blob) {
                Ok(t) => t,
                Err(why) => {
                    return Err(finding(
                        "rib",
                        "attr-length",
                        "attribute block of a RIB entry is not a sequence of well-framed attributes",
                        format!("{} entry {}: {}", pname, n, why),
                        &e.blob,
                    ));
                }
            };
            let mut rest = Vec::new();
            let mut mp_nh: Option<Vec<u8>> = None;
            for (_f, code, val, whole) in &tlvs {
                if *code == Attribute::MP_REACH {
                    if val.is_empty() || val.len() != 1 + val[0] as usize || mp_nh.is_some() {
                        return Err(finding(
                            "rib",
                            "mp-reach-form",
                            "MP_REACH_NLRI in a RIB entry is not the abbreviated next-hop-only form of RFC 6396 4.3.4",
                            format!("{} entry {}: {}", pname, n, hex(val)),
                            &e.blob,
                        ));
                    }
                    mp_nh = Some(val[1..].to_vec());
                } else {
                    rest.extend_from_slice(whole);
                }
            }
            let (ga, gnh) =
                match parse_attr_blob(ps, &rest, if r.v6 { None } else { Some(&r.prefix_wire) }) {
                    Ok(x) => x,
                    Err(why) => {
                        let c = if why.starts_with("panic/") {
                            why.split(':').next().unwrap_or("panic").to_string()
                        } else {
                            "attrs-unparsable".to_string()
                        };
                        return Err(finding(
                            "rib",
                            &c,
                            "attributes of a RIB entry are not readable by the repository's parser",
                            format!("{} entry {}: {}", pname, n, why),
                            &e.blob,
                        ));
                    }
                };
            let p = &table_read[e.idx];
            got.push((
                p.addr.clone(),
                p.asn,
                p.id,
                ga,
                mp_nh.or(gnh.map(|n| nh_bytes(&n))),
            ));
        }
        // multiset equality of entries and the RIB's paths
        let mut w: Vec<GtPath> = want.clone();
        let mut g: Vec<GtPath> = got.clone();
        w.sort();
        g.sort();
        if w != g {
            let strip_peer = |v: &[GtPath]| -> Vec<(String, Option<Vec<u8>>)> {
                let mut x: Vec<_> = v.iter().map(|p| (p.3.clone(), p.4.clone())).collect();
                x.sort();
                x
            };
            let strip_nh = |v: &[GtPath]| -> Vec<(Vec<u8>, String)> {
                let mut x: Vec<_> = v.iter().map(|p| (p.0.clone(), p.3.clone())).collect();
                x.sort();
                x
            };
            let clause = if w.len() != g.len() {
                "entry-count"
            } else if strip_peer(&w) == strip_peer(&g) {
                "peer-index-wrong-peer"
            } else if strip_nh(&w) == strip_nh(&g) {
                if !r.v6 && w.iter().any(|p| p.4.as_ref().is_some_and(|n| n.len() != 4)) {
                    "nexthop-differs/ipv4-prefix-v6-nexthop"
                } else {
                    "nexthop-differs"
                }
            } else {
                "attrs-differ"
            };
            let what = match clause {
                "entry-count" => {
                    "number of RIB entries differs from the paths the RIB holds for the prefix"
                }
                "peer-index-wrong-peer" => {
                    "peer index does not point at the peer the path was learned from"
                }
                "attrs-differ" => "attributes of a RIB entry differ from the path's attributes",
                _ => "next hop of a RIB entry differs from the path's next hop",
            };
            let only_w: Vec<String> = w
                .iter()
                .filter(|p| !g.contains(p))
                .take(4)
                .map(gt_path_str)
                .collect();
            let only_g: Vec<String> = g
                .iter()
                .filter(|p| !w.contains(p))
                .take(4)
                .map(gt_path_str)
                .collect();
            return Err(finding(
                "rib",
                clause,
                what,
                format!(
                    "{}: RIB holds {} paths, record has {} entries; only in RIB: {:?}; only in record: {:?}",
                    pname,
                    w.len(),
                    g.len(),
                    only_w,
                    only_g
                ),
                bytes,
            ));
        }
        rep.eval();
        rep.nontrivial(fnv64(
            &[
                &r.prefix_wire[..],
                &r.entries
                    .iter()
                    .flat_map(|e| e.blob.clone())
                    .collect::<Vec<u8>>()[..],
            ]
            .concat(),
        ));
        rep.count(if r.v6 {
            "mrtd:td-rib-ipv6"
        } else {
            "mrtd:td-rib-ipv4"
        });
        rep.count_n("mrtd:td-rib-entries", r.entries.len() as u64);
        rep.max("td-entries-per-prefix", r.entries.len() as u64);
        if r.entries.len() > 1 {
            rep.count("mrtd:td-rib-multi-entry");
        }
        if r.entries.iter().any(|e| e.idx > 0) {
            rep.count("mrtd:td-rib-nonzero-peer-index");
        }
        if !r.v6
            && want
                .iter()
                .any(|p| p.4.as_ref().is_some_and(|n| n.len() != 4))
        {
            rep.count("mrtd:td-ipv4-prefix-v6-nexthop");
        }
        // two paths of one add-path peer for one prefix: the path id cannot be
        // represented in RIB_IPVx_UNICAST (RFC 8050 RIB_*_ADDPATH is not produced)
        let mut per_peer: BTreeMap<&Vec<u8>, usize> = BTreeMap::new();
        for p in want {
            *per_peer.entry(&p.0).or_insert(0) += 1;
        }
        if per_peer.values().any(|n| *n > 1) {
            rep.count("unjudged:td-addpath-path-id-not-representable");
        }
    }
    for (k, (pname, _)) in gt {
        if !used.contains_key(k) {
            return Err(finding(
                "rib",
                "prefix-missing",
                "a prefix the RIB holds has no RIB record in the dump",
                pname.clone(),
                bytes,
            ));
        }
    }
    Ok(())
}

// ------------------------------------------------------------------ one history

fn wait_until<F: FnMut() -> bool>(mut f: F, secs: u64) -> bool {
    let t0 = std::time::Instant::now();
    while t0.elapsed().as_secs() < secs {
        if f() {
            return true;
        }
        std::thread::sleep(std::time::Duration::from_millis(2));
    }
    f()
}

fn history(rep: &mut Report, ps: &mut Parsers, rng: &mut Rng, hseed: u64, dir: &str, n: u64) {
    let shards = *rng.pick(&[1usize, 2, 4]);
    let tables: TableHandle = Arc::new(TableManager::new(shards));
    if rng.chance(1, 4) {
        tables
            .import_policy
            .store(Some(import_policy_set_local_pref()));
        rep.count("mrtd:histories-with-import-policy");
    }
    let peers = gen_peers(rng);
    // add-path peers are known to the RIB through register_peer, as on_established does
    let mut keep_rx = Vec::new();
    for p in &peers {
        if p.addpath {
            let mut fams = fnv::FnvHashSet::default();
            fams.insert(Family::IPV4);
            fams.insert(Family::IPV6);
            fams.insert(Family::IPV4_VPN);
            keep_rx.push(tables.register_peer(p.src.remote_addr, fams, |_| {}));
        }
    }
    // attribute pool (only sets the repository's own parser reads back unchanged)
    let mut pool: Vec<Arc<Vec<Attribute>>> = Vec::new();
    while pool.len() < 8 {
        let size = match rng.below(30) {
            0 => AttrSize::Huge,
            1..=4 => AttrSize::Extended,
            _ => AttrSize::Normal,
        };
        let a = gen_attrs(rng, size, false);
        if attrs_stable(ps, &a) {
            pool.push(Arc::new(a));
        } else {
            rep.count("unjudged:attrs-not-bgp-stable");
        }
    }
    let rt = match tokio::runtime::Builder::new_multi_thread()
        .worker_threads(2)
        .enable_all()
        .build()
    {
        Ok(r) => r,
        Err(_) => {
            rep.inconclusive("cannot build a tokio runtime");
            return;
        }
    };
    let upd_path = format!("{}/upd-{}.mrt", dir, n);
    let td_path = format!("{}/td-{}.mrt", dir, n);
    let cancel = CancellationToken::new();
    let file = match rt.block_on(tokio::fs::File::create(&upd_path)) {
        Ok(f) => f,
        Err(e) => {
            rep.inconclusive(&format!("cannot create {}: {}", upd_path, e));
            return;
        }
    };
    let jh = {
        let tables = tables.clone();
        let cancel = cancel.clone();
        let path = upd_path.clone();
        rt.spawn(async move {
            let mut d = MrtDumper::new(&path, 0);
            d.serve(file, cancel, tables).await
        })
    };
    if !wait_until(|| !tables.bmp_senders().is_empty(), 10) {
        rep.inconclusive("MrtDumper::serve did not subscribe within 10 s");
        return;
    }
    let mut mine = tables.subscribe(false);

    // ---- ops
    let nops = match rng.below(10) {
        0..=5 => rng.range(10, 60),
        6..=8 => rng.range(60, 200),
        _ => rng.range(200, 500),
    } as usize;
    let mut ops: Vec<Op> = Vec::new();
    let mut live: Vec<(usize, Family, PathNlri)> = Vec::new();
    for i in 0..nops {
        let pi = rng.usize(peers.len());
        let peer = &peers[pi];
        if !live.is_empty() && rng.chance(1, 5) {
            let k = rng.usize(live.len());
            let (wp, fam, net) = live.swap_remove(k);
            let exp = RouteExp {
                family: fam,
                reach: false,
                entries: vec![net.clone()],
                nexthop: None,
                attrs: Arc::new(Vec::new()),
                addpath: peers[wp].addpath && fam != Family::L2VPN_EVPN && fam != Family::IPV6_VPN,
            };
            tables.remove_route(peers[wp].src.clone(), fam, net, None, i as u32);
            ops.push(Op { peer: wp, exp });
            continue;
        }
        let fam = match rng.below(20) {
            0..=9 => Family::IPV4,
            10..=16 => Family::IPV6,
            17 => Family::IPV4_VPN,
            18 => Family::IPV6_VPN,
            _ => Family::L2VPN_EVPN,
        };
        let nlri = if fam == Family::IPV4 {
            v4_prefix(rng.usize(12))
        } else if fam == Family::IPV6 {
            v6_prefix(rng.usize(8))
        } else {
            gen_nlri(rng, fam, true)
        };
        // the register_peer above declared add-path for IPV4 / IPV6 / IPV4_VPN
        let ap =
            peer.addpath && (fam == Family::IPV4 || fam == Family::IPV6 || fam == Family::IPV4_VPN);
        let net = PathNlri {
            path_id: if ap { rng.range(1, 3) as u32 } else { 0 },
            nlri,
        };
        let nh = gen_nexthop_for(rng, fam, peer);
        let attrs = rng.pick(&pool).clone();
        let exp = RouteExp {
            family: fam,
            reach: true,
            entries: vec![net.clone()],
            nexthop: nh,
            attrs: attrs.clone(),
            addpath: ap,
        };
        tables.insert_route(
            peer.src.clone(),
            fam,
            net.clone(),
            nh,
            attrs,
            None,
            i as u32,
        );
        if !live
            .iter()
            .any(|(p, f, n)| *p == pi && *f == fam && *n == net)
        {
            live.push((pi, fam, net));
        }
        ops.push(Op { peer: pi, exp });
    }
    // fix the expectation of withdraws of add-path state (computed from the same rule as inserts)
    for op in ops.iter_mut() {
        let f = op.exp.family;
        op.exp.addpath = peers[op.peer].addpath
            && (f == Family::IPV4 || f == Family::IPV6 || f == Family::IPV4_VPN);
    }

    // ---- direct path: the events of my own subscription through adj_rib_in_to_mrt + a session-long codec
    let mut codec = mrt::MrtCodec::new();
    let mut k = 0usize;
    while let Ok(ev) = mine.rx.try_recv() {
        let crate::table_manager::BgpEvent::AdjRibIn(change) = ev else {
            continue;
        };
        if k >= ops.len() {
            rep.violation(
                "C19/mrtd/bgp4mp/extra-event",
                "more Adj-RIB-In events than route operations",
                Json::Int(hseed as i128),
            );
            break;
        }
        let op = &ops[k];
        k += 1;
        rep.eval();
        if let Err(why) = exp_bgp_stable(ps, &op.exp, false) {
            rep.count(&format!(
                "unjudged:bgp-codec-unstable/{}",
                why.split(':').next().unwrap_or("")
            ));
            continue;
        }
        let out = guard(|| {
            let msg = adj_rib_in_to_mrt(&change);
            let mut buf = bytes::BytesMut::new();
            codec.encode(&msg, &mut buf).map(|_| buf.to_vec())
        });
        let bytes = match out {
            Ok(Ok(b)) => b,
            Ok(Err(e)) => {
                report(
                    rep,
                    finding(
                        "bgp4mp",
                        "encode-error",
                        "MrtCodec refuses what adj_rib_in_to_mrt built",
                        format!("{:?}", e),
                        &[],
                    ),
                    op_json(op, &peers),
                    hseed,
                );
                continue;
            }
            Err(p) => {
                report(
                    rep,
                    finding(
                        "bgp4mp",
                        &format!("panic/{}:{}", p.location, panic_class(&p.message)),
                        "adj_rib_in_to_mrt / MrtCodec panicked",
                        p.message,
                        &[],
                    ),
                    op_json(op, &peers),
                    hseed,
                );
                continue;
            }
        };
        match judge_bgp4mp(ps, &bytes, op, &peers) {
            Ok(c) => {
                for x in c {
                    rep.count(&x);
                }
                rep.count("mrtd:direct-records");
                rep.nontrivial(fnv64(&bytes[12..]));
            }
            Err(f) => report(rep, f, op_json(op, &peers), hseed),
        }
    }
    tables.unsubscribe(mine.id);
    if k != ops.len() {
        rep.violation(
            "C19/mrtd/bgp4mp/event-count",
            "number of Adj-RIB-In events delivered differs from the route operations performed",
            Json::obj(vec![
                ("events", Json::Int(k as i128)),
                ("ops", Json::Int(ops.len() as i128)),
                ("history_seed", Json::Int(hseed as i128)),
            ]),
        );
    }

    // ---- the real serve loop: wait until it has written one record per op, then stop it
    let want = ops.len();
    let count_recs = |p: &str| -> usize {
        std::fs::read(p)
            .ok()
            .and_then(|b| read_mrt(&b).ok().map(|r| r.len()))
            .unwrap_or(0)
    };
    let settled = wait_until(|| count_recs(&upd_path) >= want, 20);
    cancel.cancel();
    let _ = rt.block_on(jh);

    // ---- the real dump_table
    let router_id = Ipv4Addr::new(10, 255, rng.below(256) as u8, 1);
    let td_res = guard(|| {
        rt.block_on(async {
            let mut f = tokio::fs::File::create(&td_path)
                .await
                .map_err(|e| format!("create: {}", e))?;
            dump_table(router_id, &tables, &mut f)
                .await
                .map_err(|e| format!("dump_table: {:?}", e))?;
            f.flush().await.map_err(|e| format!("flush: {}", e))?;
            Ok::<(), String>(())
        })
    });
    let gt = ground_truth(&tables);
    drop(rt); // waits for the blocking file operations still in flight
    let upd = std::fs::read(&upd_path).unwrap_or_default();
    let td = std::fs::read(&td_path).unwrap_or_default();
    let _ = std::fs::remove_file(&upd_path);
    let _ = std::fs::remove_file(&td_path);

    // BGP4MP file: one record per op, in op order
    match read_mrt(&upd) {
        Err((c, d)) => report(
            rep,
            finding(
                "file",
                &c,
                "MRT common header lengths do not delimit the records of the update dump file",
                d,
                &upd,
            ),
            Json::s("update dump"),
            hseed,
        ),
        Ok(recs) => {
            if !settled && recs.len() < want {
                rep.inconclusive("MrtDumper::serve had not written all records after 20 s");
            } else if recs.len() != want {
                report(
                    rep,
                    finding(
                        "bgp4mp",
                        "record-count",
                        "the update dump does not hold exactly one record per single-prefix Adj-RIB-In change",
                        format!("{} records for {} changes", recs.len(), want),
                        &[],
                    ),
                    Json::s("update dump"),
                    hseed,
                );
            } else {
                let mut off = 0usize;
                for (r, op) in recs.iter().zip(&ops) {
                    let whole = &upd[off..off + 12 + r.body.len()];
                    off += 12 + r.body.len();
                    rep.eval();
                    if exp_bgp_stable(ps, &op.exp, false).is_err() {
                        continue;
                    }
                    match judge_bgp4mp(ps, whole, op, &peers) {
                        Ok(_) => {
                            rep.count("mrtd:serve-records");
                            rep.nontrivial(fnv64(&whole[12..]) ^ 0x5e);
                        }
                        Err(f) => report(rep, f, op_json(op, &peers), hseed),
                    }
                }
            }
        }
    }

    // TABLE_DUMP_V2 file
    match td_res {
        Err(p) => report(
            rep,
            finding(
                "file",
                &format!("panic/{}:{}", p.location, panic_class(&p.message)),
                "dump_table panicked",
                p.message,
                &[],
            ),
            Json::s("table dump"),
            hseed,
        ),
        Ok(Err(e)) => {
            if e.starts_with("dump_table") {
                report(
                    rep,
                    finding(
                        "file",
                        "dump-error",
                        "dump_table failed on a populated RIB",
                        e,
                        &[],
                    ),
                    Json::s("table dump"),
                    hseed,
                )
            } else {
                rep.inconclusive(&format!("table dump file: {}", e));
            }
        }
        Ok(Ok(())) => {
            rep.eval();
            rep.count("mrtd:td-dumps");
            rep.count_n("mrtd:td-rib-prefixes-in-rib", gt.len() as u64);
            let desc = Json::obj(vec![
                ("router_id", Json::s(router_id.to_string())),
                ("shards", Json::Int(shards as i128)),
                (
                    "peers",
                    Json::strs(peers.iter().map(|p| {
                        format!(
                            "{} AS{} id {} addpath={}",
                            p.src.remote_addr,
                            p.src.remote_asn,
                            Ipv4Addr::from(p.src.router_id),
                            p.addpath
                        )
                    })),
                ),
                ("rib_prefixes", Json::Int(gt.len() as i128)),
                ("ops", Json::Int(ops.len() as i128)),
            ]);
            if let Err(f) = judge_table_dump(ps, &td, router_id, &gt, rep) {
                report(rep, f, desc, hseed);
            } else if rep.want_sample() {
                rep.sample(Json::obj(vec![
                    ("kind", Json::s("table-dump")),
                    ("input", desc),
                    ("file_bytes", Json::Int(td.len() as i128)),
                    ("verdict", Json::s("held")),
                ]));
            }
        }
    }
    rep.count("mrtd:histories");
    rep.count_n("mrtd:ops", ops.len() as u64);
    drop(keep_rx);
}

#[test]
fn run() {
    let params = Params::from_args_env();
    let mut rep = Report::new("C19", &params);
    let mut ps = Parsers::new();
    let mut rng = Rng::new(params.seed ^ 0xC19_D000);
    let dir = format!(
        "/verif/target/tmp/c19m-{}-{}",
        std::process::id(),
        params.shard
    );
    if std::fs::create_dir_all(&dir).is_err() {
        rep.inconclusive("cannot create the scratch directory under /verif/target/tmp");
        let _ = rep.finish();
        return;
    }
    let n = params.n(200, 4000);
    for i in 0..n {
        if !rep.in_budget() {
            break;
        }
        let hseed = rng.next_u64();
        let mut hr = Rng::new(hseed);
        history(&mut rep, &mut ps, &mut hr, hseed, &dir, i);
    }
    let _ = std::fs::remove_dir_all(&dir);
    if rep.evaluations < 100 && params.scale >= 1.0 {
        rep.inconclusive("fewer than 100 evaluations");
    }
    let _ = rep.finish();
}
