//! Shared by the daemon-side C19 monitors (c19b.rs = BMP, c19m.rs = MRT):
//! input generators, the independent structural readers (BGP framing per
//! RFC 4271 §4.1, BMP per RFC 7854 / 8671 / 9069, MRT per RFC 6396 / 8050) and
//! the wrappers around the repository's own BGP parser.  These are copies of the
//! harness's own code in src/bin/c19.rs (the packet-level half) — harness code,
//! not code under test.  Included with `#[path]` as `mod shared` by both modules.
#![allow(dead_code, unused_imports, clippy::all)]
use crate::verif_common::*;
use bytes::BytesMut;
use rustybgp_packet::bgp::{
    self, Attribute, Capability, Family, FamilyState, HoldTime, Ipv4Net, Ipv6Net, Nexthop, Nlri,
    Notification, Open, ParsedMessage, ParsedUpdate, PathNlri, PeerCodec, Update,
};
use rustybgp_packet::rd::RouteDistinguisher;
use rustybgp_packet::{bmp, evpn, flowspec, labeled, ls, mpls, mrt, mup, rtc, sr_policy, vpn};
use std::collections::{BTreeSet, HashMap};
use std::net::{IpAddr, Ipv4Addr, Ipv6Addr};
use std::sync::Arc;

// ------------------------------------------------------------------ families

pub const FAMILIES: &[(Family, &str)] = &[
    (Family::IPV4, "ipv4"),
    (Family::IPV6, "ipv6"),
    (Family::IPV4_MC, "ipv4-mc"),
    (Family::IPV6_MC, "ipv6-mc"),
    (Family::IPV4_MPLS, "ipv4-mpls"),
    (Family::IPV6_MPLS, "ipv6-mpls"),
    (Family::IPV4_VPN, "ipv4-vpn"),
    (Family::IPV6_VPN, "ipv6-vpn"),
    (Family::RTC, "rtc"),
    (Family::L2VPN_EVPN, "evpn"),
    (Family::IPV4_FLOWSPEC, "ipv4-flowspec"),
    (Family::IPV6_FLOWSPEC, "ipv6-flowspec"),
    (Family::IPV4_FLOWSPEC_VPN, "ipv4-flowspec-vpn"),
    (Family::IPV6_FLOWSPEC_VPN, "ipv6-flowspec-vpn"),
    (Family::IPV4_SRPOLICY, "ipv4-srpolicy"),
    (Family::IPV6_SRPOLICY, "ipv6-srpolicy"),
    (Family::IPV4_MUP, "ipv4-mup"),
    (Family::IPV6_MUP, "ipv6-mup"),
    (Family::LS, "ls"),
];

pub fn fam_name(f: Family) -> &'static str {
    FAMILIES
        .iter()
        .find(|(g, _)| *g == f)
        .map(|(_, n)| *n)
        .unwrap_or("other")
}

pub fn is_flowspec(f: Family) -> bool {
    f == Family::IPV4_FLOWSPEC
        || f == Family::IPV6_FLOWSPEC
        || f == Family::IPV4_FLOWSPEC_VPN
        || f == Family::IPV6_FLOWSPEC_VPN
}

pub fn attr_canon(a: &Attribute) -> String {
    // content, not representation: code, the flag bits that matter, value
    let v = match a.value() {
        Some(v) => format!("v{}", v),
        None => hex(a.binary().map(|b| b.as_slice()).unwrap_or(&[])),
    };
    format!("{}/{:02x}/{}", a.code(), a.flags() & 0xE0, v)
}

pub fn attrs_canon(attrs: &[Attribute]) -> String {
    let mut v: Vec<String> = attrs.iter().map(attr_canon).collect();
    v.sort();
    v.join(",")
}

pub fn nh_str(n: &Option<Nexthop>) -> String {
    match n {
        None => "none".into(),
        Some(n) => format!("{:?}", n),
    }
}

pub fn short(s: &str, n: usize) -> String {
    if s.len() <= n {
        s.to_string()
    } else {
        format!("{}…({} chars)", &s[..n], s.len())
    }
}

pub fn rand_v4(rng: &mut Rng) -> Ipv4Addr {
    Ipv4Addr::new(
        rng.range(1, 223) as u8,
        rng.next_u32() as u8,
        rng.next_u32() as u8,
        rng.range(1, 254) as u8,
    )
}

pub fn rand_v6(rng: &mut Rng) -> Ipv6Addr {
    let lo = rng.next_u64();
    let mid = rng.next_u32() as u128;
    Ipv6Addr::from((0x2001_0db8u128 << 96) | (mid << 64) | lo as u128)
}

/// `unit` * (lo..=hi) random bytes (for igp ids: lo or hi when unit == 2)
pub fn rbytes(rng: &mut Rng, lo: u64, hi: u64, unit: usize) -> Vec<u8> {
    if unit == 2 {
        let n = if rng.bool() { lo } else { hi } as usize;
        return rng.bytes(n);
    }
    let n = rng.range(lo, hi) as usize * unit;
    rng.bytes(n)
}

pub fn rand_ll(rng: &mut Rng) -> Ipv6Addr {
    Ipv6Addr::from((0xfe80u128 << 112) | rng.next_u64() as u128 | 1)
}

pub fn v4net(rng: &mut Rng) -> Ipv4Net {
    let mask = if rng.chance(1, 10) {
        rng.range(0, 32) as u8
    } else {
        rng.range(8, 32) as u8
    };
    let a = rng.next_u32();
    let m = if mask == 0 {
        0
    } else {
        a & (u32::MAX << (32 - mask as u32))
    };
    Ipv4Net {
        addr: Ipv4Addr::from(m),
        mask,
    }
}

pub fn v6net(rng: &mut Rng) -> Ipv6Net {
    let mask = if rng.chance(1, 10) {
        rng.range(0, 128) as u8
    } else {
        rng.range(16, 64) as u8
    };
    let a = ((rng.next_u64() as u128) << 64) | rng.next_u64() as u128;
    let m = if mask == 0 {
        0
    } else {
        a & (u128::MAX << (128 - mask as u32))
    };
    Ipv6Net {
        addr: Ipv6Addr::from(m),
        mask,
    }
}

pub fn rand_rd(rng: &mut Rng) -> RouteDistinguisher {
    match rng.below(3) {
        0 => RouteDistinguisher::TwoOctetAs {
            admin: rng.next_u32() as u16,
            assigned: rng.next_u32(),
        },
        1 => RouteDistinguisher::Ipv4 {
            admin: rand_v4(rng),
            assigned: rng.next_u32() as u16,
        },
        _ => RouteDistinguisher::FourOctetAs {
            admin: rng.next_u32(),
            assigned: rng.next_u32() as u16,
        },
    }
}

pub fn labels(rng: &mut Rng, reach: bool, labeled_unicast: bool) -> mpls::MplsLabelStack {
    if !reach && labeled_unicast {
        // what the parser produces for a withdraw of a labeled prefix
        return mpls::MplsLabelStack::new(vec![mpls::MplsLabel::new(0)]);
    }
    let n = if rng.chance(1, 6) { 2 } else { 1 };
    mpls::MplsLabelStack::new(
        (0..n)
            .map(|_| mpls::MplsLabel::new(rng.range(16, 0xFFFFF) as u32))
            .collect(),
    )
}

pub fn fs_ops(rng: &mut Rng) -> Vec<flowspec::Op> {
    let n = rng.range(1, 3) as usize;
    (0..n)
        .map(|i| flowspec::Op {
            bits: flowspec::Op::EQ | if i + 1 == n { flowspec::Op::END } else { 0 },
            value: match rng.below(3) {
                0 => rng.below(256),
                1 => rng.below(65536),
                _ => rng.below(1 << 20),
            },
        })
        .collect()
}

pub fn fs_v4(rng: &mut Rng) -> Vec<flowspec::FlowspecV4Component> {
    let mut c = vec![flowspec::FlowspecV4Component::DstPrefix(v4net(rng))];
    if rng.bool() {
        c.push(flowspec::FlowspecV4Component::SrcPrefix(v4net(rng)));
    }
    if rng.bool() {
        c.push(flowspec::FlowspecV4Component::Protocol(fs_ops(rng)));
    }
    if rng.bool() {
        c.push(flowspec::FlowspecV4Component::DstPort(fs_ops(rng)));
    }
    c
}

pub fn fs_v6(rng: &mut Rng) -> Vec<flowspec::FlowspecV6Component> {
    let mut c = vec![flowspec::FlowspecV6Component::DstPrefix {
        prefix: v6net(rng),
        offset: 0,
    }];
    if rng.bool() {
        c.push(flowspec::FlowspecV6Component::NextHeader(fs_ops(rng)));
    }
    if rng.bool() {
        c.push(flowspec::FlowspecV6Component::DstPort(fs_ops(rng)));
    }
    c
}

pub fn gen_nlri(rng: &mut Rng, f: Family, reach: bool) -> Nlri {
    if f == Family::IPV4 || f == Family::IPV4_MC {
        Nlri::V4(v4net(rng))
    } else if f == Family::IPV6 || f == Family::IPV6_MC {
        Nlri::V6(v6net(rng))
    } else if f == Family::IPV4_MPLS {
        Nlri::LabeledV4(labeled::LabeledV4Nlri {
            labels: labels(rng, reach, true),
            prefix: v4net(rng),
        })
    } else if f == Family::IPV6_MPLS {
        Nlri::LabeledV6(labeled::LabeledV6Nlri {
            labels: labels(rng, reach, true),
            prefix: v6net(rng),
        })
    } else if f == Family::IPV4_VPN {
        Nlri::VpnV4(vpn::VpnV4Nlri {
            labels: labels(rng, reach, false),
            rd: rand_rd(rng),
            prefix: v4net(rng),
        })
    } else if f == Family::IPV6_VPN {
        Nlri::VpnV6(vpn::VpnV6Nlri {
            labels: labels(rng, reach, false),
            rd: rand_rd(rng),
            prefix: v6net(rng),
        })
    } else if f == Family::RTC {
        Nlri::Rtc(rtc::RtcNlri {
            match_type: match rng.below(3) {
                0 => rtc::MatchType::Wildcard,
                1 => rtc::MatchType::AsWildcard {
                    origin_as: rng.next_u32(),
                },
                _ => {
                    let mut rt = [0u8; 8];
                    rt.copy_from_slice(&rng.bytes(8));
                    rt[0] = 0;
                    rt[1] = 2;
                    rtc::MatchType::ExactMatch {
                        origin_as: rng.next_u32(),
                        route_target: rt,
                    }
                }
            },
        })
    } else if f == Family::L2VPN_EVPN {
        let mut esi = [0u8; 10];
        if rng.bool() {
            esi.copy_from_slice(&rng.bytes(10));
        }
        match rng.below(3) {
            0 => {
                let mut mac = [0u8; 6];
                mac.copy_from_slice(&rng.bytes(6));
                Nlri::Evpn(evpn::EvpnNlri::MacIpAdvertisement(
                    evpn::MacIpAdvertisement {
                        rd: rand_rd(rng),
                        esi: evpn::Esi(esi),
                        etag: rng.next_u32(),
                        mac,
                        ip: match rng.below(3) {
                            0 => None,
                            1 => Some(IpAddr::V4(rand_v4(rng))),
                            _ => Some(IpAddr::V6(rand_v6(rng))),
                        },
                        label1: rng.below(1 << 24) as u32,
                        label2: if rng.chance(1, 4) {
                            Some(rng.below(1 << 24) as u32)
                        } else {
                            None
                        },
                    },
                ))
            }
            1 => Nlri::Evpn(evpn::EvpnNlri::InclusiveMulticastEthernetTag(
                evpn::InclusiveMulticastEthernetTag {
                    rd: rand_rd(rng),
                    etag: rng.next_u32(),
                    originating_router_ip: if rng.bool() {
                        IpAddr::V4(rand_v4(rng))
                    } else {
                        IpAddr::V6(rand_v6(rng))
                    },
                },
            )),
            _ => {
                let v6 = rng.bool();
                let (p, l, g) = if v6 {
                    let n = v6net(rng);
                    (
                        IpAddr::V6(n.addr),
                        n.mask,
                        IpAddr::V6(Ipv6Addr::UNSPECIFIED),
                    )
                } else {
                    let n = v4net(rng);
                    (
                        IpAddr::V4(n.addr),
                        n.mask,
                        IpAddr::V4(Ipv4Addr::UNSPECIFIED),
                    )
                };
                Nlri::Evpn(evpn::EvpnNlri::EthernetIpPrefix(
                    evpn::EthernetIpPrefixRoute {
                        rd: rand_rd(rng),
                        esi: evpn::Esi(esi),
                        etag: rng.next_u32(),
                        ip_prefix: p,
                        prefix_len: l,
                        gateway_ip: g,
                        label: rng.below(1 << 24) as u32,
                    },
                ))
            }
        }
    } else if f == Family::IPV4_FLOWSPEC {
        Nlri::FlowspecV4(flowspec::FlowspecV4Nlri {
            components: fs_v4(rng),
        })
    } else if f == Family::IPV6_FLOWSPEC {
        Nlri::FlowspecV6(flowspec::FlowspecV6Nlri {
            components: fs_v6(rng),
        })
    } else if f == Family::IPV4_FLOWSPEC_VPN {
        Nlri::FlowspecVpnV4(flowspec::FlowspecVpnV4Nlri {
            rd: rand_rd(rng),
            components: fs_v4(rng),
        })
    } else if f == Family::IPV6_FLOWSPEC_VPN {
        Nlri::FlowspecVpnV6(flowspec::FlowspecVpnV6Nlri {
            rd: rand_rd(rng),
            components: fs_v6(rng),
        })
    } else if f == Family::IPV4_SRPOLICY {
        Nlri::SrPolicy(sr_policy::SrPolicyNlri {
            distinguisher: rng.next_u32(),
            color: rng.next_u32(),
            endpoint: IpAddr::V4(rand_v4(rng)),
        })
    } else if f == Family::IPV6_SRPOLICY {
        Nlri::SrPolicy(sr_policy::SrPolicyNlri {
            distinguisher: rng.next_u32(),
            color: rng.next_u32(),
            endpoint: IpAddr::V6(rand_v6(rng)),
        })
    } else if f == Family::IPV4_MUP || f == Family::IPV6_MUP {
        let v6 = f == Family::IPV6_MUP;
        if rng.bool() {
            let (a, l) = if v6 {
                let n = v6net(rng);
                (IpAddr::V6(n.addr), n.mask)
            } else {
                let n = v4net(rng);
                (IpAddr::V4(n.addr), n.mask)
            };
            Nlri::Mup(mup::MupNlri::InterworkSegmentDiscovery(
                mup::MupInterworkSegmentDiscoveryRoute {
                    rd: rand_rd(rng),
                    prefix_addr: a,
                    prefix_len: l,
                },
            ))
        } else {
            let a = if v6 {
                IpAddr::V6(rand_v6(rng))
            } else {
                IpAddr::V4(rand_v4(rng))
            };
            Nlri::Mup(mup::MupNlri::DirectSegmentDiscovery(
                mup::MupDirectSegmentDiscoveryRoute {
                    rd: rand_rd(rng),
                    address: a,
                },
            ))
        }
    } else {
        // BGP-LS node NLRI
        Nlri::Ls(ls::BgpLsNlri::Node(ls::BgpLsNodeNlri {
            protocol_id: rng.range(1, 6) as u8,
            identifier: rng.next_u64(),
            local_node: ls::NodeDescriptor {
                asn: Some(rng.next_u32()),
                bgp_ls_id: if rng.bool() {
                    Some(rng.next_u32())
                } else {
                    None
                },
                ospf_area_id: None,
                igp_router_id: Some(rbytes(rng, 4, 6, 2)),
                bgp_router_id: None,
                bgp_confederation_member: None,
            },
        }))
    }
}

#[derive(Clone, Copy, PartialEq, Eq)]
pub enum AttrSize {
    Normal,
    /// one attribute needs the extended-length flag (> 255 bytes)
    Extended,
    /// attributes alone exceed a 4096-byte frame (legal with RFC 8654 extended messages)
    Huge,
}

pub fn gen_as_path(rng: &mut Rng, small_as: bool) -> Attribute {
    let nseg = match rng.below(10) {
        0 => 0,
        1..=6 => 1,
        7..=8 => 2,
        _ => 3,
    };
    let mut b = Vec::new();
    for _ in 0..nseg {
        let t = if small_as {
            if rng.chance(1, 5) { 1 } else { 2 }
        } else {
            match rng.below(12) {
                0 => 1,
                1 => 3,
                2 => 4,
                _ => 2,
            }
        };
        let n = rng.range(1, 8) as usize;
        b.push(t);
        b.push(n as u8);
        for _ in 0..n {
            let asn: u32 = if small_as || rng.bool() {
                rng.range(1, 65534) as u32
            } else {
                rng.range(65536, 4_200_000_000) as u32
            };
            b.extend_from_slice(&asn.to_be_bytes());
        }
    }
    Attribute::new_with_bin(Attribute::AS_PATH, b).unwrap()
}

pub fn gen_attrs(rng: &mut Rng, size: AttrSize, small_as: bool) -> Vec<Attribute> {
    let mut v = vec![
        Attribute::new_with_value(Attribute::ORIGIN, rng.below(3) as u32).unwrap(),
        gen_as_path(rng, small_as),
    ];
    if rng.chance(1, 2) {
        v.push(Attribute::new_with_value(Attribute::MULTI_EXIT_DESC, rng.next_u32()).unwrap());
    }
    if rng.chance(1, 2) {
        v.push(Attribute::new_with_value(Attribute::LOCAL_PREF, rng.next_u32()).unwrap());
    }
    if rng.chance(1, 8) {
        v.push(Attribute::new_with_bin(Attribute::ATOMIC_AGGREGATE, vec![]).unwrap());
    }
    if rng.chance(1, 6) {
        let asn: u32 = if small_as || rng.bool() {
            rng.range(1, 65534) as u32
        } else {
            rng.next_u32() | 0x10000
        };
        let mut b = asn.to_be_bytes().to_vec();
        b.extend_from_slice(&rand_v4(rng).octets());
        v.push(Attribute::new_with_bin(Attribute::AGGREGATOR, b).unwrap());
    }
    let ncomm = match size {
        AttrSize::Normal => {
            if rng.chance(1, 2) {
                rng.range(1, 12) as usize
            } else {
                0
            }
        }
        AttrSize::Extended => rng.range(70, 300) as usize,
        AttrSize::Huge => rng.range(1050, 2500) as usize,
    };
    if ncomm > 0 {
        v.push(Attribute::new_with_bin(Attribute::COMMUNITY, rng.bytes(4 * ncomm)).unwrap());
    }
    if rng.chance(1, 8) {
        v.push(Attribute::new_with_value(Attribute::ORIGINATOR_ID, rng.next_u32()).unwrap());
        v.push(Attribute::new_with_bin(Attribute::CLUSTER_LIST, rbytes(rng, 1, 4, 4)).unwrap());
    }
    if rng.chance(1, 4) {
        v.push(
            Attribute::new_with_bin(Attribute::EXTENDED_COMMUNITY, rbytes(rng, 1, 6, 8)).unwrap(),
        );
    }
    if rng.chance(1, 5) {
        v.push(Attribute::new_with_bin(Attribute::LARGE_COMMUNITY, rbytes(rng, 1, 5, 12)).unwrap());
    }
    if rng.chance(1, 12) {
        let mut b = vec![1u8, 0, 11];
        b.extend_from_slice(&rng.bytes(8));
        v.push(Attribute::new_with_bin(Attribute::AIGP, b).unwrap());
    }
    if rng.chance(1, 16) {
        let code = *rng.pick(&[
            Attribute::PREFIX_SID,
            Attribute::LS,
            Attribute::TUNNEL_ENCAP,
        ]);
        v.push(Attribute::new_with_bin(code, rbytes(rng, 4, 40, 1)).unwrap());
    }
    if rng.chance(1, 8) {
        // unknown optional transitive attribute kept as an opaque blob
        let code = rng.range(100, 250) as u8;
        let flags = if rng.bool() { 0xC0 } else { 0xE0 };
        let n = if rng.chance(1, 5) {
            rng.range(256, 400)
        } else {
            rng.range(0, 40)
        } as usize;
        v.push(Attribute::new_opaque(code, flags, rng.bytes(n)));
    }
    if rng.chance(1, 10) {
        rng.shuffle(&mut v);
    }
    v
}

pub fn gen_nexthop(rng: &mut Rng, f: Family) -> Option<Nexthop> {
    if is_flowspec(f) {
        return None;
    }
    let afi = f.afi();
    if (f == Family::IPV4_MPLS || f == Family::IPV4_MUP || f == Family::RTC || f == Family::LS)
        && rng.chance(4, 5)
    {
        return Some(Nexthop::V6(rand_v6(rng)));
    }
    if afi == Family::AFI_IP {
        if rng.chance(1, 6) {
            if rng.bool() {
                Some(Nexthop::V6(rand_v6(rng)))
            } else {
                Some(Nexthop::V6LinkLocal(rand_v6(rng), rand_ll(rng)))
            }
        } else {
            Some(Nexthop::V4(rand_v4(rng)))
        }
    } else if afi == Family::AFI_IP6 {
        match rng.below(20) {
            0 => Some(Nexthop::V4(rand_v4(rng))),
            1..=5 => Some(Nexthop::V6LinkLocal(rand_v6(rng), rand_ll(rng))),
            _ => Some(Nexthop::V6(rand_v6(rng))),
        }
    } else if rng.bool() {
        Some(Nexthop::V4(rand_v4(rng)))
    } else {
        Some(Nexthop::V6(rand_v6(rng)))
    }
}

/// Independent BGP framing per RFC 4271 §4.1: 16×0xFF marker, 2-byte length
/// (19..), type.  Returns the well-framed PDUs and, if the buffer is not
/// exactly a sequence of PDUs, where and why framing stopped.
pub fn split_pdus(b: &[u8]) -> (Vec<&[u8]>, Option<(usize, &'static str)>) {
    let mut out = Vec::new();
    let mut o = 0usize;
    while o < b.len() {
        if b.len() - o < 19 {
            return (out, Some((o, "short-header")));
        }
        if b[o..o + 16].iter().any(|x| *x != 0xff) {
            return (out, Some((o, "bad-marker")));
        }
        let l = u16::from_be_bytes([b[o + 16], b[o + 17]]) as usize;
        if l < 19 {
            return (out, Some((o, "bad-length")));
        }
        if o + l > b.len() {
            return (out, Some((o, "overrun")));
        }
        out.push(&b[o..o + l]);
        o += l;
    }
    (out, None)
}

pub struct Parsers {
    // [addpath][two_byte_as]
    pub p: Vec<PeerCodec>,
}

impl Parsers {
    pub fn new() -> Parsers {
        let mut p = Vec::new();
        for addpath in [false, true] {
            for two in [false, true] {
                let mut c = PeerCodec::new();
                c.two_byte_as = two;
                c.extended_length = true;
                for (f, _) in FAMILIES {
                    c.set_family(
                        *f,
                        FamilyState {
                            addpath_rx: addpath,
                            addpath_tx: addpath,
                        },
                    );
                }
                p.push(c);
            }
        }
        Parsers { p }
    }
    pub fn get(&mut self, addpath: bool, two_byte: bool) -> &mut PeerCodec {
        &mut self.p[(addpath as usize) * 2 + two_byte as usize]
    }
    /// parse one PDU with the repository's parser; Err(clause, detail)
    pub fn parse(
        &mut self,
        pdu: &[u8],
        addpath: bool,
        two_byte: bool,
    ) -> Result<ParsedMessage, (String, String)> {
        let c = self.get(addpath, two_byte);
        match guard(|| c.parse_message(pdu)) {
            Ok(Ok(m)) => Ok(m),
            Ok(Err(n)) => Err((
                "pdu-unparsable".into(),
                format!("repo parser rejects the embedded PDU: {:?}", n),
            )),
            Err(p) => Err((
                format!("panic/{}:{}", p.location, panic_class(&p.message)),
                format!("repo parser panicked on the embedded PDU: {}", p.message),
            )),
        }
    }
}

#[derive(Default)]
pub struct Decoded {
    pub pdus: usize,
    pub eor: Vec<Family>,
    pub reach: Vec<(Family, PathNlri)>,
    pub unreach: Vec<(Family, PathNlri)>,
    pub ctx: BTreeSet<(String, String)>,
    pub attr_only: usize,
    pub error_attrs: Vec<u8>,
    pub other: usize,
}

impl Decoded {
    pub fn absorb(&mut self, m: ParsedMessage) {
        self.pdus += 1;
        match m {
            ParsedMessage::Update(ParsedUpdate::EndOfRib(f)) => self.eor.push(f),
            ParsedMessage::Update(ParsedUpdate::Routes {
                reach,
                mp_reach,
                unreach,
                mp_unreach,
                attrs,
                error_attrs,
            }) => {
                let canon = attrs_canon(&attrs);
                let mut any = false;
                for r in reach.into_iter().chain(mp_reach) {
                    any = true;
                    self.ctx.insert((canon.clone(), nh_str(&r.nexthop)));
                    for e in r.entries {
                        self.reach.push((r.family, e));
                    }
                }
                for u in unreach.into_iter().chain(mp_unreach) {
                    any = true;
                    for e in u.entries {
                        self.unreach.push((u.family, e));
                    }
                }
                if !any {
                    self.attr_only += 1;
                }
                for e in error_attrs {
                    self.error_attrs.push(e.attr_code);
                }
            }
            _ => self.other += 1,
        }
    }
}

pub fn multiset_diff(
    want: &[(Family, PathNlri)],
    got: &[(Family, PathNlri)],
) -> (Vec<(Family, PathNlri)>, Vec<(Family, PathNlri)>) {
    let mut m: HashMap<(Family, &PathNlri), i64> = HashMap::new();
    for (f, e) in want {
        *m.entry((*f, e)).or_insert(0) += 1;
    }
    for (f, e) in got {
        *m.entry((*f, e)).or_insert(0) -= 1;
    }
    let mut missing = Vec::new();
    let mut extra = Vec::new();
    for ((f, e), n) in m {
        if n > 0 {
            missing.push((f, e.clone()));
        } else if n < 0 {
            extra.push((f, e.clone()));
        }
    }
    (missing, extra)
}

pub fn show_entries(v: &[(Family, PathNlri)]) -> String {
    let mut s: Vec<String> = v
        .iter()
        .take(5)
        .map(|(f, e)| format!("{}:{}#{}", fam_name(*f), e.nlri, e.path_id))
        .collect();
    s.sort();
    format!(
        "{} entr{} e.g. [{}]",
        v.len(),
        if v.len() == 1 { "y" } else { "ies" },
        s.join(", ")
    )
}

pub fn open_eq(a: &Open, b: &Open) -> bool {
    a.as_number == b.as_number
        && a.holdtime.seconds() == b.holdtime.seconds()
        && a.router_id == b.router_id
        && format!("{:?}", a.capability) == format!("{:?}", b.capability)
}

pub fn open_str(o: &Open) -> String {
    format!(
        "AS{} hold={} id={} caps={:?}",
        o.as_number,
        o.holdtime.seconds(),
        Ipv4Addr::from(o.router_id),
        o.capability
    )
}

pub fn open_stable(ps: &mut Parsers, o: &Open) -> bool {
    let mut c = PeerCodec::new();
    let m = bgp::Message::Open(o.clone());
    let bytes = match guard(|| {
        let mut b = BytesMut::new();
        c.encode_to(&m, &mut b).map(|_| b.to_vec())
    }) {
        Ok(Ok(b)) => b,
        _ => return false,
    };
    matches!(ps.parse(&bytes, false, false), Ok(ParsedMessage::Open(p)) if open_eq(&p, o))
}

pub fn notif_str(n: &Notification) -> String {
    format!(
        "code={} subcode={} data={}",
        n.notification_code(),
        n.notification_subcode(),
        short(&hex(n.notification_data()), 80)
    )
}

pub fn notif_eq(a: &Notification, b: &Notification) -> bool {
    a.notification_code() == b.notification_code()
        && a.notification_subcode() == b.notification_subcode()
        && a.notification_data() == b.notification_data()
}

pub fn cap_len(c: &Capability) -> usize {
    2 + match c {
        Capability::MultiProtocol(_) => 4,
        Capability::RouteRefresh
        | Capability::ExtendedMessage
        | Capability::EnhancedRouteRefresh => 0,
        Capability::ExtendedNexthop(v) => 6 * v.len(),
        Capability::GracefulRestart { families, .. } => 2 + 4 * families.len(),
        Capability::FourOctetAsNumber(_) => 4,
        Capability::AddPath(v) => 4 * v.len(),
        Capability::LongLivedGracefulRestart(v) => 7 * v.len(),
        Capability::Fqdn { hostname, domain } => 2 + hostname.len() + domain.len(),
        Capability::Unknown { bin, .. } => bin.len(),
    }
}

pub fn gen_open(rng: &mut Rng, asn: u32, id: Ipv4Addr) -> Open {
    let mut caps = Vec::new();
    let nfam = rng.range(0, 6) as usize;
    let mut fams = Vec::new();
    for _ in 0..nfam {
        let f = pick_family(rng);
        if !fams.contains(&f) {
            fams.push(f);
        }
    }
    for f in &fams {
        caps.push(Capability::MultiProtocol(*f));
    }
    if rng.chance(3, 4) {
        caps.push(Capability::RouteRefresh);
    }
    if asn > 65535 || rng.chance(3, 4) {
        caps.push(Capability::FourOctetAsNumber(asn));
    }
    if rng.bool() {
        caps.push(Capability::ExtendedMessage);
    }
    if rng.chance(1, 4) {
        let v: Vec<(Family, u16)> = fams
            .iter()
            .filter(|f| f.afi() == Family::AFI_IP)
            .map(|f| (*f, Family::AFI_IP6))
            .collect();
        if !v.is_empty() {
            caps.push(Capability::ExtendedNexthop(v));
        }
    }
    if rng.chance(1, 3) && !fams.is_empty() {
        caps.push(Capability::AddPath(
            fams.iter().map(|f| (*f, rng.range(1, 3) as u8)).collect(),
        ));
    }
    if rng.chance(1, 3) {
        caps.push(Capability::GracefulRestart {
            flags: rng.below(16) as u8,
            restart_time: rng.below(4096) as u16,
            families: fams
                .iter()
                .map(|f| (*f, if rng.bool() { 0x80 } else { 0 }))
                .collect(),
        });
    }
    if rng.chance(1, 5) && !fams.is_empty() {
        caps.push(Capability::LongLivedGracefulRestart(
            fams.iter()
                .map(|f| {
                    (
                        *f,
                        if rng.bool() { 0x80 } else { 0 },
                        rng.below(1 << 24) as u32,
                    )
                })
                .collect(),
        ));
    }
    if rng.chance(1, 5) {
        caps.push(Capability::EnhancedRouteRefresh);
    }
    if rng.chance(1, 5) {
        caps.push(Capability::Fqdn {
            hostname: format!("r{}", rng.below(1000)),
            domain: if rng.bool() {
                "example.net".into()
            } else {
                String::new()
            },
        });
    }
    if rng.chance(1, 6) {
        caps.push(Capability::Unknown {
            code: rng.range(128, 250) as u8,
            bin: rbytes(rng, 0, 12, 1),
        });
    }
    // an OPEN that was on the wire has at most 255 bytes of optional parameters
    while caps.iter().map(cap_len).sum::<usize>() > 253 {
        caps.pop();
    }
    let hold = match rng.below(6) {
        0 => 0,
        1 => 3,
        2 => 65535,
        _ => rng.range(3, 600) as u16,
    };
    Open {
        as_number: asn,
        holdtime: HoldTime::new(hold).unwrap(),
        router_id: u32::from(id),
        capability: caps,
    }
}

pub fn gen_notification(rng: &mut Rng) -> Notification {
    let (code, sub) = match rng.below(8) {
        0 => (1, rng.range(1, 3) as u8),
        1 => (2, rng.range(0, 8) as u8),
        2 => (3, rng.range(1, 11) as u8),
        3 => (4, 0),
        4 => (5, rng.range(0, 3) as u8),
        5..=6 => (6, rng.range(1, 10) as u8),
        _ => (rng.range(7, 20) as u8, rng.below(256) as u8),
    };
    let n = match rng.below(10) {
        0..=3 => 0,
        4..=7 => rng.range(1, 32) as usize,
        8 => rng.range(100, 1000) as usize,
        _ => rng.range(3000, 4070) as usize,
    };
    // data as `from_notification` keeps it: what a received NOTIFICATION turns into
    let n0 = Notification::from_notification(code, sub, rng.bytes(n));
    Notification::from_notification(
        n0.notification_code(),
        n0.notification_subcode(),
        n0.notification_data().to_vec(),
    )
}

pub struct BmpRec<'a> {
    pub typ: u8,
    pub body: &'a [u8],
}

/// Common header: version(1)=3, length(4) = whole message incl. header, type(1).
pub fn read_bmp(b: &[u8]) -> Result<Vec<BmpRec<'_>>, (String, String)> {
    let mut out = Vec::new();
    let mut o = 0usize;
    while o < b.len() {
        if b.len() - o < 6 {
            return Err((
                "common-length".into(),
                format!("{} stray bytes after the last message", b.len() - o),
            ));
        }
        if b[o] != 3 {
            return Err((
                "common-length".into(),
                format!(
                    "at offset {} a message should start but version byte is {} (length field of the previous message wrong?)",
                    o, b[o]
                ),
            ));
        }
        let l = u32::from_be_bytes([b[o + 1], b[o + 2], b[o + 3], b[o + 4]]) as usize;
        if l < 6 || o + l > b.len() {
            return Err((
                "common-length".into(),
                format!(
                    "length field {} but {} bytes were emitted from the start of this message",
                    l,
                    b.len() - o
                ),
            ));
        }
        out.push(BmpRec {
            typ: b[o + 5],
            body: &b[o + 6..o + l],
        });
        o += l;
    }
    Ok(out)
}

pub fn ip16(a: &IpAddr) -> [u8; 16] {
    match a {
        IpAddr::V4(a) => {
            let mut x = [0u8; 16];
            x[12..].copy_from_slice(&a.octets());
            x
        }
        IpAddr::V6(a) => a.octets(),
    }
}

pub fn read_tlvs(b: &[u8]) -> Result<Vec<(u16, Vec<u8>)>, String> {
    let mut out = Vec::new();
    let mut o = 0;
    while o < b.len() {
        if b.len() - o < 4 {
            return Err(format!(
                "{} stray bytes where a TLV should start",
                b.len() - o
            ));
        }
        let t = u16::from_be_bytes([b[o], b[o + 1]]);
        let l = u16::from_be_bytes([b[o + 2], b[o + 3]]) as usize;
        if o + 4 + l > b.len() {
            return Err(format!("TLV length {} overruns the message", l));
        }
        out.push((t, b[o + 4..o + 4 + l].to_vec()));
        o += 4 + l;
    }
    Ok(out)
}

pub fn bmp_type_name(t: u8) -> &'static str {
    match t {
        0 => "route-monitoring",
        1 => "stats",
        2 => "peer-down",
        3 => "peer-up",
        4 => "initiation",
        5 => "termination",
        6 => "route-mirroring",
        _ => "unknown",
    }
}

/// exactly one well-framed PDU of type `want` filling `b`; Err(clause, detail)
pub fn one_pdu<'a>(b: &'a [u8], want: u8) -> Result<&'a [u8], (String, String)> {
    let (pdus, err) = split_pdus(b);
    if pdus.len() > 1 {
        return Err((
            "multiple-pdus".into(),
            format!(
                "{} BGP PDUs (lengths {:?}) where exactly one is allowed",
                pdus.len(),
                pdus.iter().map(|p| p.len()).collect::<Vec<_>>()
            ),
        ));
    }
    if pdus.is_empty() {
        let why = err.map(|e| e.1).unwrap_or("empty");
        let clause = if why == "overrun" {
            "pdu-overrun"
        } else {
            "pdu-framing"
        };
        return Err((
            clause.into(),
            format!(
                "no well-framed BGP PDU ({}); {} bytes available, header says {}",
                why,
                b.len(),
                if b.len() >= 18 {
                    u16::from_be_bytes([b[16], b[17]]) as usize
                } else {
                    0
                }
            ),
        ));
    }
    if let Some((at, why)) = err {
        return Err((
            "trailing-bytes".into(),
            format!(
                "{} bytes after the PDU do not form a PDU ({})",
                b.len() - at,
                why
            ),
        ));
    }
    if pdus[0][18] != want {
        return Err((
            "pdu-type".into(),
            format!("embedded PDU has type {} expected {}", pdus[0][18], want),
        ));
    }
    Ok(pdus[0])
}

pub struct MrtRec<'a> {
    pub ts: u32,
    pub typ: u16,
    pub subtype: u16,
    pub body: &'a [u8],
}

/// MRT common header: timestamp(4) type(2) subtype(2) length(4) = bytes that follow.
pub fn read_mrt(b: &[u8]) -> Result<Vec<MrtRec<'_>>, (String, String)> {
    let mut out = Vec::new();
    let mut o = 0usize;
    while o < b.len() {
        if b.len() - o < 12 {
            return Err((
                "common-length".into(),
                format!("{} stray bytes after the last record", b.len() - o),
            ));
        }
        let ts = u32::from_be_bytes([b[o], b[o + 1], b[o + 2], b[o + 3]]);
        let typ = u16::from_be_bytes([b[o + 4], b[o + 5]]);
        let subtype = u16::from_be_bytes([b[o + 6], b[o + 7]]);
        let l = u32::from_be_bytes([b[o + 8], b[o + 9], b[o + 10], b[o + 11]]) as usize;
        if o + 12 + l > b.len() {
            return Err((
                "common-length".into(),
                format!(
                    "length field {} but only {} bytes follow the header",
                    l,
                    b.len() - o - 12
                ),
            ));
        }
        out.push(MrtRec {
            ts,
            typ,
            subtype,
            body: &b[o + 12..o + 12 + l],
        });
        o += 12 + l;
    }
    Ok(out)
}

/// (name, 4-byte AS fields, add-path, is a MESSAGE subtype)
pub fn bgp4mp_subtype(s: u16) -> Option<(&'static str, bool, bool, bool)> {
    Some(match s {
        0 => ("bgp4mp-state-change", false, false, false),
        1 => ("bgp4mp-message", false, false, true),
        4 => ("bgp4mp-message-as4", true, false, true),
        5 => ("bgp4mp-state-change-as4", true, false, false),
        6 => ("bgp4mp-message-local", false, false, true),
        7 => ("bgp4mp-message-as4-local", true, false, true),
        8 => ("bgp4mp-message-addpath", false, true, true),
        9 => ("bgp4mp-message-as4-addpath", true, true, true),
        10 => ("bgp4mp-message-local-addpath", false, true, true),
        11 => ("bgp4mp-message-as4-local-addpath", true, true, true),
        _ => return None,
    })
}

pub struct MpRead<'a> {
    pub remote_as: u32,
    pub local_as: u32,
    pub ifidx: u16,
    pub afi: u16,
    pub remote: &'a [u8],
    pub local: &'a [u8],
    pub rest: &'a [u8],
}

/// BGP4MP_MESSAGE* body with AS fields of the given width; the remainder must
/// start with a BGP marker.
pub fn read_mp(b: &[u8], as4: bool) -> Result<MpRead<'_>, String> {
    let w = if as4 { 4 } else { 2 };
    if b.len() < 2 * w + 4 {
        return Err("shorter than the BGP4MP header".into());
    }
    let rd = |o: usize| -> u32 {
        if as4 {
            u32::from_be_bytes([b[o], b[o + 1], b[o + 2], b[o + 3]])
        } else {
            u16::from_be_bytes([b[o], b[o + 1]]) as u32
        }
    };
    let (remote_as, local_as) = (rd(0), rd(w));
    let o = 2 * w;
    let ifidx = u16::from_be_bytes([b[o], b[o + 1]]);
    let afi = u16::from_be_bytes([b[o + 2], b[o + 3]]);
    let alen = match afi {
        1 => 4,
        2 => 16,
        _ => return Err(format!("AFI field {} is neither 1 nor 2", afi)),
    };
    let o = o + 4;
    if b.len() < o + 2 * alen + 19 {
        return Err("too short for two addresses and a BGP message".into());
    }
    let rest = &b[o + 2 * alen..];
    if rest[..16].iter().any(|x| *x != 0xff) {
        return Err("no BGP marker after the two addresses".into());
    }
    Ok(MpRead {
        remote_as,
        local_as,
        ifidx,
        afi,
        remote: &b[o..o + alen],
        local: &b[o + alen..o + 2 * alen],
        rest,
    })
}

pub fn ipn(a: &IpAddr) -> Vec<u8> {
    match a {
        IpAddr::V4(a) => a.octets().to_vec(),
        IpAddr::V6(a) => a.octets().to_vec(),
    }
}

pub fn walk_attrs(b: &[u8]) -> Result<Vec<(u8, u8, &[u8], &[u8])>, String> {
    let mut out = Vec::new();
    let mut o = 0;
    while o < b.len() {
        if b.len() - o < 3 {
            return Err(format!(
                "{} stray bytes at the end of the attribute block",
                b.len() - o
            ));
        }
        let (flags, code) = (b[o], b[o + 1]);
        let (l, h) = if flags & 0x10 != 0 {
            if b.len() - o < 4 {
                return Err("extended-length attribute header overruns".into());
            }
            (u16::from_be_bytes([b[o + 2], b[o + 3]]) as usize, 4)
        } else {
            (b[o + 2] as usize, 3)
        };
        if o + h + l > b.len() {
            return Err(format!(
                "attribute {} length {} overruns the attribute block",
                code, l
            ));
        }
        out.push((flags, code, &b[o + h..o + h + l], &b[o..o + h + l]));
        o += h + l;
    }
    Ok(out)
}

pub fn synth_update(attr_blob: &[u8], nlri: &[u8]) -> Option<Vec<u8>> {
    let total = 19 + 4 + attr_blob.len() + nlri.len();
    if total > 60000 {
        return None;
    }
    let mut v = vec![0xffu8; 16];
    v.extend_from_slice(&(total as u16).to_be_bytes());
    v.push(2);
    v.extend_from_slice(&[0, 0]);
    v.extend_from_slice(&(attr_blob.len() as u16).to_be_bytes());
    v.extend_from_slice(attr_blob);
    v.extend_from_slice(nlri);
    Some(v)
}

/// attributes (content) and NEXT_HOP as the repository's parser reads them
pub fn parse_attr_blob(
    ps: &mut Parsers,
    blob: &[u8],
    v4_prefix: Option<&[u8]>,
) -> Result<(String, Option<Nexthop>), String> {
    let pdu = synth_update(blob, v4_prefix.unwrap_or(&[])).ok_or("too-large")?;
    match ps.parse(&pdu, false, false) {
        Ok(ParsedMessage::Update(ParsedUpdate::Routes { reach, attrs, .. })) => {
            Ok((attrs_canon(&attrs), reach.and_then(|r| r.nexthop)))
        }
        Ok(ParsedMessage::Update(ParsedUpdate::EndOfRib(_))) => Ok((String::new(), None)),
        Ok(_) => Err("not-an-update".into()),
        Err((c, d)) => Err(format!("{}: {}", c, d)),
    }
}

pub fn nh_bytes(n: &Nexthop) -> Vec<u8> {
    match n {
        Nexthop::V4(a) => a.octets().to_vec(),
        Nexthop::V6(a) => a.octets().to_vec(),
        Nexthop::V6LinkLocal(g, l) => {
            let mut v = g.octets().to_vec();
            v.extend_from_slice(&l.octets());
            v
        }
    }
}

pub fn prefix_bytes(n: &Nlri) -> (u8, Vec<u8>) {
    match n {
        Nlri::V4(p) => (
            p.mask,
            p.addr.octets()[..(p.mask as usize).div_ceil(8)].to_vec(),
        ),
        Nlri::V6(p) => (
            p.mask,
            p.addr.octets()[..(p.mask as usize).div_ceil(8)].to_vec(),
        ),
        _ => (0, vec![]),
    }
}

// ------------------------------------------------------------------ expectations (daemon-side monitors)

/// What one monitored routing event must parse back to.
#[derive(Clone)]
pub struct RouteExp {
    pub family: Family,
    /// true = announcement, false = withdrawal
    pub reach: bool,
    pub entries: Vec<PathNlri>,
    pub nexthop: Option<Nexthop>,
    pub attrs: Arc<Vec<Attribute>>,
    /// add-path setting the record must state
    pub addpath: bool,
}

impl RouteExp {
    pub fn msg(&self) -> bgp::Message {
        if self.reach {
            bgp::Message::Update(Update::Reach {
                family: self.family,
                entries: self.entries.clone(),
                nexthop: self.nexthop,
                attr: self.attrs.clone(),
            })
        } else {
            bgp::Message::Update(Update::Unreach {
                family: self.family,
                entries: self.entries.clone(),
            })
        }
    }
    pub fn attr_bytes(&self) -> usize {
        self.attrs.iter().map(|a| a.encode_to_bytes().len()).sum()
    }
    pub fn v6_nexthop(&self) -> bool {
        matches!(
            self.nexthop,
            Some(Nexthop::V6(_)) | Some(Nexthop::V6LinkLocal(_, _))
        )
    }
    /// coarse input class for signatures (no values)
    pub fn shape(&self) -> &'static str {
        if self.reach && self.family == Family::IPV4 && self.v6_nexthop() {
            "ipv4-unicast-v6-nexthop"
        } else if self.reach && self.attr_bytes() > 4000 {
            "attrs-exceed-4096-frame"
        } else if self.family == Family::IPV4 {
            "ipv4-unicast"
        } else if self.family == Family::IPV6 {
            "ipv6-unicast"
        } else {
            "mp-family"
        }
    }
    pub fn json(&self) -> Json {
        Json::obj(vec![
            ("family", Json::s(fam_name(self.family))),
            (
                "kind",
                Json::s(if self.reach { "reach" } else { "unreach" }),
            ),
            ("addpath", Json::Bool(self.addpath)),
            (
                "entries",
                Json::strs(
                    self.entries
                        .iter()
                        .take(6)
                        .map(|e| format!("{}#{}", e.nlri, e.path_id)),
                ),
            ),
            ("n_entries", Json::Int(self.entries.len() as i128)),
            ("nexthop", Json::s(nh_str(&self.nexthop))),
            (
                "attrs",
                Json::strs(self.attrs.iter().map(|a| short(&attr_canon(a), 100))),
            ),
            ("attr_bytes", Json::Int(self.attr_bytes() as i128)),
        ])
    }
}

/// Does what was parsed back equal what was monitored?  Err(clause, detail).
pub fn compare_exp(ev: &RouteExp, d: &Decoded) -> Result<(), (String, String)> {
    if d.other > 0 {
        return Err((
            "pdu-type".into(),
            format!("{} embedded PDUs are not UPDATEs", d.other),
        ));
    }
    if !d.error_attrs.is_empty() {
        let clause = if d.error_attrs.contains(&Attribute::NEXTHOP) {
            "nexthop-missing"
        } else {
            "pdu-attr-error"
        };
        return Err((
            clause.into(),
            format!(
                "repo parser flags attribute errors for codes {:?}; monitored next hop {}",
                d.error_attrs,
                nh_str(&ev.nexthop)
            ),
        ));
    }
    if !d.eor.is_empty() {
        return Err(("unexpected-eor".into(), "a PDU parses as End-of-RIB".into()));
    }
    let want: Vec<(Family, PathNlri)> = ev
        .entries
        .iter()
        .map(|e| {
            (
                ev.family,
                PathNlri {
                    path_id: if ev.addpath { e.path_id } else { 0 },
                    nlri: e.nlri.clone(),
                },
            )
        })
        .collect();
    let empty: Vec<(Family, PathNlri)> = Vec::new();
    let (want_r, want_u) = if ev.reach {
        (&want, &empty)
    } else {
        (&empty, &want)
    };
    for (what, w, g) in [("nlri", want_r, &d.reach), ("withdraw", want_u, &d.unreach)] {
        let (missing, extra) = multiset_diff(w, g);
        if !missing.is_empty() && !extra.is_empty() {
            let strip = |v: &[(Family, PathNlri)]| -> Vec<(Family, PathNlri)> {
                v.iter()
                    .map(|(f, e)| {
                        (
                            *f,
                            PathNlri {
                                path_id: 0,
                                nlri: e.nlri.clone(),
                            },
                        )
                    })
                    .collect()
            };
            let (m2, e2) = multiset_diff(&strip(&missing), &strip(&extra));
            if m2.is_empty() && e2.is_empty() {
                return Err((
                    format!("{}-path-id-differs", what),
                    format!(
                        "monitored {} but parsed back {}",
                        show_entries(&missing),
                        show_entries(&extra)
                    ),
                ));
            }
            return Err((
                format!("{}-differs", what),
                format!(
                    "missing {} ; unexpected {}",
                    show_entries(&missing),
                    show_entries(&extra)
                ),
            ));
        }
        if !missing.is_empty() {
            return Err((
                format!("{}-lost", what),
                format!(
                    "monitored {} {}s, parsed back {}; missing {}",
                    w.len(),
                    what,
                    g.len(),
                    show_entries(&missing)
                ),
            ));
        }
        if !extra.is_empty() {
            return Err((
                format!("{}-extra", what),
                format!(
                    "monitored {} {}s, parsed back {}; unexpected {}",
                    w.len(),
                    what,
                    g.len(),
                    show_entries(&extra)
                ),
            ));
        }
    }
    if ev.reach {
        let want_attrs = attrs_canon(&ev.attrs);
        let want_nh = nh_str(&ev.nexthop);
        for (a, n) in &d.ctx {
            if *a != want_attrs {
                return Err((
                    "attrs-differ".into(),
                    format!(
                        "monitored [{}] parsed back [{}]",
                        short(&want_attrs, 600),
                        short(a, 600)
                    ),
                ));
            }
            if *n != want_nh {
                return Err((
                    "nexthop-differs".into(),
                    format!("monitored next hop {} parsed back {}", want_nh, n),
                ));
            }
        }
        if d.attr_only > 0 {
            return Err((
                "pdu-without-nlri".into(),
                format!("{} PDUs carry attributes but no NLRI", d.attr_only),
            ));
        }
    } else if d.attr_only > 0 {
        return Err((
            "pdu-without-nlri".into(),
            "withdraw event produced a PDU without routes".into(),
        ));
    }
    Ok(())
}

/// Reference round trip through a plain session codec of the repository: is
/// this event something a BGP session can carry faithfully?  If not the case is
/// C04's, not C19's, to judge.
pub fn exp_bgp_stable(ps: &mut Parsers, ev: &RouteExp, two_byte: bool) -> Result<(), String> {
    let msg = ev.msg();
    let ext_nh = ev.reach && ev.family == Family::IPV4 && ev.v6_nexthop();
    let mut c = if ext_nh {
        let mut caps = vec![
            Capability::MultiProtocol(Family::IPV4),
            Capability::ExtendedNexthop(vec![(Family::IPV4, Family::AFI_IP6)]),
            Capability::FourOctetAsNumber(65000),
            Capability::ExtendedMessage,
        ];
        if ev.addpath {
            caps.push(Capability::AddPath(vec![(Family::IPV4, 3)]));
        }
        PeerCodec::negotiate(&caps, &caps)
    } else {
        PeerCodec::new()
    };
    c.extended_length = true;
    c.two_byte_as = two_byte;
    c.set_family(
        ev.family,
        FamilyState {
            addpath_rx: ev.addpath,
            addpath_tx: ev.addpath,
        },
    );
    let bytes = match guard(|| {
        let mut b = BytesMut::new();
        c.encode_to(&msg, &mut b).map(|_| b.to_vec())
    }) {
        Ok(Ok(b)) => b,
        Ok(Err(e)) => return Err(format!("encode-error:{:?}", e)),
        Err(p) => return Err(format!("encode-panic:{}", p.location)),
    };
    let (pdus, err) = split_pdus(&bytes);
    if let Some((_, why)) = err {
        return Err(format!("framing:{}", why));
    }
    let mut d = Decoded::default();
    for p in pdus {
        match ps.parse(p, ev.addpath, two_byte) {
            Ok(m) => d.absorb(m),
            Err((c, _)) => return Err(c),
        }
    }
    compare_exp(ev, &d).map_err(|(c, _)| c)
}

/// are these attributes something the repository's parser reads back unchanged?
pub fn attrs_stable(ps: &mut Parsers, attrs: &[Attribute]) -> bool {
    let mut blob = Vec::new();
    for a in attrs.iter() {
        blob.extend_from_slice(&a.encode_to_bytes());
    }
    matches!(parse_attr_blob(ps, &blob, None), Ok((c, _)) if c == attrs_canon(attrs))
}

pub fn bytes_json(b: &[u8]) -> Json {
    if b.len() <= 3000 {
        Json::s(hex(b))
    } else {
        Json::s(format!(
            "{}…(first 3000 of {} bytes)",
            hex(&b[..3000]),
            b.len()
        ))
    }
}

/// BMP per-peer header as read from the wire (42 bytes).
#[derive(Clone, Debug, PartialEq, Eq)]
pub struct PeerHdr {
    pub ptype: u8,
    pub flags: u8,
    pub rd: u64,
    pub addr16: [u8; 16],
    pub asn: u32,
    pub id: [u8; 4],
    pub ts: u32,
    pub usec: u32,
}

impl PeerHdr {
    pub fn v(&self) -> bool {
        self.flags & 0x80 != 0
    }
    /// the peer address the header encodes (family taken from the V flag)
    pub fn addr(&self) -> IpAddr {
        if self.v() {
            IpAddr::V6(Ipv6Addr::from(self.addr16))
        } else {
            IpAddr::V4(Ipv4Addr::new(
                self.addr16[12],
                self.addr16[13],
                self.addr16[14],
                self.addr16[15],
            ))
        }
    }
}

/// Per-peer header, 42 bytes: type(1) flags(1) RD(8) address(16) AS(4) BGP-ID(4) sec(4) usec(4).
/// Structural rule checked here: V=0 requires a zero-padded IPv4 address.
pub fn read_peer_header(b: &[u8]) -> Result<PeerHdr, (String, String)> {
    if b.len() < 42 {
        return Err((
            "peer-header-short".into(),
            format!("{} bytes after the common header", b.len()),
        ));
    }
    let mut addr16 = [0u8; 16];
    addr16.copy_from_slice(&b[10..26]);
    let h = PeerHdr {
        ptype: b[0],
        flags: b[1],
        rd: u64::from_be_bytes([b[2], b[3], b[4], b[5], b[6], b[7], b[8], b[9]]),
        addr16,
        asn: u32::from_be_bytes([b[26], b[27], b[28], b[29]]),
        id: [b[30], b[31], b[32], b[33]],
        ts: u32::from_be_bytes([b[34], b[35], b[36], b[37]]),
        usec: u32::from_be_bytes([b[38], b[39], b[40], b[41]]),
    };
    if !h.v() && addr16[..12].iter().any(|x| *x != 0) {
        return Err((
            "v-flag".into(),
            format!(
                "V=0 but the address field {} is not a zero-padded IPv4 address",
                hex(&addr16)
            ),
        ));
    }
    Ok(h)
}

/// does the per-peer header encode `want` with the right V flag?
pub fn check_hdr_addr(h: &PeerHdr, want: &IpAddr) -> Result<(), (String, String)> {
    if h.v() != want.is_ipv6() {
        return Err((
            "v-flag".into(),
            format!("V={} for peer address {}", h.v() as u8, want),
        ));
    }
    if h.addr16 != ip16(want) {
        return Err((
            "peer-address".into(),
            format!("address field {} for peer {}", hex(&h.addr16), want),
        ));
    }
    Ok(())
}
pub fn pick_family(rng: &mut Rng) -> Family {
    match rng.below(20) {
        0..=5 => Family::IPV4,
        6..=10 => Family::IPV6,
        _ => FAMILIES[rng.usize(FAMILIES.len())].0,
    }
}
